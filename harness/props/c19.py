"""C19 - one-way exports (Scapy, Wireshark, FIBEX, CSV, Canard) describe the same layout."""
import contextlib
import csv as pycsv
import io
import json
import re
import decimal

import lxml.etree
import canmatrix.canmatrix as cm
import canmatrix.formats
from lib import frames as F

PID = "C19"
RULE = ("case 'rec' = (frame of 1..64 bytes with standard or extended id, 1..4 in-frame signals Intel/Motorola at any placement, "
        "signed/unsigned/float, optional simple multiplexing; one of its signals; a probe payload). The matrix is written by the "
        "Scapy, Wireshark, FIBEX, CSV (three Motorola notations) and Canard-JSON writers; independent mini-parsers (regular "
        "expressions on the .py/.lua text, lxml on FIBEX, csv, json) extract the recorded numbers. case 'frame' = the frame-level "
        "records (identifier, format, length) and the recorded scaling (Scapy scaling/offset, Canard factor/offset, FIBEX "
        "COMPU-RATIONAL-COEFFS, the CSV factor column; factors and offsets with up to 12 significant digits). In 40 % of the cases the "
        "matrix holds a second frame with signals of the same names at the same start bits (one bit wide, factor 7, value tables) and "
        "30 % of the matrices define the launch attributes GenMsgSendType / GenMsgDelayTime (the frame has a value for none, one or both); the matrix was exported once before with the signals of the frame somewhere else. Frames longer than 8 bytes are flagged as CAN FD. signals of the frame under test carry value tables. The multiplexer of a multiplexed frame is a signal like the others: in half of the multiplexed frames it has a factor/offset of its own, in 15 % it is signed, in 40 % it has a value table; its recorded scaling is compared like that of every other signal. 45 % of the multiplexed frames hold one signal name in two or three multiplexer groups, each occurrence with its own start bit, width, byte order, sign and scaling; the records are read per occurrence: the Scapy ConditionalField lambda and the Lua `if muxer ...` condition are evaluated at the occurrence's multiplexer value, FIBEX instances are taken from the PDU switched in by that SWITCH-CODE, CSV rows by their 'Mode <v>:' text, Canard entries of one name as a set of positions. 30 % of the frames have a namesake: a second frame of the matrix with the same NAME (before or after the frame under test, own identifier, format and length; the FIBEX writer gives the later one a suffix, in 30 % of the matrices with another frame the suffixed name is taken) whose signals carry names of the frame under test with a place, width, byte order, sign and scaling of their own, plain or in the same multiplexer groups. That matrix is written by the FIBEX writer only (the other writers have no provision for equal frame names) and the file is read as a tool reads it: from the FRAME-TRIGGERING with the identifier along FRAME-REF, PDU-REF (SWITCHED-/STATIC-PDU-INSTANCE), SIGNAL-REF and CODING-REF, no name of the matrix being used; an id carried by several elements of the referenced kind is resolved once to the first and once to the last of them (cases with 'resolve'), and both readings are judged like every other record, the scaling included. The Lua dissector is read as a program (lua_run): the statements of add_frame_info executed for the frame's identifier are followed in order with Lua's scoping; a bitfield() is recorded with what its buffer holds at that point (the payload parameter, the copy built by do_reverse_pdu from this call's payload and length, or something else), a statement using a name without a value ends the run (the records after it are missing), a condition on such a name is false. Non-trivial = distinct case with a signal wider than one bit.")
PARTIAL = ["the target tools are not installed: their reading conventions are the trusted Spec/Exports.lean",
           "FIBEX dynamic/static segment positions of multiplexed PDUs are not compared; compared are SIGNAL-INSTANCE and SWITCH "
           "position/byte order, CODING bit length and base data type (signedness), frame length and identifier",
           "recorded factor/offset are compared numerically in the harness, not through the Lean model"]
ASSUMPTIONS = ["frames are not extended-multiplexed; identifier numbers unique across standard/extended (CSV keys rows by the number)"]
TRUSTED = ["lxml, csv, json, re used by the mini-parsers"]
CORRESPONDENCE = "records written by formats/scapy, wireshark, fibex, csv, json(canard) == Model/Exports.lean"

_cache = {}


class NamedBytes(io.BytesIO):
    name = "x.xml"


class _Packet(object):
    pass


def _scapy_condition(text, muxname):
    """the condition of a ConditionalField as a function of the multiplexer's value: the lambda of the generated class is applied to
    a packet whose multiplexer field has that value (what Scapy does when it dissects)"""
    text = text.strip()
    text = text[:-1] if text.endswith(",") else text
    text = text[:-1] if text.endswith(")") else text
    try:
        fn = eval(text, {"__builtins__": {}}, {})       # noqa: S307 (text generated by the code under test, in-process anyway)
    except Exception:  # noqa
        return lambda v: False

    def active(v):
        p = _Packet()
        if muxname is not None:
            setattr(p, muxname, v)
        try:
            return bool(fn(p))
        except Exception:  # noqa
            return False
    return active


def _lua_condition(text):
    """a Lua condition on `muxer` (comparisons joined by and/or/not) as a function of the multiplexer's value"""
    if text is None:
        return lambda v: True
    expr = text.replace("~=", "!=")

    def active(v):
        try:
            return bool(eval(expr, {"__builtins__": {}}, {"muxer": v}))     # noqa: S307
        except Exception:  # noqa
            return False
    return active


_LUA_KEYWORDS = {"and", "break", "do", "else", "elseif", "end", "false", "for", "function", "if", "in", "local", "nil", "not", "or", "repeat",
                 "return", "then", "true", "until", "while"}
_LUA_HOST = {"ByteArray", "ProtoField", "Proto", "base", "Field", "DissectorTable", "Dissector", "string", "math", "table", "bit", "bit32",
             "tostring", "tonumber", "ipairs", "pairs", "print", "type"}


def _lua_names(expr):
    """the names an expression evaluates (not field / method names after '.' or ':', not text inside string literals)"""
    expr = re.sub(r'"[^"\n]*"|\'[^\'\n]*\'', '""', expr)
    return [n for n in re.findall(r"(?<![\w.:])[A-Za-z_]\w*", expr) if n not in _LUA_KEYWORDS]


def lua_run(text, arbid):
    """The dissector read as a program: the statements of add_frame_info that are executed for a packet with identifier `arbid`, in the
    order of execution, as text of the same shape - with every buffer a bitfield() is taken from replaced by what it holds at that
    point ('pdu' = the payload parameter, 'reversed_pdu' = a value built by the file's do_reverse_pdu from the payload and length
    parameters of this call, 'other_<name>' = anything else).  A name holds a value from the statement that binds it to the end of the block
    the binding is in (`local`), or of the function (a global assigned on the path of this identifier); file-level functions and
    variables and the parameters are bound throughout.  A statement that uses a name with no value (nil in Lua) as buffer, function,
    receiver or argument raises an error in Lua: the dissection of the frame ends there, nothing after it is executed.  A condition on a name
    with no value is false (its `then` part is not executed, its `else` part is)."""
    m = re.search(r"^function add_frame_info\(([^)]*)\)[ \t]*\n(.*?)^end[ \t]*$", text, re.S | re.M)
    if not m:
        return ""
    params = [x.strip() for x in m.group(1).split(",")]
    if len(params) < 3:
        return ""
    p_id, p_pdu, p_len = params[0], params[1], params[2]
    outside = text[:m.start()] + "\n" + text[m.end():]
    glob = {}
    for n in re.findall(r"^function ([A-Za-z_]\w*)\(", outside, re.M):
        glob[n] = "function"
    for n in re.findall(r"^([A-Za-z_]\w*)[ \t]*=(?!=)", outside, re.M):
        glob[n] = "value"
    for n in re.findall(r"^local ([A-Za-z_]\w*)[ \t]*=(?!=)", text[:m.start()], re.M):
        glob[n] = "value"
    for n in _LUA_HOST:
        glob.setdefault(n, "host")
    for n in params:
        glob[n] = "value"
    glob[p_pdu] = "pdu"
    # scopes: [bindings, executed for sure?]
    scopes = [[glob, True], [{}, True]]
    out = []
    skip = 0            # depth of blocks that are not executed
    shown = False       # the head of the outermost of them is part of the text

    def lookup(n):
        for sc, _ in reversed(scopes):
            if n in sc:
                return sc[n]
        return None

    def meaning_of(rhs):
        rhs = rhs.strip()
        mm = re.match(r"^([A-Za-z_]\w*)\(\s*([A-Za-z_]\w*)\s*,\s*([A-Za-z_]\w*)\s*\)$", rhs)
        if mm and mm.group(1) == "do_reverse_pdu" and lookup(mm.group(1)) == "function" and mm.group(2) == p_pdu and mm.group(3) == p_len \
                and lookup(p_pdu) == "pdu":
            return "reversed_pdu"
        if rhs == p_pdu and lookup(p_pdu) == "pdu":
            return "pdu"
        return "value"

    def rewrite(line):
        def buf(mo):
            v = lookup(mo.group(1))
            return (v if v in ("pdu", "reversed_pdu") else "other_" + mo.group(1)) + ":bitfield("
        return re.sub(r"(?<![\w.:])([A-Za-z_]\w*):bitfield\(", buf, line)

    for line in m.group(2).split("\n"):
        code = re.sub(r"--.*$", "", line)
        st = code.strip()
        if not st:
            continue
        opens = re.match(r"^(if|while)\b(.*)\b(then|do)$", st) or re.match(r"^(for)\b(.*)\b(do)$", st)
        if skip:
            if opens:
                skip += 1
            elif st == "end":
                skip -= 1
                if skip == 0 and shown:
                    out.append(line)
            elif st == "else" and skip == 1:
                skip = 0
                scopes.append([{}, False])
                out.append(line)
            continue
        if opens:
            cond = opens.group(2)
            mc = re.match(r"^\s*%s\s*==\s*(\d+)\s*$" % re.escape(p_id), cond)
            if mc and opens.group(1) == "if":
                if int(mc.group(1)) == arbid:
                    scopes.append([{}, scopes[-1][1]])
                    out.append(line)
                else:
                    skip, shown = 1, False
                continue
            if any(lookup(n) is None for n in _lua_names(cond)):
                if opens.group(1) == "if":
                    out.append(line.replace(cond, " false "))
                    skip, shown = 1, True
                    continue
                return "\n".join(out)           # (a loop over nil bounds raises)
            scopes.append([{}, False])
            out.append(rewrite(line))
            continue
        if st == "else":
            scopes.pop()
            scopes.append([{}, False])
            out.append(line)
            continue
        if st == "end":
            if len(scopes) <= 2:
                break
            scopes.pop()
            out.append(line)
            continue
        ml = re.match(r"^local\s+([A-Za-z_]\w*(?:\s*,\s*[A-Za-z_]\w*)*)\s*(?:=(?!=)\s*(.*))?$", st)
        ma = re.match(r"^([A-Za-z_]\w*)\s*=(?!=)\s*(.*)$", st)
        rhs = ml.group(2) if ml else ma.group(2) if ma else st
        if rhs is not None and any(lookup(n) is None for n in _lua_names(rhs)):
            return "\n".join(out)               # error raised by Lua: the dissection ends here
        if ml:
            names = [x.strip() for x in ml.group(1).split(",")]
            for n in names:
                scopes[-1][0][n] = "declared" if rhs is None else "value"
            if rhs is not None and len(names) == 1:
                scopes[-1][0][names[0]] = meaning_of(rhs)
        elif ma:
            n = ma.group(1)
            target = None
            for sc, _ in reversed(scopes[1:]):
                if n in sc:
                    target = sc
                    break
            if target is None:
                # a global: it has the value on the rest of this path; past the end of a block that need not be executed it may not
                # (every block around a block that is executed for sure is executed for sure)
                target = scopes[1][0] if scopes[-1][1] else scopes[-1][0]
            target[n] = meaning_of(rhs)
        out.append(rewrite(line))
    return "\n".join(out) + "\n"


def namesake_id(arbid, ext, next_, taken):
    """an identifier number for the namesake frame: near the frame's own, in the namesake's format, and a number no other frame of the
    matrix has (FIBEX and CSV record the number only)"""
    top = 1 << (29 if next_ else 11)
    k = 2
    while True:
        for cand in (arbid + k, arbid - k, (arbid % (top - 1)) + k):
            if 1 <= cand < top and cand not in taken:
                return cand
        k += 1


def build(fd, arbid, ext, namesake=False):
    db = cm.CanMatrix()
    ids = {arbid}
    fr = F.mkframe(fd, name="Fr", arbid=arbid, extended=ext)
    for s, d in zip(fr.signals, fd["sigs"]):
        if len(d) > 10:
            s.factor = decimal.Decimal(d[10])
            s.offset = decimal.Decimal(d[11])
        if len(d) > 12:
            for k, v in d[12]:
                s.add_values(k, v)
    fr.add_transmitter("E1")
    if fd["size"] > 8:
        fr.is_fd = True          # (a CAN FD frame; its declared length need not be one of the DLC steps)
    if fd.get("decoy"):
        # another frame of the matrix with signals of the same names at the same start bits, but one bit wide and scaled by 7:
        # what is recorded for a frame is that frame's business
        if fd["decoy"] == "otherfmt":
            # the other frame has the other identifier format (and another number: CSV keys its rows by the number)
            dext = not ext
            did = (arbid + 1) if dext else ((arbid % 0x7FE) + 1 if (arbid % 0x7FE) + 1 != arbid else 1)
        else:
            dext = ext
            did = arbid - 1 if (fd["decoy"] == "below" and arbid > 1) else arbid + 1 if arbid + 1 < (1 << (29 if ext else 11)) else arbid - 1
        # (with a namesake of the frame under test in the matrix the other frame may hold the name the FIBEX writer would pick for it)
        dname = "Fr_2" if (namesake and fd["namesake"].get("taken")) else "Decoy"
        dec = F.mkframe({"size": fd["size"], "sigs": [F.sigdesc(d[0], d[1], 1, d[3]) for d in fd["sigs"] if not d[6]]}, name=dname,
                        arbid=did, extended=dext)
        ids.add(did)
        for s in dec.signals:
            s.factor = decimal.Decimal(7)
            s.add_values(0, "a")
            s.add_values(1, "b")
        db.add_frame(dec)
    twin = None
    if namesake:
        # a second frame with the NAME of the frame under test (two variants of one message with different identifiers): signals of the
        # same names, each with a place, width, sign and scaling of its own.  Only the FIBEX writer provides for this (it gives the later
        # frame a suffix in its copy of the matrix), so only the FIBEX export sees this matrix.
        nd = fd["namesake"]
        twin = F.mkframe({"size": nd["size"], "sigs": nd["sigs"]}, name="Fr", arbid=namesake_id(arbid, ext, nd["ext"], ids), extended=nd["ext"])
        for s, d in zip(twin.signals, nd["sigs"]):
            s.factor = decimal.Decimal(d[10])
            s.offset = decimal.Decimal(d[11])
        twin.add_transmitter("E1")
        if nd["size"] > 8:
            twin.is_fd = True
    if twin is not None and fd["namesake"]["pos"] == "before":
        db.add_frame(twin)
    db.add_frame(fr)
    if twin is not None and fd["namesake"]["pos"] != "before":
        db.add_frame(twin)
    db.add_ecu(cm.Ecu("E1"))
    if fd.get("launch"):
        # the matrix defines the launch type / launch parameter attributes; the frame has a value for neither, one or both
        db.add_frame_defines("GenMsgSendType", 'ENUM "cyclic","spontaneous"')
        db.add_frame_defines("GenMsgDelayTime", "INT 0 1000")
        if fd["launch"] in ("type", "both"):
            fr.add_attribute("GenMsgSendType", "cyclic")
        if fd["launch"] == "both":
            fr.add_attribute("GenMsgDelayTime", "10")
    return db


_FX = "{http://www.asam.net/xml/fbx}"
_HO = "{http://www.asam.net/xml}"


def fibex_follow(root, arbid, first):
    """The FIBEX file read the way a tool reads it: from the FRAME-TRIGGERING that carries the identifier along the ID-REFs to the FRAME,
    its PDU (and the PDUs switched in by its MULTIPLEXER), the SIGNAL-INSTANCEs, their SIGNALs and those' CODINGs.  No name of the
    matrix is used to find anything.  A reference <X-REF ID-REF=i> stands for an element <X ID=i>; when several X carry the id, a
    reader that looks the element up takes the first one in the document (first=True) and a reader that has filled a table takes the
    last one (first=False) - with unique ids both read the same.
    -> {"frame": [identifier, byte length] or None, "file_name": the frame's name in the file,
        "inst": [(name, codes or None, [pos, highlow, bitlen, basetype], scale or None)], "switch": (name, [pos, highlow, bitlen]) or None}"""
    by_id = {}
    for e in root.iter():
        if isinstance(e.tag, str) and e.get("ID") is not None:
            by_id.setdefault((e.tag, e.get("ID")), []).append(e)

    def deref(ref, kind):
        if ref is None:
            return None
        hits = by_id.get((_FX + kind, ref.get("ID-REF")), [])
        return (hits[0] if first else hits[-1]) if hits else None

    out = {"frame": None, "file_name": None, "inst": [], "switch": None}
    trig = [ft for ft in root.iter(_FX + "FRAME-TRIGGERING")
            if (ft.findtext(_FX + "IDENTIFIER/" + _FX + "IDENTIFIER-VALUE") or "").strip() == str(arbid)]
    if not trig:
        return out
    trig = trig[0] if first else trig[-1]
    frame = deref(trig.find(_FX + "FRAME-REF"), "FRAME")
    if frame is None:
        return out
    try:
        out["frame"] = [arbid, int(frame.findtext(_FX + "BYTE-LENGTH"))]
    except (TypeError, ValueError):
        out["frame"] = [arbid, None]
    out["file_name"] = frame.findtext(_HO + "SHORT-NAME")

    def instances(pdu, codes):
        for inst in pdu.findall(_FX + "SIGNAL-INSTANCES/" + _FX + "SIGNAL-INSTANCE"):
            sg = deref(inst.find(_FX + "SIGNAL-REF"), "SIGNAL")
            coding = deref(sg.find(_FX + "CODING-REF"), "CODING") if sg is not None else None
            bitlen = basetype = scale = None
            if coding is not None:
                ct = coding.find(_HO + "CODED-TYPE")
                if ct is not None:
                    basetype = ct.get(_HO + "BASE-DATA-TYPE")
                    bl = ct.findtext(_HO + "BIT-LENGTH")
                    bitlen = int(bl) if bl is not None and bl.strip().isdigit() else None
                num = coding.find(".//" + _HO + "COMPU-NUMERATOR")
                den = coding.find(".//" + _HO + "COMPU-DENOMINATOR")
                if num is not None:
                    scale = [[v.text for v in num], [v.text for v in den] if den is not None else ["1"]]
            try:
                pos = int(inst.findtext(_FX + "BIT-POSITION"))
            except (TypeError, ValueError):
                pos = None
            hl = inst.findtext(_FX + "IS-HIGH-LOW-BYTE-ORDER") == "true"
            out["inst"].append((sg.findtext(_HO + "SHORT-NAME") if sg is not None else None, codes, [pos, hl, bitlen, basetype], scale))

    for pi in frame.findall(_FX + "PDU-INSTANCES/" + _FX + "PDU-INSTANCE"):
        pdu = deref(pi.find(_FX + "PDU-REF"), "PDU")
        if pdu is None:
            continue
        instances(pdu, None)
        for mux in pdu.findall(_FX + "MULTIPLEXER"):
            sw = mux.find(_FX + "SWITCH")
            if sw is not None:
                try:
                    out["switch"] = (sw.findtext(_HO + "SHORT-NAME"),
                                     [int(sw.findtext(_FX + "BIT-POSITION")), sw.findtext(_FX + "IS-HIGH-LOW-BYTE-ORDER") == "true",
                                      int(sw.findtext(_HO + "BIT-LENGTH"))])
                except (TypeError, ValueError):
                    pass
            for spi in mux.iter(_FX + "SWITCHED-PDU-INSTANCE"):
                sub = deref(spi.find(_FX + "PDU-REF"), "PDU")
                try:
                    codes = {int(spi.findtext(_FX + "SWITCH-CODE"))}
                except (TypeError, ValueError):
                    codes = set()
                if sub is not None:
                    instances(sub, codes)
            for stp in mux.iter(_FX + "STATIC-PDU-INSTANCE"):
                sub = deref(stp.find(_FX + "PDU-REF"), "PDU")
                if sub is not None:
                    instances(sub, None)
    # the SWITCH has no reference to a signal: its type is that of the coding the writer names after the frame (as it is called in the
    # file) and the multiplexer
    if out["switch"] is not None:
        hits = by_id.get((_FX + "CODING", "CODING_%s.%s" % (out["file_name"], out["switch"][0])), [])
        ct = (hits[0] if first else hits[-1]).find(_HO + "CODED-TYPE") if hits else None
        out["switch"][1].append(ct.get(_HO + "BASE-DATA-TYPE") if ct is not None else None)
    return out


def export(db, fmt, **opts):
    b = NamedBytes()
    with contextlib.redirect_stdout(io.StringIO()):
        canmatrix.formats.dump(db, b, fmt, **opts)
    return b.getvalue()


def records(fd, arbid, ext):
    key = json.dumps([fd, arbid, ext], sort_keys=True)
    if key in _cache:
        return _cache[key]
    db = build(fd, arbid, ext)
    # the matrix was exported before, with the signals of the frame somewhere else; they were moved into place by assignment
    # afterwards (an export describes the matrix as it is now)
    fr0 = db.frame_by_name("Fr")
    if fr0 is not None:
        with F.edited_in_place(fr0):
            for fmt0, o0 in (("scapy", {}), ("wireshark", {}), ("fibex", {}), ("csv", {}), ("json", {"jsonExportCanard": True})):
                try:
                    export(db, fmt0, **o0)
                except Exception:  # noqa
                    pass
    # one record set per signal of the frame, in the order of the matrix ("sig" is a list: a frame may hold the same name once per
    # multiplexer group, each occurrence with a layout and scaling of its own)
    sigs = fd["sigs"]
    out = {"sig": [{} for _ in sigs], "frame": {}}
    muxers = [d for d in sigs if d[6]]
    selector_values = list(range(1 << muxers[0][2])) if muxers else [0]

    def occurrences(name, active):
        """indices of the signals called `name` for which the artefact's entry is in force: `active(v)` says whether the entry
        is in force when the multiplexer has the value v; a signal that is not multiplexed (or is the multiplexer) needs an entry that
        is always in force"""
        hit = []
        for j, d in enumerate(sigs):
            if d[0] != name:
                continue
            if d[7] is not None and not d[6]:
                ok = active(d[7])
            else:
                ok = all(active(v) for v in selector_values)
            if ok:
                hit.append(j)
        return hit

    # scapy: one SignalField per line, bare or wrapped in ConditionalField(<field>, <lambda p: condition on the packet>)
    txt = export(db, "scapy").decode()
    cls = txt[txt.find("class Fr(SignalPacket)"):]
    cls = cls[:cls.find("\n\n")] if "\n\n" in cls else cls
    for line in cls.splitlines():
        m = re.search(r'SignalField\("(\w+)", default=0, start=(\d+), size=(\d+), scaling=([^,]+), offset=([^,]+), unit="([^"]*)", fmt="(..)"\),?', line)
        if not m:
            continue
        active = lambda v: True                                                                  # noqa: E731
        if line.strip().startswith("ConditionalField("):
            active = _scapy_condition(line[m.end():], muxers[0][0] if muxers else None)
        for j in occurrences(m.group(1), active):
            if "scapy" not in out["sig"][j]:            # (Scapy finds a field by its name: the first one in force)
                out["sig"][j]["scapy"] = [int(m.group(2)), int(m.group(3)), m.group(7)]
                out["sig"][j]["scapy_scale"] = [m.group(4), m.group(5)]
    m = re.search(r"bind_layers\(SignalHeader, Fr, identifier  = (0x[0-9a-f]+)(, flags = \"extended\")?\)", txt)
    out["frame"]["scapy"] = [int(m.group(1), 16), m.group(2) is not None] if m else None
    # wireshark: the statements of the frame's branch; those inside `if <condition on muxer> then ... end` are in force under the condition
    # The Lua text is read as a program (lua_run): what is taken here are the statements executed for a packet with this identifier, each
    # bitfield() with the buffer it is taken from at that point of the run (a read from a name that has no value there ends the run)
    txt = lua_run(export(db, "wireshark").decode(), arbid)
    b0 = txt.find("local my_frame_tree = framesubtree:add(Fr,")
    b0 = txt.rfind("if can_id ==", 0, b0) if b0 >= 0 else -1
    txt = txt[b0:txt.find("\n  end\n", b0)] if b0 >= 0 else ""
    m = re.search(r"if can_id == (\d+) then", txt)
    out["frame"]["ws"] = [int(m.group(1))] if m else None
    parts = []                                          # (condition text or None, statements)
    rest = txt
    for blk in re.finditer(r"\n    if (muxer[^\n]*?) then ?\n(.*?)\n    end(?=\n|$)", txt, re.S):
        parts.append((blk.group(1), blk.group(2)))
        rest = rest.replace(blk.group(0), "\n", 1)
    parts.append((None, rest))
    for cond, body in parts:
        active = _lua_condition(cond)
        for m2 in re.finditer(r"is_signed =  (\w+):bitfield\((\d+),1\)\n\s+if is_signed == 1 then\n\s+my_frame_tree:add\(Fr_(\w+), (\w+):bitfield\((\d+),(\d+)\) - (\d+)\)", body):
            for j in occurrences(m2.group(3), active):
                if "ws" not in out["sig"][j]:
                    out["sig"][j]["ws"] = [m2.group(4), int(m2.group(5)), int(m2.group(6)), int(m2.group(7)), m2.group(1), int(m2.group(2))]
        unsigned = re.sub(r"is_signed =  .*?\n\s+end(?=\n|$)", "", body, flags=re.S)
        for m3 in re.finditer(r"my_frame_tree:add\(Fr_(\w+), (\w+):bitfield\((\d+),(\d+)\)\)", unsigned):
            for j in occurrences(m3.group(1), active):
                if "ws" not in out["sig"][j]:
                    out["sig"][j]["ws"] = [m3.group(2), int(m3.group(3)), int(m3.group(4)), None, None, None]
    m4 = re.search(r"local muxer = (\w+):bitfield\((\d+),(\d+)\)", txt)
    for j, d in enumerate(sigs):
        if m4 and d[6] and "ws" not in out["sig"][j]:
            # the multiplexer is read into `muxer` (unsigned by construction: it is compared with the selector values)
            sf = (1 << d[2]) if (d[4] and not d[5]) else None
            out["sig"][j]["ws"] = [m4.group(1), int(m4.group(2)), int(m4.group(3)), sf, m4.group(1) if sf else None, int(m4.group(2)) if sf else None]
    # fibex
    root = lxml.etree.fromstring(export(db, "fibex"))
    ns = {"fx": "http://www.asam.net/xml/fbx", "ho": "http://www.asam.net/xml"}
    bitlen = {}
    basetype = {}
    for coding in root.iter("{%s}CODING" % ns["fx"]):
        cid = coding.get("ID")
        bl = coding.find(".//{%s}BIT-LENGTH" % ns["ho"])
        if bl is not None:
            bitlen[cid] = int(bl.text)
        ct = coding.find("{%s}CODED-TYPE" % ns["ho"])
        basetype[cid] = ct.get("{%s}BASE-DATA-TYPE" % ns["ho"]) if ct is not None else None
    compu = {}
    for coding in root.iter("{%s}CODING" % ns["fx"]):
        num = coding.find(".//{%s}COMPU-NUMERATOR" % ns["ho"])
        den = coding.find(".//{%s}COMPU-DENOMINATOR" % ns["ho"])
        if num is not None:
            compu[coding.get("ID")] = [[v.text for v in num], [v.text for v in den] if den is not None else ["1"]]
    sig2coding = {}
    sig2name = {}
    for sg in root.iter("{%s}SIGNAL" % ns["fx"]):
        ref = sg.find("{%s}CODING-REF" % ns["fx"])
        if ref is not None:
            sig2coding[sg.get("ID")] = ref.get("ID-REF")
        sn = sg.find("{%s}SHORT-NAME" % ns["ho"])
        if sn is not None:
            sig2name[sg.get("ID")] = sn.text
    # a PDU that is referenced by a SWITCHED-PDU-INSTANCE is in force for that instance's SWITCH-CODE
    switch_codes = {}
    for spi in root.iter("{%s}SWITCHED-PDU-INSTANCE" % ns["fx"]):
        pref = spi.find("{%s}PDU-REF" % ns["fx"])
        code = spi.find("{%s}SWITCH-CODE" % ns["fx"])
        if pref is not None and code is not None:
            try:
                switch_codes.setdefault(pref.get("ID-REF"), set()).add(int(code.text))
            except ValueError:
                switch_codes.setdefault(pref.get("ID-REF"), set())
    names = set(d[0] for d in sigs)
    for inst in root.iter("{%s}SIGNAL-INSTANCE" % ns["fx"]):
        ref = inst.find("{%s}SIGNAL-REF" % ns["fx"]).get("ID-REF")
        if not ref.startswith("SIG_Fr."):
            continue
        n = sig2name.get(ref)
        if n not in names:
            n = ref[len("SIG_Fr."):]
            n = re.sub(r"_\d+$", "", n) if n not in names else n
        pos = int(inst.find("{%s}BIT-POSITION" % ns["fx"]).text)
        hl = inst.find("{%s}IS-HIGH-LOW-BYTE-ORDER" % ns["fx"]).text == "true"
        pdu = inst.getparent().getparent() if inst.getparent() is not None else None
        codes = switch_codes.get(pdu.get("ID")) if pdu is not None else None
        active = (lambda v: True) if codes is None else (lambda v, codes=codes: v in codes)
        for j in occurrences(n, active):
            if "fibex" not in out["sig"][j]:
                out["sig"][j]["fibex"] = [pos, hl, bitlen.get(sig2coding.get(ref)), basetype.get(sig2coding.get(ref))]
                if sig2coding.get(ref) in compu:
                    out["sig"][j]["fibex_scale"] = compu[sig2coding.get(ref)]
    for sw in root.iter("{%s}SWITCH" % ns["fx"]):
        n = sw.find("{%s}SHORT-NAME" % ns["ho"]).text
        for j, d in enumerate(sigs):
            if d[0] == n and (d[6] or [x[0] for x in sigs].count(n) == 1):
                cid = "CODING_Fr." + n
                out["sig"][j]["fibex"] = [int(sw.find("{%s}BIT-POSITION" % ns["fx"]).text),
                                          sw.find("{%s}IS-HIGH-LOW-BYTE-ORDER" % ns["fx"]).text == "true",
                                          int(sw.find("{%s}BIT-LENGTH" % ns["ho"]).text), basetype.get(cid)]
    idv = None
    for ft in root.iter("{%s}FRAME-TRIGGERING" % ns["fx"]):
        fref = ft.find("{%s}FRAME-REF" % ns["fx"])
        if fref is not None and fref.get("ID-REF") == "FRAME_Fr":
            idv = ft.find(".//{%s}IDENTIFIER-VALUE" % ns["fx"])
    fl = [f for f in root.iter("{%s}FRAME" % ns["fx"]) if f.get("ID") == "FRAME_Fr"]
    out["frame"]["fibex"] = [int(idv.text) if idv is not None else None,
                             int(fl[0].find("{%s}BYTE-LENGTH" % ns["fx"]).text) if fl else None]
    # csv in three notations; the column 'Signal Function' says "Mode <v>:" for a signal of multiplexer group v (used to tell the
    # rows of one name apart when the frame has that name in several groups)
    for r_ in out["sig"]:
        r_["csv"] = {}
    for fmt in ("msb", "msbreverse", "lsb"):
        rows = list(pycsv.reader(io.StringIO(export(db, "csv", xlsMotorolaBitFormat=fmt).decode("utf-8"))))
        for r in rows[1:]:
            if r[1] != "Fr" or r[7] not in names:
                continue
            active = lambda v: True                                                              # noqa: E731
            if [x[0] for x in sigs].count(r[7]) > 1:
                mm = re.match(r"Mode (\d+):", r[8])
                if mm:
                    active = lambda v, own=int(mm.group(1)): v == own                            # noqa: E731
            for j in occurrences(r[7], active):
                out["sig"][j]["csv"][fmt] = [int(r[5]), int(r[6]), r[12], r[13]]
                out["sig"][j]["csv_len"] = int(r[9])
                out["sig"][j]["csv_factor"] = r[16]
                out["frame"]["csv"] = [r[0].strip()]
    # canard json
    # (the Canard key is the position of the least significant bit whatever the Motorola notation option of the other JSON flavours says)
    # The format has no word for multiplexing and the writer sorts the keys: the entries of one name are a set of positions; they are
    # held against the signals of that name in the order of their LSB positions (all of them agree iff the two sets are the same).
    for fmt in ("lsb", "msb", "msbreverse"):
        js = json.loads(export(db, "json", jsonExportCanard=True, jsonMotorolaBitFormat=fmt).decode())
        msg = [x for x in js["messages"] if x["name"] == "Fr"][0]
        out["frame"]["canard"] = [msg["id"]]
        for n in names:
            same = sorted((j for j, d in enumerate(sigs) if d[0] == n), key=lambda j: F.sig_addrs(sigs[j][3], sigs[j][1], sigs[j][2])[0])
            entries = [(k, v) for k, v in msg["signals"].items() if v["name"] == n]
            if len(same) > 1:
                entries.sort(key=lambda kv: int(kv[0]))
            for j, (k, v) in zip(same if len(same) > 1 else same * len(entries), entries):
                rec = [int(k), v["bit_length"]]
                if fmt != "lsb" and out["sig"][j].get("canard") == rec:
                    continue            # same as with the default option; a differing record replaces it and fails the comparison
                out["sig"][j]["canard"] = rec
                out["sig"][j]["canard_scale"] = [v["factor"], v["offset"]]
    # the matrix with a second frame called like the frame under test, written by the FIBEX writer and read along the references
    if fd.get("namesake"):
        root2 = lxml.etree.fromstring(export(build(fd, arbid, ext, namesake=True), "fibex"))
        out["follow"] = {}
        for conv in ("first", "last"):
            fo = fibex_follow(root2, arbid, conv == "first")
            view = {"frame": fo["frame"], "sig": [{} for _ in sigs]}
            for n, codes, rec, scale in fo["inst"]:
                active = (lambda v: True) if codes is None else (lambda v, codes=codes: v in codes)
                for j in occurrences(n, active):
                    if "fibex" not in view["sig"][j]:
                        view["sig"][j]["fibex"] = rec
                        if scale is not None:
                            view["sig"][j]["fibex_scale"] = scale
            if fo["switch"] is not None:
                for j, d in enumerate(sigs):
                    if d[0] == fo["switch"][0] and (d[6] or [x[0] for x in sigs].count(d[0]) == 1):
                        view["sig"][j]["fibex"] = fo["switch"][1]
            out["follow"][conv] = view
    if len(_cache) > 64:
        _cache.clear()
    _cache[key] = out
    return out


def twin_of(rng, base, others, nbytes, w):
    """another signal with the name of `base` for another value of the multiplexer (None if there is no room).
    Occurrences of one name may have the same internal start bit (the CSV writer used to write only one of them: repaired, see
    known_findings.json C19-csv-same-name-same-startbit).  Kept out: the same LSB position as another signal of the frame (the Canard
    JSON keys signals by it: a limit of that format, as for all frames generated here)."""
    taken = set(d[7] for d in others if d[0] == base[0] and d[7] is not None)
    free = [v for v in range(1 << w) if v not in taken]
    if not free:
        return None
    lsbs = set(F.sig_addrs(d[3], d[1], d[2])[0] for d in others)
    starts = set(d[1] for d in others if d[0] == base[0])
    for _try in range(8):
        t = F.rand_sig(rng, base[0], nbytes, allow_float=True)
        if rng.random() < 0.3 and base[1] + base[2] <= 8 * nbytes:
            # the same kind of signal somewhere else
            t[2], t[3], t[4] = base[2], base[3], base[4]
            t[1] = rng.randint(0, 8 * nbytes - t[2])
        t[5] = False
        t[7] = rng.choice(free)
        if rng.random() < 0.3 and starts:
            t[1] = rng.choice(sorted(starts))          # the start bit of another occurrence of the name
        if t[1] + t[2] > 8 * nbytes or F.sig_addrs(t[3], t[1], t[2])[0] in lsbs:
            continue
        if rng.random() < 0.4:
            t += [base[10], base[11]]
        else:
            t += [rng.choice(["1", "0.5", "0.25", "3", "10", "0.01", "0.001953125", "1E-7", "1234.5678"]),
                  rng.choice(["0", "-40", "2.5", "100", "-1234567.5"])]
        return t
    return None


def gen_frame(rng):
    n = rng.choice(F.ALL_LENGTHS)
    sigs = []
    for k in range(rng.randint(1, 4)):
        d = F.rand_sig(rng, "s%d" % k, n, allow_float=True)
        d += [rng.choice(["1", "0.5", "0.125", "2", "10", "0.01", "0.0009765625", "0.123456789012", "1E-7", "1234.5678"]),
              rng.choice(["0", "-40", "1.5", "100", "-1234567.5", "0.000123456789"])]
        sigs.append(d)
    fd = {"size": n, "sigs": sigs}
    if rng.random() < 0.25:
        w = rng.randint(1, min(8, 8 * n))
        # the multiplexer is a signal like any other: it has a scaling of its own in half of the multiplexed frames (the selector
        # values of the matrix are raw values whatever the scaling says) and every export has to record it as it is in the matrix
        mux = F.sigdesc("mx", rng.randint(0, 8 * n - w), w, rng.random() < 0.5, rng.random() < 0.15, False, True)
        if rng.random() < 0.5:
            mux += [rng.choice(["2", "0.5", "10", "0.25", "3", "0.01", "1"]), rng.choice(["10", "-40", "2.5", "0", "100"])]
        else:
            mux += ["1", "0"]
        for d in sigs:
            if rng.random() < 0.5:
                d[7] = rng.randrange(1 << w)
                d[5] = False
        if rng.random() < 0.45:
            # the same signal name once per multiplexer group (what a SYM file with one Var= in several Mux blocks gives, and what the
            # FIBEX writer provides identifiers for): each occurrence has a place, width, sign and scaling of its own, and every
            # export has to describe each of them.  Occurrences of one name start at different bits - see twin_of.
            for _ in range(rng.choice([1, 1, 2])):
                base = rng.choice(sigs)
                if base[7] is None:
                    base[7] = rng.randrange(1 << w)
                    base[5] = False
                t = twin_of(rng, base, sigs + [mux], n, w)
                if t is not None:
                    sigs.insert(rng.randint(0, len(sigs)), t)
        fd["sigs"] = [mux] + sigs
    # the Canard writer keys signals by their LSB position (a format limitation): keep those distinct
    seen = set()
    keep = []
    for d in fd["sigs"]:
        lsb = F.sig_addrs(d[3], d[1], d[2])[0]
        if lsb not in seen:
            seen.add(lsb)
            keep.append(d)
    fd["sigs"] = keep
    if rng.random() < 0.4:
        fd["decoy"] = rng.choice(["below", "above", "otherfmt"])
    if rng.random() < 0.3:
        fd["launch"] = rng.choice(["none", "type", "both"])
    if rng.random() < 0.4:
        for d in fd["sigs"]:
            if not d[5] and rng.random() < (0.4 if d[6] else 0.7):
                d.append([[0, "x"], [1, "y"]])               # (the multiplexer may have names for its values too)
    if rng.random() < 0.3:
        fd["namesake"] = gen_namesake(rng, fd)
    return fd


SCALES = ["1", "0.5", "0.25", "3", "10", "0.01", "0.001953125", "1E-7", "1234.5678"]
OFFSETS = ["0", "-40", "2.5", "100", "-1234567.5"]


def gen_namesake(rng, fd):
    """a second frame with the name of the frame under test (before or after it in the matrix, same or other identifier format, a length of
    its own).  It has signals with names of the frame under test - each with its own place, width, byte order, sign and scaling -
    either as plain signals or in the same multiplexer groups, and sometimes a signal of its own."""
    n = rng.choice(F.ALL_LENGTHS)
    same_groups = rng.random() < 0.5
    sigs = []
    seen = set()
    for d in fd["sigs"]:
        if d[6] and not same_groups:
            if rng.random() < 0.5:
                continue            # (otherwise the multiplexer's name is the name of a plain signal there)
        elif rng.random() < 0.2:
            continue
        if d[6]:
            w = max(1, min(d[2], 8 * n))
            t = F.sigdesc(d[0], rng.randint(0, 8 * n - w), w, rng.random() < 0.5, rng.random() < 0.3, False, same_groups)
        else:
            t = F.rand_sig(rng, d[0], n, allow_float=True)
            if same_groups and d[7] is not None:
                t[7] = d[7]
                t[5] = False
        if (t[0], t[7]) in seen:
            continue
        seen.add((t[0], t[7]))
        t += [rng.choice(SCALES), rng.choice(OFFSETS)]
        sigs.append(t)
    if same_groups and not (any(t[6] for t in sigs) and any(t[7] is not None and not t[6] for t in sigs)):
        # (no multiplexer or nothing to switch: a plain frame)
        for t in sigs:
            t[6], t[7] = False, None
        uniq = {}
        for t in sigs:
            uniq.setdefault(t[0], t)
        sigs = list(uniq.values())
    if not sigs or rng.random() < 0.25:
        sigs.append(F.rand_sig(rng, "own", n, allow_float=True) + ["1", "0"])
    return {"pos": rng.choice(["before", "after"]), "ext": rng.random() < 0.4, "size": n, "sigs": sigs, "taken": rng.random() < 0.3}


def gen(rng, tier, shard, nshards):
    total = {"quick": 2500, "thorough": 40000}[tier] // nshards
    k = 0
    while k < total:
        fd = gen_frame(rng)
        ext = rng.random() < 0.4
        arbid = rng.randrange(1, 1 << 29) if ext else rng.randrange(1, 1 << 11)
        yield {"op": "frame", "c": {"f": fd, "id": arbid, "ext": ext}}
        for j in range(len(fd["sigs"])):
            k += 1
            yield {"op": "rec", "c": {"size": fd["size"], "sig": fd["sigs"][j][:10], "probe": F.rand_payload(rng, fd["size"]),
                                      "f": fd, "id": arbid, "ext": ext, "j": j}}
        # with a namesake of the frame in the matrix: the FIBEX records as found along the file's references, for both ways a reader
        # may resolve an id (not counted in the budget of the tier)
        for conv in (("first", "last") if fd.get("namesake") else ()):
            yield {"op": "frame", "c": {"f": fd, "id": arbid, "ext": ext, "resolve": conv}}
            for j in range(len(fd["sigs"])):
                yield {"op": "rec", "c": {"size": fd["size"], "sig": fd["sigs"][j][:10], "probe": F.rand_payload(rng, fd["size"]),
                                          "f": fd, "id": arbid, "ext": ext, "j": j, "resolve": conv}}


def neighbours(case, rng, shard, nshards):
    for _ in range(60 // nshards + 1):
        fd = gen_frame(rng)
        for j in range(len(fd["sigs"])):
            yield {"op": "rec", "c": {"size": fd["size"], "sig": fd["sigs"][j][:10], "probe": F.rand_payload(rng, fd["size"]),
                                      "f": fd, "id": 0x123, "ext": False, "j": j}}
            for conv in (("first", "last") if fd.get("namesake") else ()):
                yield {"op": "rec", "c": {"size": fd["size"], "sig": fd["sigs"][j][:10], "probe": F.rand_payload(rng, fd["size"]),
                                          "f": fd, "id": 0x123, "ext": False, "j": j, "resolve": conv}}


def _view(rec, conv):
    """the record set with the FIBEX part as read along the references of the file written for the matrix with the namesake frame"""
    follow = (rec.get("follow") or {}).get(conv)
    if follow is None:
        return rec
    sig = []
    for r, f in zip(rec["sig"], follow["sig"]):
        r = {k: v for k, v in r.items() if k not in ("fibex", "fibex_scale")}
        r.update(f)
        sig.append(r)
    return {"sig": sig, "frame": dict(rec["frame"], fibex=follow["frame"])}


def observe(case):
    c = case["c"]
    if case["op"] == "frame":
        fd = c["f"]
        rec = _view(records(fd, c["id"], c["ext"]), c.get("resolve"))
        # scaling recorded by scapy / canard equals the matrix's, numerically
        scale_ok = True
        why = []
        for j, d in enumerate(fd["sigs"]):
            r = rec["sig"][j]
            for key in ("scapy_scale", "canard_scale"):
                if key in r:
                    same = decimal.Decimal(str(r[key][0])) == decimal.Decimal(d[10]) and decimal.Decimal(str(r[key][1])) == decimal.Decimal(d[11])
                    scale_ok = scale_ok and same
                    if not same:
                        why.append("%s of signal #%d %s (multiplexer value %s) records factor %s and offset %s, the signal has %s and %s"
                                   % (key, j, d[0], d[7], r[key][0], r[key][1], d[10], d[11]))
            if "csv_len" in r:
                scale_ok = scale_ok and r["csv_len"] == d[2]
            if c.get("resolve") and "fibex_scale" not in r and not d[6]:
                scale_ok = False
                why.append("no CODING with COMPU-RATIONAL-COEFFS is found for %s along the references of the FIBEX file" % d[0])
            if "fibex_scale" in r:
                # phys = (offset + factor * raw) / denominator
                nums, dens = r["fibex_scale"]
                try:
                    den = decimal.Decimal(dens[0])
                    ok = len(nums) == 2 and decimal.Decimal(nums[0]) / den == decimal.Decimal(d[11]) and decimal.Decimal(nums[1]) / den == decimal.Decimal(d[10])
                except (decimal.InvalidOperation, ZeroDivisionError):
                    ok = False
                if not ok:
                    scale_ok = False
                    why.append("FIBEX COMPU-RATIONAL-COEFFS of %s record %s / %s, the signal has factor %s and offset %s" % (d[0], nums, dens, d[10], d[11]))
            if "csv_factor" in r:
                # column 'Function / Increment Unit': "<factor>  <unit>" or "<factor> -", or only the unit when the factor is 1
                text = r["csv_factor"].strip()
                first = text.split(" ")[0] if text else ""
                try:
                    rec_factor = decimal.Decimal(first)
                except decimal.InvalidOperation:
                    rec_factor = decimal.Decimal(1)
                if rec_factor != decimal.Decimal(d[10]):
                    scale_ok = False
                    why.append("CSV records the factor %r of %s, the signal has %s" % (text, d[0], d[10]))
        return {"frame": rec["frame"], "scale_ok": scale_ok, "why": why[:3]}
    j = c.get("j")
    if j is None or not (0 <= j < len(c["f"]["sigs"])) or c["f"]["sigs"][j][:10] != c["sig"][:10]:
        j = [d[:10] for d in c["f"]["sigs"]].index(c["sig"][:10])
    rec = _view(records(c["f"], c["id"], c["ext"]), c.get("resolve"))["sig"][j]
    return {k: rec.get(k) for k in ("scapy", "fibex", "canard", "csv", "ws")}


def project(impl):
    return {k: v for k, v in impl.items() if k != "why"}


def features(case, impl):
    yield "op=" + case["op"]
    if case["op"] == "rec":
        d = case["c"]["sig"]
        yield "sig:%s%s" % ("intel" if d[3] else "motorola", "/float" if d[5] else "/signed" if d[4] else "/unsigned")
        yield "frame-len=%s" % (case["c"]["size"] if case["c"]["size"] in (1, 8, 64) else "other")
        if "f" in case["c"] and [x[0] for x in case["c"]["f"]["sigs"]].count(d[0]) > 1:
            yield "name-in-several-multiplexer-groups"
        for k in ("scapy", "fibex", "canard", "csv", "ws"):
            if impl.get(k) is None:
                yield "missing-record:" + k
    else:
        yield "ext" if case["c"]["ext"] else "std"
    nd = case["c"].get("f", {}).get("namesake")
    if nd and case["c"].get("resolve"):
        yield "fibex-along-references:%s/namesake-%s%s" % (case["c"]["resolve"], nd["pos"], "/suffix-taken" if nd.get("taken") and case["c"]["f"].get("decoy") else "")


def nontrivial(case, impl):
    return case["op"] == "rec" and case["c"]["sig"][2] > 1
