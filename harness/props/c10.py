"""C10 - frame lookups stay coherent with the matrix over every edit history."""
import contextlib
import copy as pycopy
import io
import itertools
import os
import shutil
import tempfile

import canmatrix.canmatrix as cm
import canmatrix.copy
import canmatrix.formats
from lib import frames as F

PID = "C10"
EXTRA_PROPS = ("C10b",)
RULE = ("case = a history: prelude (2-3 matrices built by add_frame and/or by the DBC reader, 3-5 frame objects over a small "
        "universe of ids {0x10, 0x20, 0x10x, 0x18FEF100x, 0x0CFEF102x, ...} (x = extended; the same number occurs in both formats) and names {A,B,C}, warm-up lookups that fill the memo) + a body "
        "+ a closing sweep of every lookup (by id, name, PGN) on every matrix. quick: every body of length <= 2 over the op "
        "alphabet (del/remove/rename frame, id change through the handle, add_ecu, copy_frame both directions, merge, deepcopy, "
        "reader-style append, interleaved lookups) + 1500 random bodies of length <= 40 + 3000 focused bodies (3..9 operations about one matrix, two frame objects and "
        "two identifiers: look up, change in place, remove, change back, look up again); thorough: every body of length <= 3 + "
        "The closing sweep also looks up the names 'A*', '?' and '[AB]', which no frame is called. 20000 random bodies of length <= 60. "
        "Marked frames: the same preludes with every 29-bit frame marked as a J1939 parameter group (Frame.is_j1939; through the API and, for the "
        "reader's matrices, through BA_ \"VFrameFormat\" in the DBC text) and/or frames marked CAN FD: every body of length 1 (quick: length 2 on the "
        "prelude with a reader's matrix; thorough: on every prelude) over the alphabet plus lookups of identifiers that share the PGN of a frame of "
        "the matrix but not its source address / priority / destination, plus 1500 (20000) random or focused bodies in which the markings, header id, length and "
        "transmitters of frame objects are edited in the middle of the history (such edits address neither identifier nor name, the model does not "
        "see them: lookups must answer as if they were not there). "
        "Untouched matrices: the same preludes filled reader style (db.frames.append only, DBC text whose nodes are all declared, so that no call of "
        "the matrix API precedes the first lookup), every body of length 1 and 500 (6600) random / focused bodies. "
        "Names: rename_frame with a pattern ('TM*', '*_Ctrl', '*': the text at that end of the name replaced once) and with a Frame object that lends its "
        "name, on matrices whose frame names hold the pattern's text at the start, at the end, in the middle, several times or not at all: a fixed sweep "
        "(every prefix and suffix of every name of the matrix as pattern, ~340 histories; thorough: for three texts), 1500 (20000) random histories about "
        "names (renamings of the three kinds between lookups by name / identifier, deletions by name, copies, merges; the closing sweep looks up every name "
        "a frame can carry and the patterns themselves), and 750 (10000) of the random / focused histories above with pattern renamings in between. "
        "The pattern call is executed once by the real code and spelled out for the model as the exact renamings it stands for. "
        "Files: a matrix from the API beside 2-3 matrices read through the entry points of canmatrix.formats (loads / loads_flat on bytes and text, load / "
        "load_flat on a file object, loadp / loadp_flat on a path with and without the import type, open + load), the same unchanged file named more than once "
        "or one path written again between the loads: every body of length 1 for 11 such preludes, 500 (6600) random / focused bodies in which files are "
        "read again in the middle (every load has to hand out a matrix of its own: fresh frame handles, no edit of another matrix visible). "
        "Header ids: frame_by_header_id on snapshots (frames with header ids None/0/n) and at the end of 750 (10000) random histories of one matrix - frames added "
        "(add_frame, reader-style append), deleted (del_frame by object / name, remove_frame), header ids changed through the object, lookups in between, a "
        "second matrix filled beside it; frames may be PDU containers (Frame.add_pdu; the contained PDUs carry header ids of their own from the same universe, "
        "which are also asked for) and have identifiers from the universe of the header ids - plus a fixed sweep (288) of one container and one plain frame in "
        "either order with the requested id on the container, inside it, on the plain frame or nowhere, before and after the plain frame is deleted. "
        "Non-trivial = distinct history whose body contains an edit and a lookup follows it.")
EXHAUSTIVE = {"quick": False, "thorough": False}
PARTIAL = ["frame_by_header_id (a plain scan) is judged on the matrix at the end of a history of its own (case 'hdr': add / append / delete / remove, header ids "
           "changed through the frame object, PDU container frames, a second matrix, lookups in between), not inside the histories of the other lookups",
           "frame objects are compared through harness-assigned handles (object identity)"]
ASSUMPTIONS = ["edits go through the matrix API or through attributes of a frame object; direct mutation of db.frames by the caller "
               "is outside the property (only the readers' own db.frames.append is modelled)",
               "rename_frame with a '*' pattern: the generator (pattern_target) says what the pattern stands for - the text at the start (end) of the "
               "name replaced by the new text once, other frames untouched - as exact renamings of every name a frame of the history can carry; a matrix "
               "that holds the same frame object twice only gets patterns whose second application finds nothing to do (the code visits the object twice)"]
TRUSTED = ["copy.deepcopy is modelled as a structural copy that preserves sharing inside the copied matrix"]
CORRESPONDENCE = "histories of CanMatrix operations == CanVerif.step (Model/Lookup.lean)"

IDS = [(0x10, False), (0x20, False), (0x10, True), (0x18FEF100, True), (0x0CFEF102, True), (0x18EA2100, True), (0x20, True), (0xFEF100, True),
       (0x1AFEF100, True), (0x19FEF103, True),    # the same PF/PS on another data page (DP, EDP bits belong to the PGN)
       (0x18FEF101, True), (0x18EAFF05, True)]    # the PGN of a frame of the matrix from another source address / to another destination (PDU1)
NAMES = ["A", "B", "C"]
PGNS = [0xFEF1, 0xEA21, 0xEA00, 0x1234, 0x2FEF1, 0x1FEF1, 0x3FEF1]

# Properties of a frame object that say nothing about its identifier or name (J1939 / CAN FD marking, header id, length,
# transmitters).  They travel as a trailing record of an operation, which the Lean driver does not read: the model and the
# specification know no such thing, i.e. they demand that lookups answer as if the markings were not there.
#   ["newFrame", name, id, ext, {"j1939": true, "fd": true}]         frame built through the API with these markings
#   ["loadMatrix", [[name, id, ext, {"j1939": true}], ...]]           DBC text with BA_ "VFrameFormat" (the reader sets the markings)
#   [<any op> ..., {"pre": [["mark", handle, "j1939"|"fd", bool], ["hdr", handle, n], ["size", handle, n], ["tx", handle, ecu]]}]
#                                                                     edits of frame objects made just before the operation
MARK_MODES = ("plain", "j1939", "j1939+fd", "mixed")


def mark_of(mode, ext, rng=None):
    if mode == "plain":
        return None
    if mode == "j1939":                  # a J1939 matrix: every 29-bit frame is a parameter group
        return {"j1939": True} if ext else None
    if mode == "j1939+fd":
        return {"j1939": True} if ext else {"fd": True}
    m = {}
    if ext and rng.random() < 0.5:
        m["j1939"] = True
    if rng.random() < 0.3:
        m["fd"] = True
    return m or None


def mark_prelude(pre, mode, rng=None):
    """the same prelude with markings on its frames"""
    if mode == "plain":
        return pre
    out = []
    for o in pre:
        if o[0] == "newFrame":
            m = mark_of(mode, o[3], rng)
            out.append(list(o[:4]) + ([m] if m else []))
        elif o[0] == "loadMatrix":
            fs = []
            for f in o[1]:
                m = mark_of(mode, f[2], rng)
                fs.append(list(f[:3]) + ([m] if m else []))
            out.append(["loadMatrix", fs])
        else:
            out.append(o)
    return out


def side_edit(rng, nobjs):
    h = rng.randrange(nobjs)
    k = rng.random()
    if k < 0.6:
        return ["mark", h, "j1939", rng.random() < 0.7]
    if k < 0.75:
        return ["mark", h, "fd", rng.random() < 0.7]
    if k < 0.85:
        return ["hdr", h, rng.choice([0, 1, 0x10, 0x18FEF100])]
    if k < 0.93:
        return ["size", h, rng.choice([0, 8, 12, 64])]
    return ["tx", h, rng.choice(["E1", "E2"])]


def with_side_edits(rng, body, nobjs, p):
    """the same body; with probability p an operation is preceded by edits of frame objects that leave identifiers and names alone"""
    out = []
    for o in body:
        if rng.random() < p:
            o = list(o) + [{"pre": [side_edit(rng, nobjs) for _ in range(rng.choice([1, 1, 2]))]}]
        out.append(o)
    return out


def side_of(op):
    return op[-1] if isinstance(op[-1], dict) else {}


def prelude(variant, reader_style=False):
    """returns ops, nmats, nobjs, frames per matrix; reader_style: the same matrices filled the way a file reader (or a caller who hands
    the frame list to the constructor) fills them - db.frames.append only, and a DBC text whose nodes are all declared, so that no call
    of the matrix API has touched these matrices before the first lookup"""
    ops, nmats, nobjs = prelude_api(variant)
    if reader_style:
        ops = [["appendFrame"] + o[1:] if o[0] == "addFrame" else o + [{"nodes": True}] if o[0] == "loadMatrix" else o for o in ops]
    return ops, nmats, nobjs


def prelude_api(variant):
    ops = [["newMatrix"], ["newMatrix"],
           ["newFrame", "A", 0x10, False], ["newFrame", "B", 0x18FEF100, True], ["newFrame", "C", 0x10, False],
           ["newFrame", "A", 0x20, False]]
    nobjs = 4
    ops += [["addFrame", 0, 0], ["addFrame", 0, 1], ["addFrame", 1, 2]]
    nmats = 2
    if variant >= 1:
        ops.append(["loadMatrix", [["A", 0x10, False], ["D", 0x0CFEF102, True]]])
        nmats += 1
        nobjs += 2
        # two frames whose identifiers are made from the same PGN (ArbitrationId.from_pgn), one per matrix
        ops += [["newFrame", "P", 0xFEF100, True], ["newFrame", "Q", 0xFEF100, True], ["addFrame", 0, nobjs], ["addFrame", 1, nobjs + 1]]
        nobjs += 2
    if variant >= 2:
        ops.append(["loadMatrix", [["B", 0x10, False]]])
        nmats += 1
        nobjs += 1
    for m in range(nmats):
        ops.append(["byId", m, 0x10, False])
    ops.append(["byId", 0, 0x18FEF100, True])
    return ops, nmats, nobjs


VIAS = ["loads_flat", "loads", "loads_str", "load", "load_flat", "loadp", "loadp_flat", "loadp_typed", "open+load"]
PATH_VIAS = ["loadp", "loadp_flat", "loadp_typed", "open+load"]
FILE_A = [["A", 0x10, False], ["D", 0x0CFEF102, True], ["C", 0x20, False]]
FILE_B = [["B", 0x10, False], ["A", 0x18FEF100, True]]


def load_op(frames, via, nodes=False, onefile=False):
    how = {"via": via}
    if nodes:
        how["nodes"] = True
    if onefile:
        how["onefile"] = True
    return ["loadMatrix", [list(f) for f in frames], how]


def files_prelude(loads, nodes=False, onefile=False):
    """one matrix built through the API and matrices read from files through the entry points of canmatrix.formats (text, file
    object, path); loads = [(frames of the file, entry point), ...]: the same file may be named several times (every load has to
    hand out a matrix of its own), onefile: one path whose content is written again when another text is to be read"""
    ops = [["newMatrix"], ["newFrame", "A", 0x10, False], ["newFrame", "B", 0x18FEF100, True], ["addFrame", 0, 0], ["addFrame", 0, 1]]
    nmats, nobjs = 1, 2
    for frames, via in loads:
        ops.append(load_op(frames, via, nodes, onefile))
        nmats += 1
        nobjs += len(frames)
    for m in range(nmats):
        ops.append(["byId", m, 0x10, False])
        ops.append(["byName", m, "A"])
    return ops, nmats, nobjs


def random_loads(rng):
    k = rng.random()
    n = rng.choice([2, 2, 3])
    if k < 0.6:        # the same file again and again
        f = rng.choice([FILE_A, FILE_B])
        files = [f] * n
    else:
        files = [rng.choice([FILE_A, FILE_B]) for _ in range(n)]
    vias = [rng.choice(PATH_VIAS if rng.random() < 0.7 else VIAS) for _ in range(n)]
    if rng.random() < 0.5:
        vias = [vias[0]] * n
    return list(zip(files, vias))


def with_reloads(rng, body, nmats, nobjs, loads, nodes, onefile, p=0.15):
    """the same body; now and then a file of the prelude (or another one) is read again in the middle of the history"""
    out = []
    for o in body:
        if rng.random() < p and nmats + count_new_mats(out) < 7:
            f, via = rng.choice(loads)
            if rng.random() < 0.25:
                f, via = rng.choice([FILE_A, FILE_B]), rng.choice(VIAS)
            out.append(load_op(f, via, nodes, onefile))
        out.append(o)
    return out


def alphabet(nmats, nobjs):
    ops = []
    for m in range(min(nmats, 3)):
        for h in range(min(nobjs, 4)):
            ops.append(["delFrame", m, h])
        ops.append(["removeFrame", m, 0])
        ops.append(["delFrameByName", m, "A"])
        ops.append(["renameFrame", m, "A", "B"])
        ops.append(["addEcu", m])
        ops.append(["deepcopy", m])
        ops.append(["byId", m, 0x10, False])
        ops.append(["byId", m, 0x20, False])
        ops.append(["byName", m, "A"])
        ops.append(["byPgn", m, 0xFEF1])
        ops.append(["addFrame", m, 3])
        ops.append(["appendFrame", m, 3])
    ops += [["setId", 0, 0x20, False], ["setId", 0, 0x10, False], ["setId", 2, 0x20, False], ["setId", 1, 0x18FEF1AA, True],
            ["setId", 3, 0x10, False], ["setId", 0, 0x10, True], ["setId", 2, 0x10, True]]
    for a, b in itertools.permutations(range(min(nmats, 3)), 2):
        ops.append(["copyFrame", a, b, 0x10, False])
        ops.append(["copyFrame", a, b, 0x18FEF100, True])
        ops.append(["merge", a, b])
    return ops


def closing(nmats, names=()):
    ops = []
    for m in range(nmats):
        for i, e in IDS:
            ops.append(["byId", m, i, e])
        for n in NAMES + ["D", "A*", "?", "[AB]"] + [x for x in names if x not in NAMES and x != "D"]:         # a name is a name, not a pattern
            ops.append(["byName", m, n])
        for p in PGNS:
            ops.append(["byPgn", m, p])
    return ops


def count_new_mats(body):
    return sum(1 for o in body if o[0] in ("deepcopy", "loadMatrix"))


def mkcase(pre, body, nmats, names=()):
    return {"op": "hist", "c": {"ops": pre + body + closing(nmats + count_new_mats(body), names), "body": [len(pre), len(body)]}}


def random_body(rng, nmats, nobjs, maxlen):
    body = []
    nm = nmats
    for _ in range(rng.randint(1, maxlen)):
        k = rng.random()
        m = rng.randrange(nm)
        h = rng.randrange(nobjs)
        if k < 0.10:
            body.append(["delFrame", m, h])
        elif k < 0.14:
            body.append(["removeFrame", m, h])
        elif k < 0.20:
            body.append(["delFrameByName", m, rng.choice(NAMES)])
        elif k < 0.27:
            body.append(["renameFrame", m, rng.choice(NAMES), rng.choice(NAMES)])
        elif k < 0.38:
            i, e = rng.choice(IDS)
            body.append(["setId", h, i, e])
        elif k < 0.41:
            body.append(["addEcu", m])
        elif k < 0.50:
            i, e = rng.choice(IDS)
            body.append(["copyFrame", m, rng.randrange(nm), i, e])
        elif k < 0.54:
            body.append(["merge", m, rng.randrange(nm)])
        elif k < 0.57 and nm < 6:
            body.append(["deepcopy", m])
            nm += 1
        elif k < 0.64:
            body.append(["addFrame", m, h])
        elif k < 0.67:
            body.append(["appendFrame", m, h])
        elif k < 0.85:
            i, e = rng.choice(IDS)
            body.append(["byId", m, i, e])
        elif k < 0.93:
            body.append(["byName", m, rng.choice(NAMES)])
        else:
            body.append(["byPgn", m, rng.choice(PGNS)])
    return body


def focused_body(rng, nmats, nobjs):
    """a short history about one matrix (sometimes two), one or two frame objects and two identifiers: deep interactions
    (look up, change the identifier in place, remove, change it back, look up again) that a uniform choice rarely composes"""
    m = rng.randrange(nmats)
    m2 = rng.randrange(nmats)
    hs = [rng.randrange(nobjs), rng.randrange(nobjs)]
    keys = rng.sample(IDS, 2)
    names = rng.sample(NAMES, 2)
    body = []
    for _ in range(rng.randint(3, 9)):
        k = rng.random()
        mm = m if rng.random() < 0.8 else m2
        h = hs[0] if rng.random() < 0.75 else hs[1]
        i, e = rng.choice(keys)
        if k < 0.28:
            body.append(["byId", mm, i, e])
        elif k < 0.50:
            body.append(["setId", h, i, e])
        elif k < 0.60:
            body.append(["delFrame", mm, h])
        elif k < 0.66:
            body.append(["removeFrame", mm, h])
        elif k < 0.76:
            body.append(["addFrame", mm, h])
        elif k < 0.80:
            body.append(["appendFrame", mm, h])
        elif k < 0.85:
            body.append(["byName", mm, rng.choice(names)])
        elif k < 0.89:
            body.append(["renameFrame", mm, names[0], names[1]])
        elif k < 0.92:
            body.append(["delFrameByName", mm, rng.choice(names)])
        elif k < 0.96:
            body.append(["copyFrame", m, m2, i, e])
        else:
            body.append(["byPgn", mm, rng.choice(PGNS)])
    return body


def intflag_case(rng, marks=False):
    """a history on one matrix whose frames carry pairwise different identifiers all the time, with the extended flag stored as the
    integer 1 (lookups ask with True): add, look up, re-address, delete, look up"""
    ids = rng.sample([(0x10, False), (0x20, True), (0x18FEF100, True), (0x0CFEF102, True), (0x18EA2100, True), (0x1AFEF100, True), (0x30, True),
                      (0x31, False)], 8)
    ops = [["newMatrix"], ["newFrame", "A", ids[0][0], ids[0][1]], ["newFrame", "B", ids[1][0], ids[1][1]], ["newFrame", "C", ids[2][0], ids[2][1]],
           ["addFrame", 0, 0], ["addFrame", 0, 1]]
    cur = {0: ids[0], 1: ids[1], 2: ids[2]}
    spare = list(ids[3:])
    n0 = len(ops)
    for _ in range(rng.randint(3, 10)):
        k = rng.random()
        h = rng.randrange(3)
        if k < 0.45:
            i, e = rng.choice(list(cur.values()) + spare[:1])
            ops.append(["byId", 0, i, e])
        elif k < 0.6:
            ops.append(["byPgn", 0, rng.choice(PGNS)])
        elif k < 0.75 and spare:
            new = spare.pop()
            spare.insert(0, cur[h])
            cur[h] = new
            ops.append(["setId", h, new[0], new[1]])
        elif k < 0.85:
            ops.append(["delFrame", 0, h])
        else:
            ops.append(["addFrame", 0, 2])
    body = [n0, len(ops) - n0]
    if marks:
        ops = mark_prelude(ops[:n0], rng.choice(MARK_MODES[1:]), rng) + with_side_edits(rng, ops[n0:], 3, 0.2)
    for i, e in ids:
        ops.append(["byId", 0, i, e])
    for p in PGNS:
        ops.append(["byPgn", 0, p])
    return {"op": "hist", "c": {"ops": ops, "body": body, "intflag": True}}


# ---------------------------------------------------------------------------------------------
# renaming by pattern, renaming by frame object
# ---------------------------------------------------------------------------------------------
# rename_frame (and canconvert --renameFrame) takes, besides an exact name, "part of the name with '*' at the beginning or the
# end" together with the new prefix / suffix, or a Frame object that lends its name.  The Lean model knows exact renamings only;
# a pattern call travels as
#   ["renameFrame", m, "TM*", "X", {"pattern": k}]                   the call the real code executes; for the model the renaming of
#                                                                    a frame called "TM*", which no frame is
#   ["renameFrame", m, "TM_Status", "X_Status", {"implied": true}]   (k of them) the exact renamings the pattern stands for, one for
#                                                                    every name a frame of the history can carry at that point; the
#                                                                    real code is not called again for these
#   ["renameFrame", m, "TM_Status", "New", {"by": handle}]           rename_frame(<Frame object called TM_Status>, "New")
# so the model and the independence judge of the specification see what the pattern has to do - the text at that end of the name
# replaced once, the rest of the name untouched, frames the pattern does not address untouched - and the real matrix, changed
# by the one pattern call, is judged against it by every later lookup and snapshot.

def pattern_target(pat, new, name):
    """the name rename_frame(pat, new) has to give a frame called `name`; None when the pattern does not address that name"""
    if pat == "*":
        return new + name
    if pat.endswith("*"):
        return new + name[len(pat) - 1:] if name.startswith(pat[:-1]) else None
    if pat.startswith("*"):
        return name[:len(name) - (len(pat) - 1)] + new if name.endswith(pat[1:]) else None
    return new if name == pat else None


def pattern_idempotent(pat, new):
    """a frame object that stands twice in the list of a matrix is visited twice by rename_frame: the second visit must find
    nothing left to do (histories that may hold a frame twice only get such patterns)"""
    if pat == "*":
        return False
    text = pat[:-1] if pat.endswith("*") else pat[1:]
    if len(new) < len(text):
        return False
    return not (new.startswith(text) if pat.endswith("*") else new.endswith(text))


class NameSet(object):
    """every name a frame of the history can carry so far (an upper bound: who carries which name where is the model's business)"""

    def __init__(self, names=()):
        self.names = []
        self.add(*names)

    def add(self, *names):
        for n in names:
            if n not in self.names:
                self.names.append(n)

    def note(self, op):
        if op[0] == "newFrame":
            self.add(op[1])
        elif op[0] == "loadMatrix":
            self.add(*[f[0] for f in op[1]])
        elif op[0] == "renameFrame":
            self.add(op[3])

    def addressed(self, pat, new):
        """(name, new name) for every name the pattern changes, ordered so that no new name is the old name of a later pair:
        carried out one after the other the exact renamings do what the pattern does at once"""
        pairs = {}
        for n in self.names:
            t = pattern_target(pat, new, n)
            if t is not None and t != n:
                pairs[n] = t
        out, done = [], set()

        def emit(n, depth=0):
            if n in done or depth > len(pairs):
                return
            done.add(n)
            if pairs[n] in pairs:
                emit(pairs[n], depth + 1)      # whoever is called like my new name goes first
            out.append((n, pairs[n]))
        for n in list(pairs):
            emit(n)
        return out

    def pattern(self, m, pat, new):
        """the ops of one rename_frame(pat, new) on matrix m"""
        pairs = self.addressed(pat, new)
        ops = [["renameFrame", m, pat, new, {"pattern": len(pairs)}]]
        ops += [["renameFrame", m, a, b, {"implied": True}] for a, b in pairs]
        self.add(*[b for _, b in pairs])
        return ops


NEW_TEXTS = ["X", "N_", "Q2", "", "ZZ_"]


def pick_pattern(rng, ns, text=None, idempotent=False):
    """a pattern and the new text for it, made from the names of the history (a piece from the start or the end of one of them),
    None when nothing suitable came up"""
    for _ in range(12):
        base = rng.choice(ns.names)
        k = rng.random()
        if k < 0.08 and not idempotent:
            pat, piece = "*", ""
        elif k < 0.7:
            piece = text if text and rng.random() < 0.45 and base.startswith(text) else base[:rng.randint(1, len(base))]
            pat = piece + "*"
        else:
            piece = text if text and rng.random() < 0.45 and base.endswith(text) else base[len(base) - rng.randint(1, len(base)):]
            pat = "*" + piece
        new = rng.choice(NEW_TEXTS + [piece + piece, "B" + piece + "B", piece[::-1], (text or "K")])
        if pat == "*" and not new:
            continue
        if idempotent and not pattern_idempotent(pat, new):
            continue
        if any(pattern_target(pat, new, n) == "" for n in ns.names):       # a frame keeps a name
            continue
        if any(len(pattern_target(pat, new, n) or "") > 28 for n in ns.names):
            continue
        return pat, new
    return None


def with_pattern_renames(rng, pre, body, p=0.12):
    """the same body with pattern renamings put in between (these histories may hold a frame object twice in one matrix)"""
    ns = NameSet(NAMES)
    for o in pre:
        ns.note(o)
    out = []
    nm = sum(1 for o in pre if o[0] in ("newMatrix", "loadMatrix"))
    for o in body:
        if rng.random() < p:
            pn = pick_pattern(rng, ns, idempotent=True)
            if pn:
                out += ns.pattern(rng.randrange(nm), pn[0], pn[1])
        ns.note(o)
        out.append(o)
        if o[0] in ("deepcopy", "loadMatrix"):
            nm += 1
    return out, ns


NIDS = [(0x10, False), (0x20, False), (0x30, False), (0x18FEF100, True), (0x0CFEF102, True), (0x18EA2100, True), (0x31, True), (0x40, False),
        (0x41, False), (0x123, False), (0x124, True)]


def name_pool(t):
    """names around a text t: t at the start, at the end, in the middle, more than once, alone, not at all"""
    return [t + "_Status", t + "_A" + t + "_Ctrl", t + t, "Other_" + t, t, "Z" + t + "Z" + t, t + "_" + t + "_" + t, t + "x" + t + "_Ctrl", "B", "Speed",
            "Speed_" + t + "_" + t]


def names_prelude(rng, t, fixed=False):
    """two matrices built through the API (some frame objects in both), sometimes a third one from the DBC reader; frame names around
    the text t; frame objects left over (added later) and frame objects that only lend their name to rename_frame(<Frame>, new)"""
    pool = name_pool(t)
    nf = 6 if fixed else rng.randint(4, 7)
    names = pool[:nf] if fixed else [rng.choice(pool) for _ in range(nf)]
    ids = list(NIDS) if fixed else rng.sample(NIDS, len(NIDS))
    ops = [["newMatrix"], ["newMatrix"]]
    for h in range(nf):
        ops.append(["newFrame", names[h], ids[h][0], ids[h][1]])
    keys = []
    for j in range(2):
        n = pool[j + 1] if fixed else rng.choice(pool)
        ops.append(["newFrame", n, ids[nf + j][0], ids[nf + j][1]])
        keys.append((nf + j, n))
    nobjs = nf + 2
    present = set()
    spare = []
    for h in range(nf):
        k = (h % 3) / 3.0 + 0.1 if fixed else rng.random()
        if k < 0.4:
            where = [0]
        elif k < 0.6:
            where = [1]
        elif k < 0.88:
            where = [0, 1]
        else:
            where = []
            spare.append(h)
        for m in where:
            ops.append(["addFrame", m, h])
            present.add((m, h))
    nmats = 2
    if not fixed and rng.random() < 0.4:
        fs = [[rng.choice(pool), ids[nobjs + j][0], ids[nobjs + j][1]] for j in range(2)]
        ops.append(["loadMatrix", fs])
        for j in range(2):
            present.add((2, nobjs + j))
        nobjs += 2
        nmats = 3
    for m in range(nmats):
        ops.append(["byId", m, ids[0][0], ids[0][1]])
        ops.append(["byName", m, names[0]])
    return ops, nmats, nobjs, {"text": t, "pool": pool, "keys": keys, "spare": spare, "present": present, "ids": ids[:nobjs], "nf": nf}


def names_closing(nmats, ns, info, patterns):
    ops = []
    for m in range(nmats):
        for i, e in info["ids"]:
            ops.append(["byId", m, i, e])
        for n in ns.names + [x for x in info["pool"] if x not in ns.names] + sorted(patterns):     # a pattern is no name
            ops.append(["byName", m, n])
        ops.append(["byPgn", m, 0xFEF1])
    return ops


def names_case(rng, t=None, fixed_body=None):
    """a history about names: renamings by pattern (prefix, suffix, '*'), by exact name and by frame object, between lookups by name
    and identifier, deletions by name, copies; no frame object gets into the list of one matrix twice"""
    t = t or rng.choice(["TM", "A", "AB", "X_", "Msg", "aa"])
    pre, nmats, nobjs, info = names_prelude(rng, t, fixed=fixed_body is not None)
    ns = NameSet()
    for o in pre:
        ns.note(o)
    body, patterns = [], set()
    nm = nmats
    present = set(info["present"])
    if fixed_body is not None:
        for m, pat, new in fixed_body:
            body += ns.pattern(m, pat, new)
            patterns.add(pat)
    for _ in range(0 if fixed_body is not None else rng.randint(2, 9)):
        k = rng.random()
        m = rng.randrange(nm)
        h = rng.randrange(nobjs)
        if k < 0.34:
            pn = pick_pattern(rng, ns, t)
            if pn:
                body += ns.pattern(m, pn[0], pn[1])
                patterns.add(pn[0])
        elif k < 0.42:
            o = ["renameFrame", m, rng.choice(ns.names), rng.choice(ns.names + info["pool"] + ["New_" + t])]
            ns.note(o)
            body.append(o)
        elif k < 0.47:
            kh, kn = rng.choice(info["keys"])
            o = ["renameFrame", m, kn, rng.choice(ns.names + ["New_" + t, t + "9"]), {"by": kh}]
            ns.note(o)
            body.append(o)
        elif k < 0.60:
            body.append(["byName", m, rng.choice(ns.names)])
        elif k < 0.70:
            i, e = rng.choice(info["ids"])
            body.append(["byId", m, i, e])
        elif k < 0.76:
            i, e = rng.choice(info["ids"])
            body.append(["setId", rng.randrange(info["nf"]), i, e])
        elif k < 0.80:
            body.append(["delFrame", m, h])
        elif k < 0.84:
            body.append(["delFrameByName", m, rng.choice(ns.names)])
        elif k < 0.86:
            body.append(["removeFrame", m, h])
        elif k < 0.90:
            free = [(mm, hh) for mm in range(nmats) for hh in info["spare"] if (mm, hh) not in present]
            if free:
                mm, hh = rng.choice(free)
                present.add((mm, hh))
                body.append(["addFrame", mm, hh])
        elif k < 0.94 and nm < 5:
            body.append(["deepcopy", m])
            nm += 1
        elif k < 0.98:
            i, e = rng.choice(info["ids"])
            body.append(["copyFrame", m, rng.randrange(nm), i, e])
        else:
            body.append(["merge", m, rng.randrange(nm)])
    return {"op": "hist", "c": {"ops": pre + body + names_closing(nm, ns, info, patterns), "body": [len(pre), len(body)]}}


def pattern_sweep(t):
    """every prefix and every suffix of every name of the pool as a pattern (and the bare '*'), with three new texts, on both matrices
    of the fixed prelude"""
    pool = name_pool(t)[:8]
    pats = ["*"]
    for n in pool:
        for k in range(1, len(n) + 1):
            for pat in (n[:k] + "*", "*" + n[len(n) - k:]):
                if pat not in pats:
                    pats.append(pat)
    for pat in pats:
        for new in ("X", t, ""):
            if pat == "*" and not new:
                continue
            if any(pattern_target(pat, new, n) == "" for n in pool):
                continue
            yield [(0, pat, new)]
            if new == "X":
                yield [(1, pat, new), (0, pat, "Y_")]


def gen(rng, tier, shard, nshards):
    depth = 2 if tier == "quick" else 3
    k = 0
    for variant in (0, 1, 2):
        pre, nmats, nobjs = prelude(variant)
        alpha = alphabet(nmats, nobjs)
        for d in range(1, depth + 1):
            if d == 3 and variant != 1:
                continue
            for body in itertools.product(alpha, repeat=d):
                k += 1
                if k % nshards == shard:
                    yield mkcase(pre, [list(o) for o in body], nmats)
    # the same sweep over matrices whose frames are marked (J1939 parameter groups, CAN FD): every body of length 1 on every
    # prelude, every body of length 2 on the prelude with a matrix from the reader (thorough: on every prelude)
    for variant in (0, 1, 2):
        pre, nmats, nobjs = prelude(variant)
        alpha = alphabet(nmats, nobjs) + marked_alphabet(nmats)
        for mode in ("j1939", "j1939+fd"):
            mpre = mark_prelude(pre, mode)
            for d in (1, 2):
                if d == 2 and (mode != "j1939" or (tier == "quick" and variant != 1)):
                    continue
                for body in itertools.product(alpha, repeat=d):
                    k += 1
                    if k % nshards == shard:
                        yield mkcase(mpre, [list(o) for o in body], nmats)
    total = {"quick": 1500, "thorough": 20000}[tier] // nshards
    for _ in range(total):
        pre, nmats, nobjs = prelude(rng.randrange(3))
        yield mkcase(pre, random_body(rng, nmats, nobjs, 40 if tier == "quick" else 60), nmats)
    for _ in range(2 * total):
        pre, nmats, nobjs = prelude(rng.randrange(3))
        yield mkcase(pre, focused_body(rng, nmats, nobjs), nmats)
    for _ in range(total // 3 + 1):
        yield gen_hdr(rng)
    # lookups by header id at the end of edit histories, over matrices with PDU container frames
    for c in hdr_sweep():
        k += 1
        if k % nshards == shard:
            yield c
    for _ in range(total // 2 + 1):
        yield gen_hdr_hist(rng)
    for _ in range(total // 2 + 1):
        yield intflag_case(rng)
    # random and focused histories over marked frames, with edits of the markings (and of other properties of a frame object
    # that are neither identifier nor name) in the middle of the history
    for _ in range(total):
        pre, nmats, nobjs = prelude(rng.randrange(3))
        mode = rng.choice(MARK_MODES)
        pre = mark_prelude(pre, mode, rng)
        body = random_body(rng, nmats, nobjs, 40 if tier == "quick" else 60) if rng.random() < 0.4 else focused_body(rng, nmats, nobjs)
        yield mkcase(pre, with_side_edits(rng, body, nobjs, 0.25 if mode != "j1939" else 0.1), nmats)
    for _ in range(total // 4 + 1):
        yield intflag_case(rng, marks=True)
    # matrices no call of the matrix API has touched before the first lookup (filled reader style / from a file whose nodes are all
    # declared): several of them alive at the same time, every body of length 1, random and focused bodies
    for variant in (0, 1, 2):
        pre, nmats, nobjs = prelude(variant, reader_style=True)
        for o in alphabet(nmats, nobjs):
            k += 1
            if k % nshards == shard:
                yield mkcase(pre, [list(o)], nmats)
    for _ in range(total // 3):
        pre, nmats, nobjs = prelude(rng.randrange(3), reader_style=True)
        body = random_body(rng, nmats, nobjs, 20) if rng.random() < 0.5 else focused_body(rng, nmats, nobjs)
        yield mkcase(pre, body, nmats)
    # files: several matrices read through the entry points of canmatrix.formats (text, file object, path), the same file named more
    # than once: every body of length 1 (the closing sweep asks every matrix), random and focused bodies with files read again in between
    for loads in ([(FILE_A, v), (FILE_A, v)] for v in VIAS):
        pre, nmats, nobjs = files_prelude(loads)
        for o in alphabet(nmats, nobjs):
            k += 1
            if k % nshards == shard:
                yield mkcase(pre, [list(o)], nmats)
    for loads, onefile in (([(FILE_A, "loadp_flat"), (FILE_B, "loadp"), (FILE_A, "loadp")], True), ([(FILE_A, "loadp"), (FILE_A, "loads"), (FILE_A, "loadp_typed")], False)):
        pre, nmats, nobjs = files_prelude(loads, nodes=True, onefile=onefile)
        for o in alphabet(nmats, nobjs):
            k += 1
            if k % nshards == shard:
                yield mkcase(pre, [list(o)], nmats)
    for _ in range(total // 3):
        loads = random_loads(rng)
        nodes, onefile = rng.random() < 0.3, rng.random() < 0.3
        pre, nmats, nobjs = files_prelude(loads, nodes, onefile)
        body = random_body(rng, nmats, nobjs, 20) if rng.random() < 0.4 else focused_body(rng, nmats, nobjs)
        body = with_reloads(rng, body, nmats, nobjs, loads, nodes, onefile)
        yield mkcase(pre, body, nmats)
    # names: renamings by pattern / by frame object.  A fixed sweep (every prefix and suffix of the names of a matrix as the pattern),
    # random histories about names, and the random / focused histories from above with pattern renamings in between
    for t in ("TM",) if tier == "quick" else ("TM", "A", "X_"):
        for fixed in pattern_sweep(t):
            k += 1
            if k % nshards == shard:
                yield names_case(rng, t, fixed)
    for _ in range(total):
        yield names_case(rng)
    for _ in range(total // 2):
        pre, nmats, nobjs = prelude(rng.randrange(3))
        body = random_body(rng, nmats, nobjs, 30 if tier == "quick" else 60) if rng.random() < 0.5 else focused_body(rng, nmats, nobjs)
        body, ns = with_pattern_renames(rng, pre, body)
        yield mkcase(pre, body, nmats, ns.names)


def marked_alphabet(nmats):
    """operations of the short exhaustive bodies that only matter when frames are marked: the marking comes and goes in the
    middle of a history, lookups of identifiers that share their PGN with a frame of the matrix"""
    ops = []
    for m in range(min(nmats, 2)):
        ops.append(["byId", m, 0x0CFEF102, True])
        ops.append(["byId", m, 0x18FEF100, True, {"pre": [["mark", 1, "j1939", False]]}])
        ops.append(["byId", m, 0x18FEF101, True, {"pre": [["mark", 1, "j1939", True]]}])
    ops.append(["setId", 1, 0x18FEF101, True])
    ops.append(["setId", 0, 0x0CFEF102, True, {"pre": [["mark", 0, "j1939", True]]}])
    return ops


def gen_hdr(rng):
    n = rng.randint(0, 5)
    frames = [[h, rng.choice([None, 0, 0, 1, 2, 0x123456])] for h in range(n)]
    return {"op": "hdr", "c": {"frames": frames, "q": rng.choice([0, 0, 1, 2, 3, 0x123456])}}


HIDS = [0, 1, 2, 3, 0x20, 0x21, 0x123456]


def gen_hdr_hist(rng):
    """lookup by header id at the end of an edit history of one matrix (a second matrix alive beside it): frames come (add_frame,
    reader-style append) and go (del_frame by object / by name, remove_frame), header ids are changed through the frame object,
    lookups in between; frames may be PDU containers (Frame.add_pdu, as the ARXML reader builds them: the contained PDUs have header
    ids of their own in Pdu.id) and carry identifiers from the same small universe as the header ids.  The case says which frame
    objects are in the matrix at the end and which header id each of them has (handle, header id): the shape the driver judges.
    Contained PDUs, identifiers, the other matrix and the way the matrix got there are not in it - the specification knows
    frames and their header ids only, i.e. the lookup must answer as if the rest were not there."""
    nobj = rng.randint(1, 5)
    hid, pdus, present, hist = {}, {}, [], []

    def some_hid():
        return rng.choice([None, 0] + HIDS)

    def some_key():
        pool = list(HIDS)
        pool += [v for v in hid.values() if v is not None] * 2
        pool += [i for ps in pdus.values() for i in ps] * 3
        return rng.choice(pool)

    for h in range(nobj):
        hid[h] = some_hid()
        pdus[h] = [rng.choice(HIDS) for _ in range(rng.choice([0, 0, 0, 1, 2, 2, 3]))]
        aid = rng.choice([h + 1, h + 1, rng.choice(HIDS)])
        hist.append(["new", h, hid[h], list(pdus[h]), aid, aid > 0x7FF or rng.random() < 0.3])
    for h in range(nobj):
        if rng.random() < 0.75:
            present.append(h)
            hist.append(["add", h, "append" if rng.random() < 0.25 else "add_frame"])
    for _ in range(rng.randint(0, 8)):
        k = rng.random()
        h = rng.randrange(nobj)
        if k < 0.30:
            hist.append(["q", some_key()])
        elif k < 0.45:
            if h not in present:
                present.append(h)
                hist.append(["add", h, "append" if rng.random() < 0.25 else "add_frame"])
        elif k < 0.65:
            if present:
                h = rng.choice(present)
                present.remove(h)
                hist.append(["del", h, rng.choice(["del_frame", "del_name", "remove_frame"])])
        elif k < 0.80:
            hid[h] = some_hid()
            hist.append(["hdr", h, hid[h]])
        elif k < 0.90:
            i = rng.choice(HIDS)
            pdus[h].append(i)
            hist.append(["pdu", h, i])
        else:
            # a frame of another matrix (never in this one): header id and contained PDUs from the same universe
            hist.append(["other", some_hid(), [rng.choice(HIDS) for _ in range(rng.choice([0, 1, 2]))]])
    return {"op": "hdr", "c": {"frames": [[h, hid[h]] for h in present], "q": some_key(), "hist": hist,
                               "pdus": [[h, list(pdus[h])] for h in present if pdus[h]]}}


def hdr_sweep():
    """one container frame and one plain frame in either order, every placement of the requested header id: on the container,
    inside it, on the plain frame, nowhere; before and after the plain frame is deleted"""
    for order in ((0, 1), (1, 0)):
        for chid in (None, 0x10, 0x20):
            for phid in (None, 0x20, 0x21):
                for gone in (None, "del_frame", "del_name", "remove_frame"):
                    for q in (0x10, 0x20, 0x21, 0):
                        hids = {0: chid, 1: phid}
                        hist = [["new", 0, chid, [0x20, 0x21], 0x100, False], ["new", 1, phid, [], 0x101, False]]
                        hist += [["add", h, "add_frame"] for h in order]
                        present = list(order)
                        if gone:
                            hist += [["q", q], ["del", 1, gone]]
                            present.remove(1)
                        yield {"op": "hdr", "c": {"frames": [[h, hids[h]] for h in present], "q": q, "hist": hist,
                                                  "pdus": [[0, [0x20, 0x21]]]}}


def observe_hdr_hist(c):
    db, other = cm.CanMatrix(), cm.CanMatrix()
    objs = {}
    nother = 0
    for st in c["hist"]:
        k = st[0]
        if k == "new":
            fr = cm.Frame("F%d" % st[1], arbitration_id=cm.ArbitrationId(st[4], st[5]), size=64 if st[3] else 8)
            fr.header_id = st[2]
            for n, i in enumerate(st[3]):
                fr.add_pdu(cm.Pdu(name="P%d_%d" % (st[1], n), size=8, id=i))
            objs[st[1]] = fr
        elif k == "add":
            if st[2] == "append":
                db.frames.append(objs[st[1]])
            else:
                db.add_frame(objs[st[1]])
        elif k == "del":
            if st[2] == "del_frame":
                db.del_frame(objs[st[1]])
            elif st[2] == "del_name":
                db.del_frame(objs[st[1]].name)
            else:
                db.remove_frame(objs[st[1]])
        elif k == "hdr":
            objs[st[1]].header_id = st[2]
        elif k == "pdu":
            fr = objs[st[1]]
            fr.add_pdu(cm.Pdu(name="P%d_%d" % (st[1], len(fr.pdus)), size=8, id=st[2]))
        elif k == "other":
            fr = cm.Frame("O%d" % nother, arbitration_id=cm.ArbitrationId(0x200 + nother, False), size=64)
            fr.header_id = st[1]
            for n, i in enumerate(st[2]):
                fr.add_pdu(cm.Pdu(name="OP%d_%d" % (nother, n), size=8, id=i))
            other.add_frame(fr)
            objs[1000 + nother] = fr
            nother += 1
            other.frame_by_header_id(c["q"])
        elif k == "q":
            try:
                db.frame_by_header_id(st[1])
            except Exception:  # noqa
                pass
        else:
            raise KeyError(k)
    try:
        r = db.frame_by_header_id(c["q"])
    except Exception:  # noqa
        return {"ret": "raised"}
    # (a frame object that is none of the history's would be a new kind of answer: -1 is no handle of the case)
    return {"ret": None if r is None else next((h for h, o in objs.items() if o is r), -1)}


def observe_hdr(c):
    if "hist" in c:
        return observe_hdr_hist(c)
    db = cm.CanMatrix()
    objs = []
    for h, hid in c["frames"]:
        fr = cm.Frame("F%d" % h, arbitration_id=cm.ArbitrationId(h + 1, False), size=8)
        fr.header_id = hid
        db.add_frame(fr)
        objs.append(fr)
    try:
        r = db.frame_by_header_id(c["q"])
    except Exception:  # noqa
        return {"ret": "raised"}
    return {"ret": None if r is None else next(i for i, o in enumerate(objs) if o is r)}


def neighbours(case, rng, shard, nshards):
    for _ in range(150 // nshards + 1):
        pre, nmats, nobjs = prelude(rng.randrange(3))
        yield mkcase(pre, random_body(rng, nmats, nobjs, 30), nmats)
    for _ in range(100 // nshards + 1):
        yield names_case(rng)


VFRAMEFORMAT = ["StandardCAN", "ExtendedCAN", "reserved", "J1939PG"] + ["reserved"] * 10 + ["StandardCAN_FD", "ExtendedCAN_FD"]


def dbc_for(frames, nodes=False):
    """nodes: every sender and receiver is a declared node (BU_), as in a file written by a tool; otherwise the placeholder Vector__XXX"""
    lines = ['VERSION ""', "", "NS_ :", "", "BS_:", "", "BU_: E1 E2" if nodes else "BU_: ", ""]
    marked = []
    for fr in frames:
        name, i, ext = fr[:3]
        num = i | (0x80000000 if ext else 0)
        lines.append("BO_ %d %s: 8 %s" % (num, name, "E1" if nodes else "Vector__XXX"))
        lines.append(' SG_ s_%s : 0|8@1+ (1,0) [0|0] "" %s' % (name, "E2" if nodes else "Vector__XXX"))
        lines.append("")
        m = fr[3] if len(fr) > 3 and isinstance(fr[3], dict) else {}
        if m.get("j1939"):
            marked.append((num, 3))
        elif m.get("fd"):
            marked.append((num, 15 if ext else 14))
    if marked:
        # the frame format attribute as CANdb++ writes it; the reader turns it into Frame.is_j1939 / Frame.is_fd
        lines.append('BA_DEF_ BO_  "VFrameFormat" ENUM  %s;' % ",".join('"%s"' % v for v in VFRAMEFORMAT))
        lines.append('BA_DEF_DEF_  "VFrameFormat" "StandardCAN";')
        for num, v in marked:
            lines.append('BA_ "VFrameFormat" BO_ %d %d;' % (num, v))
        lines.append("")
    return "\n".join(lines).encode()


class Run(object):
    intflag = False

    def __init__(self):
        self.mats = []
        self.objs = []
        self.hid = {}
        self.tmp = None
        self.files = {}

    def reg(self, fr):
        if id(fr) not in self.hid:
            self.hid[id(fr)] = len(self.objs)
            self.objs.append(fr)
        return self.hid[id(fr)]

    def path_of(self, text, onefile):
        """the file the text is read from: a file of this history's own directory, written once per text and left alone afterwards (who
        reads the same text again names the same, unchanged file); onefile: one file for every text, written again when the text changes"""
        if self.tmp is None:
            self.tmp = tempfile.mkdtemp(prefix="c10-")
        if onefile:
            path = os.path.join(self.tmp, "net.dbc")
            if self.files.get(path) != text:
                with open(path, "wb") as f:
                    f.write(text)
                self.files[path] = text
            return path
        if text not in self.files:
            path = os.path.join(self.tmp, "net%d.dbc" % len(self.files))
            with open(path, "wb") as f:
                f.write(text)
            self.files[text] = path
        return self.files[text]

    def load(self, text, via, onefile=False):
        """one matrix from the DBC text through one of the reader entry points of canmatrix.formats"""
        fm = canmatrix.formats
        if via == "loads_flat":
            return fm.loads_flat(text, "dbc")
        if via == "loads":
            return fm.loads(text, "dbc")[""]
        if via == "loads_str":
            return fm.loads(text.decode(), "dbc", encoding="utf-8")[""]
        if via == "load":
            return fm.load(io.BytesIO(text), "dbc")[""]
        if via == "load_flat":
            return fm.load_flat(io.BytesIO(text), "dbc")
        path = self.path_of(text, onefile)
        if via == "loadp":
            return fm.loadp(path)[""]
        if via == "loadp_flat":
            return fm.loadp_flat(path)
        if via == "loadp_typed":
            return fm.loadp(path, "dbc")[""]
        if via == "open+load":
            with open(path, "rb") as f:
                return fm.load(f, "dbc")[""]
        raise KeyError(via)

    def cleanup(self):
        if self.tmp is not None:
            shutil.rmtree(self.tmp, ignore_errors=True)
            self.tmp = None

    def snap(self, m):
        return [[self.reg(f), f.name, f.arbitration_id.id, bool(f.arbitration_id.extended)] for f in self.mats[m].frames]

    def found(self, fr):
        return {"f": None if fr is None else self.reg(fr)}

    def side(self, edits):
        """edits of frame objects that touch neither identifier nor name"""
        for e in edits:
            fr = self.objs[e[1]]
            if e[0] == "mark":
                setattr(fr, {"j1939": "is_j1939", "fd": "is_fd"}[e[2]], bool(e[3]))
            elif e[0] == "hdr":
                fr.header_id = e[2]
            elif e[0] == "size":
                fr.size = e[2]
            elif e[0] == "tx":
                fr.add_transmitter(e[2])
            else:
                raise KeyError(e[0])

    def do(self, op):
        k = op[0]
        self.side(side_of(op).get("pre", ()))
        if k == "newMatrix":
            self.mats.append(cm.CanMatrix())
            return {"h": len(self.mats) - 1}, None
        if k == "newFrame":
            if op[3] and op[2] == (op[2] & 0x3FFFF00):
                aid = cm.ArbitrationId.from_pgn(op[2] >> 8)       # priority 0, source 0: as the J1939 helpers build it
            else:
                # (in the 'intflag' histories the extended flag is the integer 1, as the SYM reader sets it)
                aid = cm.ArbitrationId(op[2], (1 if op[3] else False) if self.intflag else op[3])
            marks = side_of(op)
            fr = cm.Frame(op[1], arbitration_id=aid, size=8, is_j1939=bool(marks.get("j1939")), is_fd=bool(marks.get("fd")))
            fr.add_signal(cm.Signal("s", start_bit=0, size=8))
            return {"h": self.reg(fr)}, None
        if k == "loadMatrix":
            with contextlib.redirect_stdout(io.StringIO()):
                db = self.load(dbc_for(op[1], nodes=bool(side_of(op).get("nodes"))), side_of(op).get("via", "loads_flat"),
                               bool(side_of(op).get("onefile")))
            self.mats.append(db)
            for f in db.frames:
                self.reg(f)
            return {"h": len(self.mats) - 1}, self.snap(len(self.mats) - 1)
        if k == "deepcopy":
            db = pycopy.deepcopy(self.mats[op[1]])
            self.mats.append(db)
            for f in db.frames:
                self.reg(f)
            return {"h": len(self.mats) - 1}, self.snap(len(self.mats) - 1)
        if k == "setId":
            fr = self.objs[op[1]]
            fr.arbitration_id.id = op[2]
            fr.arbitration_id.extended = (1 if op[3] else False) if self.intflag else op[3]
            return None, None
        db = self.mats[op[1]]
        if k == "addFrame":
            db.add_frame(self.objs[op[2]])
            return None, None
        if k == "appendFrame":
            db.frames.append(self.objs[op[2]])
            return None, None
        if k in ("removeFrame", "delFrame", "delFrameByName"):
            pre = self.snap(op[1])
            self.post = pre          # a call that raises leaves the matrix as it was
            try:
                if k == "removeFrame":
                    db.remove_frame(self.objs[op[2]])
                elif k == "delFrame":
                    db.del_frame(self.objs[op[2]])
                else:
                    db.del_frame(op[2])
            finally:
                self.post = self.snap(op[1])
            return None, pre
        if k == "renameFrame":
            how = side_of(op)
            if how.get("implied"):
                # one of the exact renamings a pattern stands for, spelled out for the model: the pattern call before it has done this
                return None, None
            if "by" in how:
                key = self.objs[how["by"]]           # rename_frame(<Frame>, new): the frame object only lends its name
                if key.name != op[2]:
                    raise AssertionError("harness: key frame %d is called %r, not %r" % (how["by"], key.name, op[2]))
                db.rename_frame(key, op[3])
            else:
                db.rename_frame(op[2], op[3])         # an exact name, or a pattern ("TM*", "*_Ctrl", "*") in the carrier op
            return None, None
        if k == "addEcu":
            db.add_ecu(cm.Ecu("ecu%d" % len(db.ecus)))
            return None, None
        if k == "copyFrame":
            dst = self.mats[op[2]]
            r = canmatrix.copy.copy_frame(cm.ArbitrationId(op[3], op[4]), db, dst)
            for f in dst.frames:
                self.reg(f)
            return {"b": bool(r)}, self.snap(op[2])
        if k == "merge":
            src = self.mats[op[2]]
            db.merge([src])
            for f in db.frames:
                self.reg(f)
            return None, self.snap(op[1])
        if k == "byId":
            s = self.snap(op[1])
            return self.found(db.frame_by_id(cm.ArbitrationId(op[2], op[3]))), s
        if k == "byName":
            s = self.snap(op[1])
            return self.found(db.frame_by_name(op[2])), s
        if k == "byPgn":
            s = self.snap(op[1])
            return self.found(db.frame_by_pgn(op[2])), s
        raise ValueError(k)


def observe(case):
    if case["op"] == "hdr":
        return observe_hdr(case["c"])
    r = Run()
    r.intflag = bool(case["c"].get("intflag"))
    outs, snaps, posts = [], [], []
    try:
        for op in case["c"]["ops"]:
            r.post = None
            try:
                o, s = r.do(op)
            except (ValueError, AttributeError, IndexError) as e:
                if isinstance(e, IndexError):
                    raise
                o, s = "raised", (r.snap(op[1]) if op[0] in ("removeFrame", "delFrame", "delFrameByName") and r.post is not None else None)
            outs.append(o)
            snaps.append(s)
            posts.append(r.post)
    finally:
        r.cleanup()
    return {"outs": outs, "snaps": snaps, "post": posts}


def project(impl):
    if "ret" in impl:
        return {"ret": impl["ret"]}
    return {"outs": impl["outs"]}


def features(case, impl):
    if case["op"] == "hdr":
        yield "op=byHeaderId"
        yield "header-id-query=%s" % ("0" if case["c"]["q"] == 0 else "other")
        c = case["c"]
        if "hist" in c:
            yield "header-id-lookup=after-a-history"
            q = c["q"]
            for st in c["hist"]:
                if st[0] in ("del", "add", "other", "q", "hdr", "pdu"):
                    yield "hdr-history=" + st[0] + (":" + st[2] if st[0] in ("del", "add") else "")
            own = [h for h, v in c["frames"] if v == q]
            inside = [h for h, ps in c["pdus"] if q in ps]
            yield "containers-in-matrix=%d" % min(len(c["pdus"]), 2)
            if inside:
                pos = {h: n for n, (h, _) in enumerate(c["frames"])}
                yield "query-is-a-contained-pdu-id:" + ("no-frame-has-it" if not own else "container-is-the-owner" if own[0] in inside else
                                                        "container-before-the-owner" if min(pos[h] for h in inside) < pos[own[0]]
                                                        else "container-after-the-owner")
        return
    a, n = case["c"]["body"]
    body = case["c"]["ops"][a:a + n]
    yield "body-len=%s" % (n if n <= 3 else "4-10" if n <= 10 else ">10")
    seen = []
    for o in case["c"]["ops"]:
        if o[0] == "loadMatrix" and "via" in side_of(o):
            yield "read-through=" + side_of(o)["via"]
            text = canon_file(o)
            if text in seen:
                yield "file-read-again=" + ("same-path-rewritten-in-between" if side_of(o).get("onefile") and seen[-1] != text else "unchanged")
            seen.append(text)
    for o in body:
        how = side_of(o)
        if how.get("implied"):
            continue
        yield "op=" + o[0]
        if o[0] == "renameFrame":
            if "pattern" in how:
                yield "rename=by-pattern:" + ("*" if o[2] == "*" else "prefix" if o[2].endswith("*") else "suffix")
                yield "pattern-addresses=%s" % (how["pattern"] if how["pattern"] < 3 else "3+") + "-of-the-possible-names"
                text = o[2].strip("*")
                at = next(i for i, x in enumerate(body) if x is o)
                if text and any(x[2].count(text) > 1 for x in body[at + 1:at + 1 + how["pattern"]]):
                    yield "pattern-text-occurs-again-inside-an-addressed-name"
                if text and o[3] and (o[3].startswith(text) or o[3].endswith(text)):
                    yield "pattern-new-text-contains-the-old"
            else:
                yield "rename=" + ("by-frame-object" if "by" in how else "by-exact-name")
    yield "raised" if "raised" in impl["outs"] else "no-raise"
    marks = set()
    for o in case["c"]["ops"]:
        if o[0] == "newFrame":
            marks.update("api:" + m for m, v in side_of(o).items() if v and m != "pre")
        elif o[0] == "loadMatrix":
            for f in o[1]:
                marks.update("reader:" + m for m, v in (f[3] if len(f) > 3 else {}).items() if v)
        for e in side_of(o).get("pre", ()):
            yield "edit-in-history=" + (e[0] if e[0] != "mark" else "%s:=%s" % (e[2], e[3]))
    for m in sorted(marks):
        yield "frames-marked=" + m
    if not marks:
        yield "frames-marked=none"


def canon_file(o):
    return repr(o[1])


def nontrivial(case, impl):
    if case["op"] == "hdr":
        return bool(case["c"]["frames"])
    a, n = case["c"]["body"]
    body = case["c"]["ops"][a:a + n]
    return any(not o[0].startswith("by") for o in body)


def shrink_candidates(case):
    if case["op"] == "hdr":
        return
    a, n = case["c"]["body"]
    ops = case["c"]["ops"]
    body = ops[a:a + n]
    if any(o[0] == "deepcopy" for o in body):
        return
    for i in range(n):
        how = side_of(body[i])
        if how.get("implied"):
            continue                       # goes with the pattern call it spells out
        j = i + 1 + how.get("pattern", 0)
        nb = body[:i] + body[j:]
        yield {"op": "hist", "c": dict(case["c"], ops=ops[:a] + nb + ops[a + n:], body=[a, len(nb)])}
    tail = ops[a + n:]
    if len(tail) > 1:
        for i in range(len(tail)):
            yield {"op": "hist", "c": dict(case["c"], ops=ops[:a + n] + [tail[i]], body=[a, n])}
