"""C08 - all start-bit notations denote the same physical bits.
K: Signal.set_startbit / get_startbit vs Model/StartBit.lean ; decode of a single-bit payload.
S: Spec/Bits.lean specGetStartbit on the implementation's results."""
import itertools

import canmatrix.canmatrix as cm

PID = "C08"
RULE = ("case = (byte order, width 1..64, position 0..511, set switches (bitNumbering in {None,0,1} x startLittle), "
        "get switches, probe bit k); thorough enumerates byte order x width x position x the 4x4 explicit switch "
        "values completely (1 048 576 set/get pairs) plus the None defaults; quick takes a seeded sample plus all "
        "In half of the cases the byte order is assigned after construction. The signal has a history: it stood at the position whose internal number equals the number set next and was queried there in every notation. widths at byte boundaries. Non-trivial = distinct case in which the position is accepted and the signal "
        "is wider than one bit or a renumbering takes place.")
EXHAUSTIVE = {"thorough": True, "quick": False}
PARTIAL = []
ASSUMPTIONS = ["is_little_endian is a bool and startLittle is True/False/None as the readers pass them",
               "the decode observation uses a 72-byte frame so that every (position,width) of the domain lies inside it"]
TRUSTED = ["CPython int arithmetic (floor modulus) is modelled by Lean Int.emod"]
CORRESPONDENCE = "Signal.set_startbit/get_startbit == CanVerif.setStartbit/getStartbit"
FRAME_BYTES = 72

BN = [None, 0, 1]
SL = [False, True]


def mk(little, size, start, bns, sls, bng, slg, k):
    return {"op": "sg", "c": [little, size, start, bns, sls, bng, slg, k]}


def pick_k(rng, start, size):
    lo = max(0, start - 70)
    return rng.randint(lo, min(FRAME_BYTES * 8 - 1, start + 80))


def gen(rng, tier, shard, nshards):
    if tier == "thorough":
        # complete enumeration of the explicit switch values, sharded by position
        for start in range(shard, 512, nshards):
            for little in (False, True):
                for size in range(1, 65):
                    for bns in (0, 1):
                        for sls in SL:
                            for bng in (0, 1):
                                for slg in SL:
                                    yield mk(little, size, start, bns, sls, bng, slg, pick_k(rng, start, size))
                    # None defaults (set and get), sampled
                    for bns, sls, bng, slg in ((None, False, None, False), (None, True, None, True),
                                               (None, False, 1, True), (0, True, None, False), (None, None, None, None)):
                        yield mk(little, size, start, bns, bool(sls), bng, bool(slg), pick_k(rng, start, size))
    else:
        n = 60000 // nshards
        for _ in range(n):
            little = rng.random() < 0.4
            size = rng.choice([1, 2, 7, 8, 9, 12, 16, 31, 32, 33, 63, 64, rng.randint(1, 64)])
            start = rng.choice([rng.randint(0, 511), rng.randint(0, 70), 8 * rng.randint(0, 63), 8 * rng.randint(0, 63) + 7])
            yield mk(little, size, start, rng.choice(BN), rng.choice(SL), rng.choice(BN), rng.choice(SL),
                     pick_k(rng, start, size))
        if shard == 0:
            for little in (False, True):
                for size in range(1, 65):
                    for start in (0, 7, 8, 15, 56, 63, 64, 504, 511):
                        for bns, bng in itertools.product(BN, BN):
                            yield mk(little, size, start, bns, True, bng, False, pick_k(rng, start, size))


def neighbours(case, rng, shard, nshards):
    little, size, start, bns, sls, bng, slg, k = case["c"]
    for _ in range(400 // nshards + 1):
        yield mk(little, max(1, min(64, size + rng.randint(-2, 2))), max(0, min(511, start + rng.randint(-9, 9))),
                 rng.choice(BN), rng.choice(SL), rng.choice(BN), rng.choice(SL), pick_k(rng, start, size))


def observe(case):
    little, size, start, bns, sls, bng, slg, k = case["c"]
    if (k // 2) % 2 == 0:
        sig = cm.Signal("s", size=size, is_little_endian=little, is_signed=False)
    else:
        # the byte order is assigned after construction (as some readers do)
        sig = cm.Signal("s", size=size, is_little_endian=not little, is_signed=False)
        sig.is_little_endian = little
    # the signal has a history: it stood at the position whose internal number equals the number that is set next, and it was
    # queried there in every notation (what is set and queried afterwards must not remember that)
    prior = start if k % 2 == 0 else 0
    sig.start_bit = prior
    for bn0 in BN:
        for sl0 in SL:
            sig.get_startbit(bit_numbering=bn0, start_little=sl0)
    try:
        sig.set_startbit(start, bitNumbering=bns, startLittle=sls)
    except cm.StartbitLowerZero:
        # nothing may have been stored
        return {"set": None, "get": None, "dec": None, "stored": 0 if sig.start_bit == prior else "changed to %d" % sig.start_bit}
    internal = sig.start_bit
    got = sig.get_startbit(bit_numbering=bng, start_little=slg)
    dec = None
    if internal >= 0 and internal + size <= FRAME_BYTES * 8:
        fr = cm.Frame("f", arbitration_id=cm.ArbitrationId(1, False), size=FRAME_BYTES)
        fr.add_signal(sig)
        payload = bytearray(FRAME_BYTES)
        payload[k // 8] |= 1 << (k % 8)
        dec = fr.decode(bytes(payload))["s"].raw_value
    return {"set": internal, "get": got, "dec": dec}


def project(impl):
    return {"set": impl.get("set"), "get": impl.get("get"), "dec": impl.get("dec")}


def features(case, impl):
    little, size, start, bns, sls, bng, slg, k = case["c"]
    yield "order=" + ("intel" if little else "motorola")
    yield "set=%s/%s get=%s/%s" % (bns, int(sls), bng, int(slg))
    yield "rejected" if impl.get("set") is None else "accepted"
    if impl.get("dec"):
        yield "probe-bit-inside-signal"


def nontrivial(case, impl):
    little, size, start, bns, sls, bng, slg, k = case["c"]
    return impl.get("set") is not None and (size > 1 or bns is not None or bng is not None)


def shrink_candidates(case):
    little, size, start, bns, sls, bng, slg, k = case["c"]
    if size > 1:
        yield mk(little, size - 1, start, bns, sls, bng, slg, k)
    if start > 0:
        yield mk(little, size, start - 1, bns, sls, bng, slg, k)
        yield mk(little, size, start // 2, bns, sls, bng, slg, k)


def recipe(case):
    little, size, start, bns, sls, bng, slg, k = case["c"]
    return ("import canmatrix.canmatrix as cm; s=cm.Signal('s',size=%d,is_little_endian=%s,is_signed=False); "
            "s.set_startbit(%d,bitNumbering=%r,startLittle=%r); print(s.start_bit, s.get_startbit(bit_numbering=%r,start_little=%r))"
            % (size, little, start, bns, sls, bng, slg))
