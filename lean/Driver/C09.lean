import Driver.J
import Driver.Common
import CanVerif.Model.ArbId
import CanVerif.Spec.J1939
open Lean CanVerif

namespace D09

def exJson {α} (r : Except Err α) (f : α → Json) : Json :=
  match r with
  | .ok a => J.obj [("ok", f a)]
  | .error e => J.obj [("err", Json.str (DC.errStr e))]

def aidJson (a : ArbId) : Json := J.ofList [J.ofNat a.id, Json.bool a.ext]

def fieldsOf (a : ArbId) : Except Err Json := do
  let pgn ← a.pgn
  let prio ← a.j1939Priority
  let edp ← a.j1939Edp
  let dp ← a.j1939Dp
  let pf ← a.j1939Pf
  let ps ← a.j1939Ps
  let sa ← a.j1939Source
  let dest ← a.j1939Destination
  pure (J.obj [("pgn", J.ofNat pgn), ("prio", J.ofNat prio), ("edp", J.ofNat edp), ("dp", J.ofNat dp),
               ("pf", J.ofNat pf), ("ps", J.ofNat ps), ("sa", J.ofNat sa), ("dest", J.ofOptNat dest)])

def getNat (j : Json) (k : String) : Except String Nat := do J.nat (← J.key j k)

def frames (j : Json) : Except String (List FrameKey) := do
  (← J.arr j).mapM fun f => do
    pure { name := ← J.str (← J.idx f 0), aid := ⟨← J.nat (← J.idx f 1), ← J.bool (← J.idx f 2)⟩, isJ1939 := ← J.bool (← J.idx f 3) }

def handle (op : String) (c i : Json) : Except String (Json × String) := do
  match op with
  | "mk" =>
    let id ← J.int (← J.idx c 0)
    let ext ← J.bool (← J.idx c 1)
    let m := exJson (ArbId.make id ext) aidJson
    let valid := 0 ≤ id && Spec.validId id.toNat ext
    let s := match i.getObjVal? "ok" with
      | .ok v => if valid && v == J.ofList [J.ofInt id, Json.bool ext] then "ok"
                 else if valid then "fail: constructed identifier differs from the given one"
                 else "fail: out-of-range identifier was constructed"
      | .error _ => if valid then "fail: valid identifier rejected" else "ok"
    pure (m, s)
  | "compound" =>
    let n ← J.nat (← J.idx c 0)
    let m := exJson (ArbId.fromCompound n) fun a => J.ofList [J.ofNat a.id, Json.bool a.ext, J.ofNat a.toCompound]
    -- spec: compound integers of valid identifiers map to that identifier and back to the same integer
    let isCompound := n < 2 ^ 11 || (2 ^ 31 ≤ n && n < 2 ^ 31 + 2 ^ 29)
    -- an integer below 2^29 is a standard identifier as it stands: beyond 11 bits it is out of range and must be refused
    -- (integers with bit 29 or 30 set are left unjudged: those bits are masked off on purpose - SocketCAN keeps its RTR/ERR
    -- flags there and DBC its pseudo message)
    let s := if !isCompound then
        (if n < 2 ^ 29 then
          match i.getObjVal? "ok" with
          | .ok _ => "fail: an integer beyond 11 bits without the extended flag was turned into a standard identifier"
          | .error _ => "ok"
        else "ok") else
      match i.getObjVal? "ok" with
      | .ok v =>
        let ext := n ≥ 2 ^ 31
        let id := if ext then n - 2 ^ 31 else n
        if v == J.ofList [J.ofNat id, Json.bool ext, J.ofNat n] then "ok" else "fail: compound integer conversion is lossy"
      | .error _ => "fail: compound integer of a valid identifier rejected"
    pure (m, s)
  | "tocompound" =>
    let id ← J.nat (← J.idx c 0)
    let ext ← J.bool (← J.idx c 1)
    let a : ArbId := ⟨id, ext⟩
    let m := J.obj [("ok", J.ofList [J.ofNat a.toCompound, exJson (ArbId.fromCompound a.toCompound) aidJson])]
    let want := J.obj [("ok", J.ofList [J.ofNat (Spec.compound id ext), J.obj [("ok", aidJson a)]])]
    pure (m, if i == want then "ok" else "fail: identifier -> compound -> identifier is not the identity")
  | "fields" =>
    let id ← J.nat (← J.idx c 0)
    let ext ← J.bool (← J.idx c 1)
    let a : ArbId := ⟨id, ext⟩
    let m := match fieldsOf a with
      | .ok j => J.obj [("ok", j)]
      | .error e => J.obj [("err", Json.str (DC.errStr e))]
    let s ← if !ext then pure (match i.getObjVal? "err" with
        | .ok (Json.str "needsExtended") => "ok"
        | _ => "fail: J1939 view of an 11-bit identifier not refused")
      else match i.getObjVal? "ok" with
        | .error _ => pure "fail: J1939 view of a 29-bit identifier raised"
        | .ok o => do
          let pgn ← getNat o "pgn"
          let prio ← getNat o "prio"
          let edp ← getNat o "edp"
          let dp ← getNat o "dp"
          let pf ← getNat o "pf"
          let ps ← getNat o "ps"
          let sa ← getNat o "sa"
          let dest ← J.optNat (← J.key o "dest")
          pure (if Spec.compose prio edp dp pf ps sa != id then "fail: fields do not recompose to the identifier"
            else if prio != Spec.prio id || edp != Spec.edp id || dp != Spec.dp id || pf != Spec.pf id || ps != Spec.ps id || sa != Spec.sa id
              then "fail: a field differs from the J1939-21 layout"
            else if pgn != Spec.pgn id then "fail: PGN does not follow J1939-21"
            else if dest != (if Spec.pf id < 240 then some (Spec.ps id) else none) then "fail: destination address wrong"
            else "ok")
    pure (m, s)
  | "set" =>
    let id ← J.nat (← J.idx c 0)
    let ext ← J.bool (← J.idx c 1)
    let which ← J.str (← J.idx c 2)
    let v ← J.nat (← J.idx c 3)
    let a : ArbId := ⟨id, ext⟩
    let b := match which with
      | "prio" => a.setPriority v
      | "src" => a.setSource v
      | _ => a.setPgn v
    let m := aidJson b
    let nid ← J.nat (← J.idx i 0)
    let next ← J.bool (← J.idx i 1)
    let same (g : Nat → Nat) := g nid == g id
    let s := if !next then "fail: setter did not mark the identifier extended" else
      match which with
      | "prio" => if Spec.prio nid == v % 8 && same Spec.edp && same Spec.dp && same Spec.pf && same Spec.ps && same Spec.sa && nid < 2 ^ 29
                  then "ok" else "fail: priority setter changed another field or set a wrong value"
      | "src" => if Spec.sa nid == v % 256 && same Spec.prio && same Spec.edp && same Spec.dp && same Spec.pf && same Spec.ps && nid < 2 ^ 29
                  then "ok" else "fail: source setter changed another field or set a wrong value"
      | _ => if Spec.ps nid == v % 256 && Spec.pf nid == v / 256 % 256 && Spec.dp nid == v / 2 ^ 16 % 2 && Spec.edp nid == v / 2 ^ 17 % 2
                  && same Spec.prio && same Spec.sa && nid < 2 ^ 29
                  then "ok" else "fail: PGN setter changed another field or set a wrong value"
    pure (m, s)
  | "frompgn" =>
    let p ← J.nat (← J.idx c 0)
    let m := exJson (ArbId.fromPgn p) fun q => J.ofList [J.ofNat q.id, Json.bool q.ext, J.ofNat (ArbId.pgnOfId q.id)]
    let s := match i.getObjVal? "ok" with
      | .ok v =>
        let want := if p / 256 % 256 ≥ 240 then p else p / 256 * 256
        if p < 2 ^ 18 && v != J.ofList [J.ofNat (p * 256), Json.bool true, J.ofNat want] then "fail: from_pgn wrong" else "ok"
      | .error _ => if p < 2 ^ 18 then "fail: from_pgn rejected a PGN" else "ok"
    pure (m, s)
  | "resolve" =>
    let fs ← frames (← J.key c "frames")
    let k : ArbId := ⟨← J.nat (← J.idx (← J.key c "k") 0), ← J.bool (← J.idx (← J.key c "k") 1)⟩
    let m := exJson (resolveForDecode fs k) fun r => match r with
      | some f => Json.str f.name
      | none => .null
    let hasJ := fs.any (·.isJ1939)
    let s :=
      if !hasJ then "ok"  -- plain id lookup: C10's business
      else match i.getObjVal? "ok" with
        | .error _ => "fail: decoding by identifier in a J1939 matrix raised"
        | .ok r =>
          if !k.ext then (if r == .null then "ok" else "fail: 11-bit identifier decoded in a J1939 matrix")
          else
            let cands := fs.filter fun f => f.aid.ext && Spec.pgn f.aid.id == Spec.pgn k.id
            match r with
            | .null => if cands.isEmpty then "ok" else "fail: a frame with the received PGN exists but nothing was decoded"
            | .str nm => if cands.any (·.name == nm) then "ok" else "fail: decoded with a frame of a different PGN"
            | _ => "fail: unexpected observation"
    pure (m, s)
  | "jdec" =>
    -- canmatrix.j1939_decoder.decode(id, payload, matrix): the matrix's own frame of the received PGN takes precedence over the bundled
    -- J1939 database; c = {"frames", "k"}; i = {"kind": "regular" | "known" | "other", "name": frame name if regular}
    let fs ← frames (← J.key c "frames")
    let k : ArbId := ⟨← J.nat (← J.idx (← J.key c "k") 0), ← J.bool (← J.idx (← J.key c "k") 1)⟩
    let cands := fs.filter fun f => f.aid.ext && Spec.pgn f.aid.id == Spec.pgn k.id
    let m := match cands with
      | f :: _ => J.obj [("kind", Json.str "regular"), ("name", Json.str f.name)]
      | [] => J.obj [("kind", Json.str "not-regular")]
    let kind ← J.str (← J.key i "kind")
    let s := match cands with
      | [] => if kind == "regular" then "fail: decoded with a frame of the matrix although none carries the received PGN" else "ok"
      | _ =>
        if kind != "regular" then "fail: the matrix has a frame of the received PGN but it was not used"
        else match i.getObjVal? "name" with
          | .ok (.str nm) => if cands.any (·.name == nm) then "ok" else "fail: decoded with a frame of a different PGN"
          | _ => "fail: unexpected observation"
    pure (m, s)
  | _ => throw s!"C09: unknown op {op}"

end D09
