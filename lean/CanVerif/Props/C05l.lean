import CanVerif.Model.DbcFile
import CanVerif.Proofs.DbcRoundtripF
import CanVerif.Props.C05k
/-!
# C05 — the core round trip with all attribute statements

`writeCoreF` is `writeCoreD` (Props/C05k) with the `BA_ .. BO_` lines of the frames and the `BA_ .. SG_` lines of the signals behind the
attributes of the matrix, as `dbc.dump` writes them (tied to the real file on every generated matrix, op `core`).  With this the model
of the writer covers every section of the file except environment variables, value tables of the matrix and the fixed header; and for
every matrix inside the envelope - any number of ECUs, definitions, defaults, frames, signals, attributes, comment lines - reading the
written file builds exactly the matrix: ECUs with comments and attribute dictionaries, definitions with defaults, the attribute
dictionary of the matrix, and the frames with senders, comment, attribute dictionary, signal groups and their signals, each with
comment, value table, float type, multiplexer binding and attribute dictionary.  What the reader's post-processing then does with it
(long names, quotes of texts, ENUM values, start values, cycle times) is Props/C05i and the round-trip observation.
-/
namespace CanVerif.C05l
open CanVerif CanVerif.Dbc CanVerif.Dbc.FileProofs

theorem dbc_roundtrip_core_with_all_attributes (es : List WEcu) (hes : wfEcus es = true) (ds : List DefLine) (hds : wfDefs ds = true)
    (dds : List DefDefLine) (hdds : wfDefaults ds dds = true)
    (ga : List (Str × Str)) (hga : wfAttrs (expectDefs ds dds) .global .global ga = true)
    (hea : ∀ e ∈ es, wfAttrs (expectDefs ds dds) .ecu (.ecu e.name) e.attrs = true)
    (ps : List (WFrame × (Nat × Bool))) (hwf : ∀ p ∈ ps, p.1.wf p.2 = true) (hdist : ps.Pairwise fun p q => p.2 ≠ q.2)
    (hfa : ∀ p ∈ ps, p.1.wfA (expectDefs ds dds) = true) :
    (readFile (writeCoreF es ds dds ga (ps.map (·.1)))).ecus = es.map WEcu.expectA ∧
    (readFile (writeCoreF es ds dds ga (ps.map (·.1)))).defs = expectDefs ds dds ∧
    (readFile (writeCoreF es ds dds ga (ps.map (·.1)))).attrs = attrsOf ga ∧
    (readFile (writeCoreF es ds dds ga (ps.map (·.1)))).frames = ps.map (fun p => p.1.expectA p.2) ∧
    (readFile (writeCoreF es ds dds ga (ps.map (·.1)))).pending = none :=
  roundtrip_coreF es hes ds hds dds hdds ga hga hea ps hwf hdist hfa

/-- the sections behind the attribute statements (value tables, float types, signal groups, multiplexer bindings) do not look at
attributes: they do to a frame with other attribute dictionaries what they do to the frame -/
theorem later_sections_ignore_attributes (its : List Item) (h : ∀ it ∈ its, isCItem it = true) (A : List (Str × Str))
    (B : Str → List (Str × Str)) (F : RFrame) :
    its.foldl (fun acc it => itemUpd it acc) (ovl A B F) = ovl A B (its.foldl (fun acc it => itemUpd it acc) F) :=
  fold_ovl its h A B F

/-- the matrix after attribute statements of frames and signals whose values are accepted: only frames change, each through the
statements that name its identifier -/
theorem frames_after_attribute_statements (its : List Item) (m : RMatrix) (hu : KeysUnique m)
    (hall : ∀ it ∈ its, isFrameBa it = true ∧ baOk m.defs it = true) :
    (its.foldl applyItem m).frames = m.frames.map (fun f => its.foldl (fun acc it => itemUpdA it acc) f) ∧
    (its.foldl applyItem m).defs = m.defs ∧ (its.foldl applyItem m).ecus = m.ecus ∧ (its.foldl applyItem m).attrs = m.attrs :=
  ba_fold its m hu hall

/-! ## non-vacuity -/

def exFramesA : List (WFrame × (Nat × Bool)) :=
  [({ bo := ⟨291, "Engine".toList, 8, "ECU_A".toList⟩,
      sigs := [{ sg := CanVerif.C05h.exSg "Speed" 0, comment := some "vehicle speed".toList, values := [(255, "invalid".toList)],
                 attrs := [("NodeKind".toList, "1".toList)] },
               { sg := { CanVerif.C05h.exSg "Rpm" 8 with size := 32 }, isFloat := true }],
      moreSenders := ["Gateway".toList], comment := some "engine data".toList,
      attrs := [("GenMsgCycleTime".toList, "100".toList)] }, (291, false)),
   ({ bo := ⟨2147483939, "EngineExt".toList, 8, "ECU_A".toList⟩, sigs := [{ sg := CanVerif.C05h.exSg "Speed" 0 }] }, (291, true))]

example : exFramesA.all (fun p => p.1.wf p.2 && p.1.wfA (expectDefs CanVerif.C05k.exDefs CanVerif.C05k.exDefaults)) = true := by decide +kernel
example : (readFile (writeCoreF CanVerif.C05k.exEcusA CanVerif.C05k.exDefs CanVerif.C05k.exDefaults CanVerif.C05k.exGlobal (exFramesA.map (·.1)))).frames =
    exFramesA.map (fun p => p.1.expectA p.2) := by decide +kernel
example : ((readFile (writeCoreF CanVerif.C05k.exEcusA CanVerif.C05k.exDefs CanVerif.C05k.exDefaults CanVerif.C05k.exGlobal (exFramesA.map (·.1)))).frames.map (·.attrs)) =
    [[("GenMsgCycleTime".toList, "100".toList)], []] := by decide +kernel
example : (readFile (writeCoreF CanVerif.C05k.exEcusA CanVerif.C05k.exDefs CanVerif.C05k.exDefaults CanVerif.C05k.exGlobal (exFramesA.map (·.1)))).errors = 0 := by
  decide +kernel

end CanVerif.C05l
