import CanVerif.Model.Convert
import CanVerif.Spec.ConvertSpec
import CanVerif.Proofs.Convert
/-!
# C18 - canconvert options have exactly their documented effect

`Conv.convert` transcribes the option pipeline of convert.py step by step (first-match lookups, the frames' cached
receiver lists); `ConvSpec.expected` states the documented effect of each option as a filter or map and nothing
else.  Theorems: without options the matrix is unchanged; for each option alone, on a matrix whose names identify
its frames, signals and ECUs, the pipeline yields exactly the documented effect (so every frame, signal, ECU and
attribute the clause does not mention is copied unchanged); the length thresholds are strict (`>`), a frame
of exactly the threshold length is untouched; recalculated lengths are the least / never smaller.
The combination `deleteObsoleteEcus` + an option that removes signals is NOT covered: there the pipeline keeps
ECUs the documentation says are deleted (`obsolete_ecus_stale_witness`, known finding).
-/
namespace CanVerif.C18
open CanVerif CanVerif.Conv CanVerif.ConvSpec

/-- no manipulation option: the output is the input -/
theorem no_options (m : KMat) : (convert {} m).map core = some (core m) := by
  exact Conv.no_options_main m

/-! ## one option at a time: pipeline = documented effect -/

theorem deleteFrame_alone (m : KMat) (ns : List String) (h : uniqueNames m) :
    (convert { deleteFrame := some ns } m).map core = (expected { deleteFrame := some ns } m).map core := by
  exact Conv.deleteFrame_main m ns h

theorem setFrameFd_alone (m : KMat) (ns : List String) (h : uniqueNames m) :
    (convert { setFrameFd := some ns } m).map core = (expected { setFrameFd := some ns } m).map core := by
  exact Conv.setFrameFd_main m ns h

theorem unsetFrameFd_alone (m : KMat) (ns : List String) (h : uniqueNames m) :
    (convert { unsetFrameFd := some ns } m).map core = (expected { unsetFrameFd := some ns } m).map core := by
  exact Conv.unsetFrameFd_main m ns h

theorem skipLongDlc_alone (m : KMat) (t : Nat) :
    (convert { skipLongDlc := some t } m).map core = (expected { skipLongDlc := some t } m).map core := by
  exact Conv.skipLongDlc_main m t

theorem cutLongFrames_alone (m : KMat) (t : Nat) :
    (convert { cutLongFrames := some t } m).map core = (expected { cutLongFrames := some t } m).map core := by
  exact Conv.cutLongFrames_main m t

theorem recalcDLC_alone (m : KMat) (force : Bool) :
    (convert { recalcDLC := some force } m).map core = (expected { recalcDLC := some force } m).map core := by
  exact Conv.recalcDLC_main m force

theorem deleteSignal_alone (m : KMat) (pats : List String) :
    (convert { deleteSignal := some pats } m).map core = (expected { deleteSignal := some pats } m).map core := by
  exact Conv.deleteSignal_main m pats

theorem deleteZeroSignals_alone (m : KMat) :
    (convert { deleteZeroSignals := true } m).map core = (expected { deleteZeroSignals := true } m).map core := by
  exact Conv.deleteZeroSignals_main m

theorem deleteSignalAttributes_alone (m : KMat) (ns : List String) :
    (convert { deleteSignalAttributes := some ns } m).map core = (expected { deleteSignalAttributes := some ns } m).map core := by
  exact Conv.deleteSignalAttributes_main m ns

theorem deleteFrameAttributes_alone (m : KMat) (ns : List String) :
    (convert { deleteFrameAttributes := some ns } m).map core = (expected { deleteFrameAttributes := some ns } m).map core := by
  exact Conv.deleteFrameAttributes_main m ns

theorem changeFrameId_alone (m : KMat) (ps : List (Nat × Nat)) :
    (convert { changeFrameId := some ps } m).map core = (expected { changeFrameId := some ps } m).map core := by
  exact Conv.changeFrameId_main m ps

theorem addFrameReceiver_alone (m : KMat) (ps : List (String × String)) :
    (convert { addFrameReceiver := some ps } m).map core = (expected { addFrameReceiver := some ps } m).map core := by
  exact Conv.addFrameReceiver_main m ps

/-- (the frames' own receiver lists are what a reader leaves: empty or the receivers of the signals) -/
theorem deleteObsoleteEcus_alone (m : KMat) (hf : ∀ f ∈ m.frames, f.frx = [] ∨ f.frx = frameReceivers f) :
    (convert { deleteObsoleteEcus := true } m).map core = (expected { deleteObsoleteEcus := true } m).map core := by
  exact Conv.deleteObsoleteEcus_alone_of_fresh m hf

/-- without that hypothesis the statement is false: a stale receiver list keeps an ECU alive -/
theorem deleteObsoleteEcus_needs_fresh_receiver_lists :
    ¬ ((convert { deleteObsoleteEcus := true } Conv.staleFrxEx).map core = (expected { deleteObsoleteEcus := true } Conv.staleFrxEx).map core) :=
  Conv.deleteObsoleteEcus_alone_false

/-- one exact signal name (no `*` form), signal names unique within each frame -/
theorem renameSignal_exact_alone (m : KMat) (old new : String) (h : uniqueNames m)
    (ho : old.toList.getLast? ≠ some '*' ∧ old.toList.head? ≠ some '*') :
    (convert { renameSignal := some [(old, new)] } m).map core = (expected { renameSignal := some [(old, new)] } m).map core := by
  exact Conv.renameSignal_exact_main m old new h ho

/-- one ECU pattern; ECU names unique, no ECU listed twice as sender of a frame or receiver of a signal -/
theorem deleteEcu_alone (m : KMat) (pat : String) (h : uniqueNames m)
    (hr : ∀ f ∈ m.frames, f.tx.Nodup ∧ ∀ s ∈ f.sigs, s.receivers.Nodup) :
    (convert { deleteEcu := some [pat] } m).map core = (expected { deleteEcu := some [pat] } m).map core := by
  exact Conv.deleteEcu_alone_of_nodup_refs m pat h hr

/-- without that hypothesis the statement is false: `del_ecu` removes one occurrence of a name listed twice -/
theorem deleteEcu_needs_nodup_references :
    ¬ ((convert { deleteEcu := some ["A"] } Conv.dupTxEx).map core = (expected { deleteEcu := some ["A"] } Conv.dupTxEx).map core) :=
  Conv.deleteEcu_alone_false


/-! ## any combination of the options that neither select nor rename -/

/-- the options of this theorem: everything except the selections (`ecus`, `frames`), the renames and `deleteObsoleteEcus`
(whose combination with a signal-removing option is the known finding) -/
def plainOptions (o : Opts) : Prop :=
  o.ecus = none ∧ o.frames = none ∧ o.renameEcu = none ∧ o.renameFrame = none ∧ o.renameSignal = none ∧ o.deleteObsoleteEcus = false

/-- every set of such options at once (in particular every pair): the pipeline yields exactly the documented effects,
applied in the documented order, on matrices whose names identify their objects and whose reference lists have no duplicates -/
theorem plain_options_combined (o : Opts) (m : KMat) (ho : plainOptions o) (h : uniqueNames m)
    (hr : ∀ f ∈ m.frames, f.tx.Nodup ∧ ∀ s ∈ f.sigs, s.receivers.Nodup) :
    (convert o m).map core = (expected o m).map core := by
  exact Conv.plain_options_combined_main o m ho h hr

/-! ## renaming with the `*` forms -/

/-- the pattern has its `*` (if any) only as last or only as first character, and is not the lone `*` in front of nothing -/
def plainPattern (old : String) : Prop :=
  let o := old.toList
  o ≠ [] ∧ (∀ c ∈ o.dropLast.drop 1, c ≠ '*') ∧ ¬ (o.head? = some '*' ∧ o.getLast? = some '*' ∧ 2 ≤ o.length)

/-- `rename_frame` (two independent `if`s and an `elif`) does what the documentation says for such patterns: replace the prefix,
replace the suffix, or rename the frame of exactly that name - for names without `*` (identifier-style names) -/
theorem renameFrameName_documented (old new name : String) (hp : plainPattern old) (hn : '*' ∉ name.toList) :
    renameFrameName old new name = sRenameName old new name := by
  exact Conv.renameFrameName_documented_of_noStar old new name hp hn

/-- without that hypothesis the statement is false: the exact comparison of `rename_frame` looks at the already renamed name, so a
frame called `A*` is renamed twice by the pattern `A*` -/
theorem renameFrameName_needs_star_free_names :
    renameFrameName "A*" "A" "A*" ≠ sRenameName "A*" "A" "A*" :=
  Conv.renameFrameName_documented_false

/-- `--renameFrame` alone -/
theorem renameFrame_alone (m : KMat) (old new : String) (hp : plainPattern old) (hn : ∀ f ∈ m.frames, '*' ∉ f.name.toList) :
    (convert { renameFrame := some [(old, new)] } m).map core = (expected { renameFrame := some [(old, new)] } m).map core := by
  exact Conv.renameFrame_alone_of_noStar m old new hp hn

/-- `--renameSignal` with a `*` form alone (the exact form is `renameSignal_exact_alone`) -/
theorem renameSignal_pattern_alone (m : KMat) (old new : String) (hp : plainPattern old)
    (hs : old.toList.getLast? = some '*' ∨ old.toList.head? = some '*') :
    (convert { renameSignal := some [(old, new)] } m).map core = (expected { renameSignal := some [(old, new)] } m).map core := by
  exact Conv.renameSignal_pattern_main m old new hp hs

/-! ## thresholds and lengths -/

/-- `skipLongDlc = t`: a frame stays iff its length is at most `t` (the boundary length stays) -/
theorem skipLongDlc_boundary (m r : KMat) (t : Nat) (h : convert { skipLongDlc := some t } m = some r) (f : KFrame) :
    coreF f ∈ (core r).frames ↔ (coreF f ∈ (core m).frames ∧ f.size ≤ t) := by
  exact Conv.skipLongDlc_boundary_main m r t h f

/-- `cutLongFrames = t`: a frame of at most `t` bytes is untouched; in a longer one a signal stays iff it ends within
the first `t` bytes, and the new length is the least one that holds the remaining signals -/
theorem cutLong_short_untouched (t : Nat) (f : KFrame) (h : f.size ≤ t) : cutLong t f = f := by
  exact Conv.cutLong_short t f h

theorem cutLong_long (t : Nat) (f : KFrame) (h : t < f.size) (s : KSig) :
    (s ∈ (cutLong t f).sigs ↔ (s ∈ f.sigs ∧ s.start + s.size ≤ t * 8)) ∧
    (∀ s ∈ (cutLong t f).sigs, s.start + s.size ≤ (cutLong t f).size * 8) ∧ (cutLong t f).size ≤ t := by
  exact Conv.cutLong_long_main t f h s

/-- `recalcDLC`: every signal fits into the new length; `force` gives the least such length, `max` never shortens -/
theorem recalc_fits (force : Bool) (f : KFrame) : ∀ s ∈ f.sigs, s.start + s.size ≤ (recalc force f).size * 8 := by
  exact Conv.recalc_fits_main force f

theorem recalc_force_least (f : KFrame) (n : Nat) (h : ∀ s ∈ f.sigs, s.start + s.size ≤ n * 8) : (recalc true f).size ≤ n := by
  exact Conv.recalc_force_least_main f n h

theorem recalc_max_never_shortens (f : KFrame) : f.size ≤ (recalc false f).size := by
  exact Conv.recalc_max_never_shortens_main f

/-! ## the excluded combination (known finding): the pipeline keeps an ECU the documentation says is deleted -/

def staleEx : KMat :=
  { ecus := ["A", "B"], frames := [{ name := "F", id := 1, ext := false, size := 1, tx := ["A"], sigs := [{ name := "s", start := 0, size := 1, receivers := ["B"] }] }] }

theorem obsolete_ecus_stale_witness :
    (convert { deleteSignal := some ["s"], deleteObsoleteEcus := true } staleEx).map (·.ecus) = some ["A", "B"] ∧
    (expected { deleteSignal := some ["s"], deleteObsoleteEcus := true } staleEx).map (·.ecus) = some ["A"] := by
  decide

end CanVerif.C18
