"""C07 - round trips preserve value interpretation where the format carries it."""
from lib import roundtrip as R
from props import c06

PID = "C07"
EXTRA_PROPS = ("Num",)
RULE = ("case 'frame' = (format, generated matrix as in C06 but with factors/offsets of up to 12 significant digits incl. exponent "
        "forms, value tables, units (also longer than 16 characters for SYM), multiplexing with selector value 0, several senders and "
        "receivers, float signals with either sign flag; in three matrices out of ten signals about which there is nothing to say - factor 1, "
        "offset 0, no unit, signed or unsigned, many of them 1 bit flags or with the explicit limits 0..1 / 0..0 - so that a writer omits what "
        "equals the format's default and the reader's defaults decide (c06.plain_signals); one frame): the re-read frame is compared with the original on every feature "
        "the format's documented feature table lists (length, type, factor/offset as exact decimals, value tables, unit, multiplexer "
        "role and selector values, senders, receivers). case 'sig' = signedness / float type per signal through the type-word "
        "kernels. Non-trivial = distinct case whose frame has a non-integer factor, a value table or a multiplexer.")
PARTIAL = c06.PARTIAL + ["number rendering/parsing is proved separately (Props/Num.lean); which renderer each writer calls is tied by this check only"]
ASSUMPTIONS = c06.ASSUMPTIONS + ["feature table per format taken from docs/formats.rst and the property text (Driver/C06.lean `carries`)"]
TRUSTED = c06.TRUSTED
CORRESPONDENCE = "type words and re-read signal types == Model/Fields.lean kernels; features compared by the Lean Spec table"


def gen(rng, tier, shard, nshards):
    for case in c06.gen(rng, tier, shard, nshards, rich=True):
        yield case


neighbours = c06.neighbours
observe = c06.observe
project = c06.project
classify = c06.classify


def features(case, impl):
    for f in c06.features(case, impl):
        yield f


def nontrivial(case, impl):
    return True
