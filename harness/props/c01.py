"""C01 - decoding reads exactly the convention's bits; wrong-length payloads are refused."""
import canmatrix.canmatrix as cm
from lib import frames as F

PID = "C01"
RULE = ("case = (frame of 1..64 bytes incl. every CAN FD length and odd lengths, 1..6 possibly overlapping in-frame "
        "signals of width 1..64, both byte orders, signed/unsigned, float32/64; payload random / walking one / "
        "walking zero / constant; API Frame.decode, Frame.unpack(allow_truncated, allow_exceeded), CanMatrix.decode); "
        "length cases = payload lengths 0..2*size x 4 switch combinations x plain/multiplexed/container frames. "
        "Every decode/encode is observed on objects with a history: the first use of a frame is made with its signals somewhere else "
        "(then moved into place by assignment), each call is repeated, and once more after another detour; an encode request is also "
        "made with one values dict used for several selector values. A result that depends on that history is a failure. "
        "Frames longer than 8 bytes are CAN FD frames and the next FD length above the declared one is among the payload lengths; a third of the Motorola signals are placed by set_startbit(msb number, bitNumbering=1) as a DBC reader does. One multiplexer in four is signed; 30 % of the frames carry signals with physical scaling, limits and start values; container frames with header signals and PDUs are checked against the length rule on the implementation itself (unpack with the opt-in equals unpack of the padded / cut payload). Frames with extended multiplexing (root multiplexer, nested multiplexers to depth 3 with disjoint selector ranges, signals bound by 1..2 ranges, as the DBC reader records SG_MUL_VAL_) are decoded with payloads steered along a root-to-leaf path and stand in the length cases like the other kinds. Every way into the decoder is taken for every kind of frame: Frame.decode, Frame.unpack, CanMatrix.decode, CanMatrix.decode_pycan (message object with a bytearray), CanMatrix.decode in a J1939 matrix by identifier and, for another source address, by parameter group; the frame under test stands between other frames of other lengths (one with the same number in the other identifier format); the closing sweep runs all lengths 0..2*size through each of them for plain, multiplexed, extended-multiplexed and container frames. Each payload is also handed over as a bytearray: same result, buffer unchanged. A third of all cases (random streams and exhaustive sweeps alike) use signals that carry descriptive data, which is no business of the raw codec: value tables keyed around what the payload holds in the signal's own bits (the plain bit pattern, its two's complement reading, both, their neighbours, the corners of the range, keys beyond the range), units, comments, receivers, attributes, named enumerations, comments / attributes / transmitters of the frame, value tables and attribute definitions of the matrix; container frames get tables on header and PDU signals. Non-trivial = distinct case whose payload is not constant or whose length differs from the declared one.")
PARTIAL = ["struct.unpack('>f'/'>d') (IEEE-754 conversion) is trusted: float signals are compared as bit patterns, NaN as a class",
           "PDU-container frames are modelled up to the length check only"]
ASSUMPTIONS = ["signal names unique within a frame", "placements inside the frame (start+size <= 8*len); Python's negative-index "
               "wrap-around for out-of-frame signals is outside the property's domain"]
TRUSTED = ["CPython str.format('{:08b}'), slicing and int(s,2) semantics as modelled in Model/Codec.lean", "struct module"]
CORRESPONDENCE = "Frame.decode/unpack, CanMatrix.decode == CanVerif.Frame.decode/unpack"


def gen_frame(rng, kind="plain"):
    n = rng.choice(F.ALL_LENGTHS if rng.random() < 0.7 else F.FD_LENGTHS)
    sigs = [F.rand_sig(rng, "s%d" % k, n) for k in range(rng.randint(1, 6))]
    if kind == "plain" and rng.random() < 0.05:
        sigs = []                # a frame may be declared without signals: its length is its length all the same
    fd = {"size": n, "sigs": sigs}
    if kind == "mux":
        w = rng.randint(1, min(8, 8 * n))
        mstart = rng.randint(0, 8 * n - w)
        # (a multiplexer is a signal like any other: it may be signed)
        mux = F.sigdesc("mx", mstart, w, rng.random() < 0.5, rng.random() < 0.25, False, True)
        for d in sigs:
            if rng.random() < 0.6:
                d[7] = rng.randrange(0, 1 << w)
            d[5] = False if d[2] not in (32, 64) else d[5]
        fd["sigs"] = [mux] + sigs
    elif kind == "cmux":
        fd["sigs"] = gen_cmux(rng, n, sigs)
        fd["cx"] = True
    elif kind == "container":
        fd["ct"] = True
        if rng.random() < 0.6:
            # a container with header signals and PDUs, and a payload that holds PDU headers (id 10 / 11, length 2)
            fd["ctfull"] = True
            fd["size"] = rng.choice([8, 12, 12, 16])
            fd["sigs"] = []
    if rng.random() < 0.3:
        fd["sc"] = True          # signals with physical scaling, limits and start values (no business of the raw codec)
    return fd


def gen_cmux(rng, n, leaves):
    """extended multiplexing as the DBC reader records it (SG_ M / m<v> / m<v>M + SG_MUL_VAL_): a root multiplexer, nested
    multiplexers with pairwise disjoint selector ranges per parent (depth up to 3), signals bound to one of them by 1..2
    inclusive ranges, static signals; shuffled order.  Placements are arbitrary (decoding only reads)."""
    nbits = 8 * n

    def muxer(name, wmax, signed=False, mux_val=None, grp=None, parent=None):
        w = rng.randint(1, min(wmax, nbits))
        return F.sigdesc(name, rng.randint(0, nbits - w), w, rng.random() < 0.5, signed, False, True, mux_val, grp, parent)

    def domain(d):
        lo, hi = F.raw_range(d)
        return list(range(lo, hi + 1))

    root = muxer("mx", 4, signed=rng.random() < 0.15)
    muxers = [root]
    level = [root]
    for depth in range(rng.choice([0, 1, 1, 2])):
        nxt = []
        for parent in level:
            free = domain(parent)
            rng.shuffle(free)
            for _k in range(rng.randint(0 if depth else 1, 2)):
                if not free:
                    break
                v = free.pop()
                grp = [[v, v]]
                if v + 1 in free and rng.random() < 0.3:
                    free.remove(v + 1)
                    grp = [[v, v + 1]]
                nxt.append(muxer("nx%d" % len(muxers), 3, False, v, grp, parent[0]))
                muxers.append(nxt[-1])
        level = nxt
    for d in leaves:
        if rng.random() < 0.75:
            parent = rng.choice(muxers)
            dom = domain(parent)
            grp = []
            for _k in range(rng.randint(1, 2)):
                a = rng.choice(dom)
                grp.append([a, min(dom[-1], a + rng.choice([0, 0, 1, 3]))])
            d[7], d[8], d[9] = grp[0][0], grp, parent[0]
    out = muxers + leaves
    rng.shuffle(out)
    return out


def steer(rng, fd, data):
    """write the selector values of a random root-to-leaf path into the payload (right-length payloads of multiplexed frames:
    otherwise the deeper levels are rarely selected)"""
    byname = {d[0]: d for d in fd["sigs"]}
    bound = [d for d in fd["sigs"] if d[9] is not None]
    if not bound or len(data) != fd["size"] or rng.random() < 0.3:
        return data
    data = list(data)
    d = rng.choice(bound)
    while d[9] is not None:
        a, b = rng.choice(d[8])
        v = rng.randint(a, b)
        d = byname[d[9]]
        for i, addr in enumerate(F.sig_addrs(d[3], d[1], d[2])):
            if (v >> i) & 1:
                data[addr // 8] |= 1 << (addr % 8)
            else:
                data[addr // 8] &= ~(1 << (addr % 8)) & 0xFF
    return data


# every public way into the decoder; all but "unpack" promise the refusal of a payload of another length without any opt-in
DECODE_APIS = ["decode", "mdecode", "pycan", "jdecode", "jpgn"]


def effective_payload(fd, data):
    """the bytes the signals are read from: a short payload as padded with 0xFF, a long one as cut"""
    return (list(data) + [0xFF] * max(0, fd["size"] - len(data)))[:fd["size"]]


def pattern_of(d, eff):
    """the number formed by the payload bits of signal d, read as unsigned (generator side, from the convention's addresses)"""
    u = 0
    for i, addr in enumerate(F.sig_addrs(d[3], d[1], d[2])):
        if addr // 8 < len(eff) and (eff[addr // 8] >> (addr % 8)) & 1:
            u |= 1 << i
    return u


def describe(rng, fd, data):
    """descriptive data for the signals of the case - no business of the raw codec, which reads bits whatever the signal is said to
    mean.  Value tables are keyed around what the payload holds in the signal's bits: the plain bit pattern (tables of
    enumerations are often written that way also for signals declared signed), its two's complement reading, both, neighbours,
    the corners of the range and keys beyond it.  {"vals": {signal: [[key, text], ...]}, "misc": bool}"""
    eff = effective_payload(fd, data)
    vals = {}
    for d in fd["sigs"]:
        if rng.random() < 0.25:
            continue
        n = d[2]
        u = pattern_of(d, eff)
        sgn = u - (1 << n) if u >> (n - 1) else u
        corners = [0, 1, (1 << n) - 1, (1 << n) - 2, 1 << (n - 1), (1 << (n - 1)) - 1, -1, -(1 << (n - 1))]
        k = rng.random()
        if k < 0.35:
            keys = [u] + rng.sample([u + 1, u - 1, 0, 1, (1 << n) - 1], rng.randint(0, 3))      # keyed by bit pattern
            keys = [x for x in keys if x != sgn or x == u]
        elif k < 0.5:
            keys = [sgn] + rng.sample([sgn + 1, sgn - 1, 0, -1], rng.randint(0, 2))            # keyed by the signed reading
        elif k < 0.62:
            keys = [u, sgn]
        elif k < 0.72:
            keys = [u + (1 << n), sgn - (1 << n), (1 << n) - 1 - u]                               # keys that are no value of the signal
        elif k < 0.9:
            keys = rng.sample(corners, rng.randint(1, 5))
        else:
            keys = [rng.randrange(-(1 << n), 2 << n) for _ in range(rng.randint(1, 4))]
        seen = []
        for x in keys:
            if x not in seen:
                seen.append(x)
        vals[d[0]] = [[x, "T%d" % j] for j, x in enumerate(seen)]
    return {"vals": vals, "misc": rng.random() < 0.5}


def apply_description(fr, ds, db=None):
    """hang the descriptive data on the objects under test (public setters of canmatrix)"""
    for name, table in sorted(ds.get("vals", {}).items()):
        sg = fr.signal_by_name(name)
        if sg is None:
            continue
        for key, text in table:
            sg.add_values(key, text)
    pdu_sigs = [sg for pdu in getattr(fr, "pdus", []) for sg in pdu.signals]
    if fr.is_pdu_container:
        # header and PDU signals of a container: tables over the numbers that occur there
        for sg in list(fr.signals) + pdu_sigs:
            for key in (0, 2, 10, 11, 99, 0x5A, 0xFF, (1 << sg.size) - 1):
                sg.add_values(key, "C%d" % key)
    if ds.get("misc"):
        for k, sg in enumerate(list(fr.signals) + pdu_sigs):
            sg.unit = ["", "km/h", "\u00b0C"][k % 3]
            sg.add_comment("signal %d" % k)
            sg.add_receiver("E%d" % (k % 2))
            sg.add_attribute("GenSigStartValue", str(k))
            sg.add_attribute("SigKind", "enum" if sg.values else "number")
            if sg.values:
                sg.enumeration = "VT_" + sg.name
        fr.add_comment("frame under test")
        fr.add_attribute("GenMsgCycleTime", "100")
        fr.add_transmitter("E0")
        if db is not None:
            db.add_signal_defines("GenSigStartValue", "INT 0 100")
            db.add_signal_defines("SigKind", 'ENUM "number","enum"')
            db.add_frame_defines("GenMsgCycleTime", "INT 0 65535")
            db.add_define_default("GenSigStartValue", "0")
            for sg in fr.signals:
                if sg.values:
                    db.add_value_table("VT_" + sg.name, dict(sg.values))


def gen(rng, tier, shard, nshards):
    """the streams of _gen, unchanged; a third of the cases additionally get signals that carry descriptive data (chosen by a
    generator of its own, seeded with the case, so that frames and payloads of the streams stay what they are)"""
    import random
    for case in _gen(rng, tier, shard, nshards):
        drng = random.Random("C01-describe|" + repr(sorted(case["c"].items(), key=lambda kv: kv[0])))
        if drng.random() < 0.34:
            c = case["c"]
            c["f"] = dict(c["f"], ds=describe(drng, c["f"], c["data"]))
        yield case


def _gen(rng, tier, shard, nshards):
    total = {"quick": 28000, "thorough": 560000}[tier]
    n = total // nshards
    for i in range(n):
        c = rng.random()
        if c < 0.6:
            fd = gen_frame(rng, "plain")
            data = F.rand_payload(rng, fd["size"])
            api = rng.choice(["decode", "decode", "unpack", "mdecode"])
            yield {"op": "dec", "c": {"f": fd, "data": data, "at": False, "ae": False, "api": api}}
        elif c < 0.7:
            fd = gen_frame(rng, "mux")
            data = F.rand_payload(rng, fd["size"])
            yield {"op": "dec", "c": {"f": fd, "data": data, "at": False, "ae": False, "api": rng.choice(["decode", "unpack"])}}
        elif c < 0.76:
            # frames with extended multiplexing, payload of the declared length, through every way into the decoder
            fd = gen_frame(rng, "cmux")
            data = steer(rng, fd, F.rand_payload(rng, fd["size"]))
            yield {"op": "dec", "c": {"f": fd, "data": data, "at": False, "ae": False, "api": rng.choice(DECODE_APIS + ["decode", "unpack"])}}
        elif c < 0.79:
            # the other ways into the decoder for plain and simply multiplexed frames
            fd = gen_frame(rng, rng.choice(["plain", "mux"]))
            data = F.rand_payload(rng, fd["size"])
            yield {"op": "dec", "c": {"f": fd, "data": data, "at": False, "ae": False, "api": rng.choice(["pycan", "jdecode", "jpgn"])}}
        else:
            # the length rule
            kind = rng.choice(["plain", "plain", "mux", "container", "cmux"])
            fd = gen_frame(rng, kind)
            nxt = next((x for x in F.FD_LENGTHS if x > fd["size"]), fd["size"] + 1)      # the next CAN FD length above the declared one
            ln = rng.choice([rng.randint(0, 2 * fd["size"]), fd["size"] - 1, fd["size"] + 1, fd["size"], 0, 2 * fd["size"], nxt])
            data = F.rand_payload(rng, ln) if ln else []
            if fd.get("ctfull"):
                # a sequence of contained PDUs: the two described ones and unknown ones of 1..3 bytes, then zeros
                seq = []
                for _k in range(rng.randint(1, 3)):
                    pid = rng.choice([10, 11, 99])
                    dl = 2 if pid != 99 else rng.randint(1, 3)
                    seq += [0, 0, pid, dl] + [rng.randrange(256) for _ in range(dl)]
                data = (seq + [0] * 64)[:ln]
            api = rng.choice(["unpack", "unpack", "unpack", "decode", "mdecode", rng.choice(DECODE_APIS)])
            yield {"op": "dec", "c": {"f": fd, "data": data, "at": rng.random() < 0.5, "ae": rng.random() < 0.5, "api": api}}
    if shard == 0:
        # exhaustive part: every (start,width), both orders, signed and unsigned, frames of 1 and 2 bytes
        for n in (1, 2):
            for size in range(1, 8 * n + 1):
                for start in range(0, 8 * n - size + 1):
                    for little in (False, True):
                        for signed in (False, True):
                            for data in ([0xA5, 0x3C][:n], [0xFF] * n, [0x80, 0x01][:n]):
                                yield {"op": "dec", "c": {"f": {"size": n, "sigs": [F.sigdesc("s", start, size, little, signed)]},
                                                          "data": data, "at": False, "ae": False, "api": "decode"}}
        # exhaustive length matrix for a small frame
        for kind in ("plain", "mux", "container"):
            fd = gen_frame(rng, kind)
            for ln in range(0, 2 * fd["size"] + 1):
                for at in (False, True):
                    for ae in (False, True):
                        yield {"op": "dec", "c": {"f": fd, "data": [0x5A] * ln, "at": at, "ae": ae, "api": "unpack"}}
        # ... and for every kind of frame through every way into the decoder (the refusal is promised for each of them, not only
        # for Frame.unpack): all lengths 0..2*size
        for kind in ("plain", "mux", "container", "cmux"):
            fd = gen_frame(rng, kind)
            while fd["size"] > 24:
                fd = gen_frame(rng, kind)
            for ln in range(0, 2 * fd["size"] + 1):
                for api in DECODE_APIS + (["unpack"] if kind == "cmux" else []):
                    for at, ae in ([(False, False), (True, False), (False, True), (True, True)] if api == "unpack" else [(False, False)]):
                        yield {"op": "dec", "c": {"f": fd, "data": [0x5A] * ln, "at": at, "ae": ae, "api": api}}


def neighbours(case, rng, shard, nshards):
    c = case["c"]
    for _ in range(300 // nshards + 1):
        fd = {"size": c["f"]["size"], "sigs": [list(s) for s in c["f"]["sigs"]], "cx": c["f"].get("cx", False), "ct": c["f"].get("ct", False)}
        k = rng.random()
        ln = len(c["data"])
        if k < 0.5:
            data = F.rand_payload(rng, ln) if ln else []
        else:
            ln2 = max(0, ln + rng.randint(-2, 2))
            data = F.rand_payload(rng, ln2) if ln2 else []
        for s in fd["sigs"]:
            if rng.random() < 0.3 and not s[6]:
                s[4] = not s[4]
        if c["f"].get("sc"):
            fd["sc"] = True
        if c["f"].get("ds"):
            fd["ds"] = describe(rng, fd, data)
        yield {"op": "dec", "c": {"f": fd, "data": data, "at": rng.random() < 0.5, "ae": rng.random() < 0.5, "api": c["api"]}}


class _PycanMessage(object):
    """what python-can hands over: identifier number, extended flag, payload as a bytearray"""

    def __init__(self, arbitration_id, data):
        self.arbitration_id = arbitration_id.id
        self.is_extended_id = arbitration_id.extended
        self.data = bytearray(data)
        self.dlc = len(self.data)


class _Via(object):
    """a way into the decoder that takes (identifier, payload) like CanMatrix.decode"""

    def __init__(self, db, how, other_id=None):
        self.db, self.how, self.other_id = db, how, other_id

    def decode(self, arbitration_id, data):
        if self.how == "pycan":
            return self.db.decode_pycan(_PycanMessage(arbitration_id, data))
        return self.db.decode(self.other_id or arbitration_id, data)


def build(c):
    """the frame and the callable way in.  The frame under test never stands alone in its matrix: a frame of another length with the
    next identifier and one with the same number in the other identifier format stand before and behind it."""
    api = c["api"]
    fd = c["f"]
    if api in ("jdecode", "jpgn"):
        # a matrix of a J1939 network: the frame is found by its identifier or, sent by another node, by its parameter group
        fr = F.mkframe(dict(fd, j=True), arbid=0x18FEF100 + 0x21, extended=True)
    else:
        fr = F.mkframe(fd)
    ds = fd.get("ds")
    if api in ("decode", "unpack"):
        if ds:
            apply_description(fr, ds)
        return fr, api, None
    db = cm.CanMatrix()
    if ds:
        apply_description(fr, ds, db)
    aid = fr.arbitration_id
    # (in the J1939 matrix the neighbour belongs to the next parameter group)
    db.add_frame(cm.Frame("before", arbitration_id=cm.ArbitrationId(aid.id + (0x100 if aid.extended else 1), aid.extended),
                          size=fd["size"] % 8 + 1))
    db.add_frame(fr)
    if aid.id <= 0x7FF:
        other = cm.Frame("behind", arbitration_id=cm.ArbitrationId(aid.id, not aid.extended), size=fd["size"] + 1)
        other.add_signal(cm.Signal("o", start_bit=0, size=1))
        db.add_frame(other)
    if api == "jpgn":
        return fr, "mdecode", _Via(db, "decode", cm.ArbitrationId(0x18FEF100 + 0x37, True))
    if api == "pycan":
        return fr, "mdecode", _Via(db, "pycan")
    return fr, "mdecode", db


def observe(case):
    c = case["c"]
    fr, api, db = build(c)
    r = F.observe_decode(fr, c["data"], api, c["at"], c["ae"], db)
    # the payload may come as a bytearray (python-can delivers one): same result, and the caller's buffer is left alone
    buf = bytearray(c["data"])

    def once(payload):
        try:
            if api == "unpack":
                d = fr.unpack(payload, allow_truncated=c["at"], allow_exceeded=c["ae"])
            elif api == "mdecode":
                d = db.decode(fr.arbitration_id, payload)
            else:
                d = fr.decode(payload)
        except Exception as e:  # noqa
            return "raised " + F.errname(e)
        return F._plain(d)
    if once(buf) != once(bytes(c["data"])):
        return {"err": "exc:result-differs-for-a-bytearray-payload"}
    if bytes(buf) != bytes(c["data"]):
        return {"err": "exc:the-callers-payload-buffer-was-changed"}
    return r


def project(impl):
    return impl


def features(case, impl):
    c = case["c"]
    fd = c["f"]
    yield "api=" + c["api"]
    yield "len=%d" % fd["size"] if fd["size"] in (1, 8, 12, 64) else "len=other"
    ln = len(c["data"])
    yield "payload " + ("==" if ln == fd["size"] else "<" if ln < fd["size"] else ">") + " declared"
    yield "kind=" + ("container" if fd.get("ct") else "extended-mux" if fd.get("cx") else "mux" if any(s[6] for s in fd["sigs"]) else "plain")
    if fd.get("cx"):
        yield "extended-mux: multiplexers=%d" % sum(1 for s in fd["sigs"] if s[6])
        if "ok" in impl and isinstance(impl["ok"], dict):
            yield "extended-mux: active multiplexers=%d" % sum(1 for s in fd["sigs"] if s[6] and s[0] in impl["ok"])
    yield "result=" + ("err:" + impl["err"] if "err" in impl else "ok")
    ds = fd.get("ds")
    yield "descriptive data=" + ("none" if not ds else "value tables+misc" if ds["misc"] else "value tables")
    if ds and len(c["data"]) and not fd.get("ctfull"):
        eff = effective_payload(fd, c["data"])
        for s in fd["sigs"]:
            keys = [k for k, _t in ds["vals"].get(s[0], [])]
            if keys:
                u = pattern_of(s, eff)
                sgn = u - (1 << s[2]) if u >> (s[2] - 1) else u
                yield "value table%s: %s" % ("/signed" if s[4] and not s[5] else "/float" if s[5] else "/unsigned",
                                             "both readings keyed" if u in keys and sgn in keys and u != sgn else
                                             "value keyed (non-negative)" if u in keys and u == sgn else
                                             "bit pattern keyed, signed reading not" if u in keys else
                                             "signed reading keyed, bit pattern not" if sgn in keys else "payload's value not keyed")
    for s in fd["sigs"]:
        yield "sig:%s%s%s" % ("intel" if s[3] else "motorola", "/float" if s[5] else "/signed" if s[4] else "/unsigned",
                               "/w64" if s[2] == 64 else "/w1" if s[2] == 1 else "")


def nontrivial(case, impl):
    c = case["c"]
    return len(set(c["data"])) > 1 or len(c["data"]) != c["f"]["size"]


def shrink_candidates(case):
    c = case["c"]
    fd = c["f"]
    if len(fd["sigs"]) > 1:
        for i in range(len(fd["sigs"])):
            if not fd["sigs"][i][6]:
                nf = dict(fd, sigs=fd["sigs"][:i] + fd["sigs"][i + 1:])
                yield {"op": "dec", "c": dict(c, f=nf)}
    for i, b in enumerate(c["data"]):
        if b:
            nd = list(c["data"])
            nd[i] = 0
            yield {"op": "dec", "c": dict(c, data=nd)}


def recipe(case):
    return "python: from lib import frames as F; fr=F.mkframe(case['c']['f']); fr.decode(bytes(case['c']['data'])) (see harness/props/c01.py observe)"
