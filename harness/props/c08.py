"""C08 - all start-bit notations denote the same physical bits.
K: Signal.set_startbit / get_startbit vs Model/StartBit.lean ; decode of a single-bit payload.
S: Spec/Bits.lean specGetStartbit on the implementation's results."""
import itertools

import canmatrix.canmatrix as cm

PID = "C08"
RULE = ("case = (byte order, width 1..64, position 0..511, set switches (bitNumbering in {None,0,1} x startLittle), "
        "get switches, probe bit k); thorough enumerates byte order x width x position x the 4x4 explicit switch "
        "values completely (1 048 576 set/get pairs) plus the None defaults; quick takes a seeded sample plus all "
        "widths at byte boundaries. In half of the cases the byte order is assigned after construction. The signal has a "
        "history: it stood at the position whose internal number equals the number set next and was queried there in "
        "every notation. A further stream gives the judged set/get pair a generated history of calls of the public API "
        "(key 'h' of the case): the very same set call made before (once or several times, also while the signal had "
        "another width or byte order, also on a sibling signal of the other byte order), other set calls (accepted and "
        "rejected ones), direct assignments of start_bit/size/is_little_endian in between, queries on the signal and on "
        "the sibling before the set and between the set and the judged query; the call that is judged is the LAST set "
        "and the LAST query of that history, sent to the driver in the shape of a single set/get pair, so a position "
        "before bit 0 has to be refused every time and an accepted call has to store its position whatever was asked "
        "before. A last stream varies the FORM of the calls (key 'call' of the case = [form of the set call, form of the "
        "query]): the switches given by keyword, positionally in the documented order (position, numbering, lsbit switch), "
        "the first positionally and the second by keyword, every argument by keyword in another order, and with the "
        "arguments that have their default value left out (by keyword or positionally), on set_startbit and on "
        "get_startbit, in the judged pair and in the calls of its history; all forms are the same call, so the driver "
        "gets the same set/get pair. After a refused call the width and the byte order of the signal have to be what "
        "they were, too. Non-trivial = distinct case in which the position is accepted and the signal "
        "is wider than one bit or a renumbering takes place.")
EXHAUSTIVE = {"thorough": True, "quick": False}
PARTIAL = []
ASSUMPTIONS = ["is_little_endian is a bool and startLittle is True/False/None as the readers pass them",
               "the decode observation uses a 72-byte frame so that every (position,width) of the domain lies inside it"]
TRUSTED = ["CPython int arithmetic (floor modulus) is modelled by Lean Int.emod"]
CORRESPONDENCE = "Signal.set_startbit/get_startbit == CanVerif.setStartbit/getStartbit"
FRAME_BYTES = 72

BN = [None, 0, 1]
SL = [False, True]


def mk(little, size, start, bns, sls, bng, slg, k, h=None, call=None):
    case = {"op": "sg", "c": [little, size, start, bns, sls, bng, slg, k]}
    if call and list(call) != ["kw", "kw"]:
        # the form in which the judged set call and the judged query are written (see FORMS); not sent to the driver: every form
        # is the same call
        case["call"] = list(call)
    if h:
        # history of calls before / around the judged pair; not sent to the driver (it judges the last set and the last query)
        case["h"] = h
    return case


# ---------------------------------------------------------------------------------------------------------------------
# histories.  h = {"sib": [little, size], "pre": [step...], "post": [step...]}
#   target t: 0 = the signal under test, 1 = a sibling Signal object (other object, same process)
#   ["same", t]            the very set_startbit call that is judged later (same numbers, same switches)
#   ["set", t, p, bn, sl]  another set_startbit call (may be refused; the caller catches StartbitLowerZero)
#   ["rej", t]             a call that has to be refused on a Motorola signal wider than one bit (lsbit at bit 0)
#   ["get", t, bn, sl]     a query;  ["sameget", t] the query that is judged later
#   ["pos", t, q]          start_bit assigned directly (what Frame.compress and some readers do)
#   ["size", n] / ["order", b]   width / byte order of the signal under test assigned directly; both are put back to the
#                          case's values before the judged call, so an earlier "same" was made for another width / order
# "post" runs between the judged set and the judged query and contains nothing that may move the signal under test.
# ---------------------------------------------------------------------------------------------------------------------
SIZES = [1, 2, 7, 8, 9, 12, 16, 31, 32, 33, 63, 64]

# ---------------------------------------------------------------------------------------------------------------------
# forms of a call.  set_startbit(start_bit, bitNumbering=None, startLittle=None) and get_startbit(bit_numbering=None,
# start_little=None) are public: the switches may be given by keyword or by position, and an argument that has its default value
# may be left out.  All forms below denote the same call.
#   kw       switches by keyword (the form of every stream but the last one)
#   pos      everything positionally, in the documented order
#   poskw    numbering switch positionally, lsbit switch by keyword
#   allkw    every argument by keyword (also the position), lsbit switch first
#   omit     switches that have their default value (numbering None, lsbit switch not set) left out, the others by keyword
#   omitpos  positionally as far as needed: trailing switches that have their default value left out
# A history step ["set", ...] / ["rej", t] / ["get", ...] may carry a form as an extra last element; "same" / "sameget" use the
# forms of the judged pair.
# ---------------------------------------------------------------------------------------------------------------------
FORMS = ["kw", "pos", "poskw", "allkw", "omit", "omitpos"]


def _args(form, names, first, bn, sl):
    """(args, kwargs) of a call with the optional leading argument `first` (a list), numbering switch bn and lsbit switch sl"""
    nb, nl = names
    if form == "kw":
        return first, {nb: bn, nl: sl}
    if form == "pos":
        return first + [bn, sl], {}
    if form == "poskw":
        return first + [bn], {nl: sl}
    if form == "allkw":
        kw = {nl: sl, nb: bn}
        if first:
            kw["start_bit"] = first[0]
        return [], kw
    if form == "omit":
        kw = {}
        if sl:
            kw[nl] = sl
        if bn is not None:
            kw[nb] = bn
        return first, kw
    if form == "omitpos":
        return first + ([bn, sl] if sl else [bn] if bn is not None else []), {}
    raise ValueError("unknown form of a call %r" % (form,))


SET_NAMES = ("bitNumbering", "startLittle")
GET_NAMES = ("bit_numbering", "start_little")


def call_set(sig, start, bn, sl, form="kw"):
    a, kw = _args(form, SET_NAMES, [start], bn, sl)
    return sig.set_startbit(*a, **kw)


def call_get(sig, bn, sl, form="kw"):
    a, kw = _args(form, GET_NAMES, [], bn, sl)
    return sig.get_startbit(*a, **kw)


def _src(form, names, first, bn, sl):
    a, kw = _args(form, names, first, bn, sl)
    return ",".join(["%r" % x for x in a] + ["%s=%r" % it for it in kw.items()])


def with_forms(rng, h):
    """the other calls of a history are written in generated forms, too"""
    def f(st):
        if st[0] in ("set", "get", "rej") and rng.random() < 0.7:
            return st + [rng.choice(FORMS)]
        return st
    return {"sib": h["sib"], "pre": [f(st) for st in h["pre"]], "post": [f(st) for st in h["post"]]}


def pick_call(rng):
    r = rng.random()
    if r < 0.6:
        return [rng.choice(FORMS[1:]), rng.choice(FORMS)]
    if r < 0.8:
        return ["kw", rng.choice(FORMS[1:])]
    f = rng.choice(FORMS[1:])
    return [f, f]


def form_case(rng):
    """a set/get pair written in a generated form, half of them inside a history of calls"""
    little = rng.random() < 0.35
    size = rng.choice(SIZES + [rng.randint(1, 64)])
    start = rng.choice([rng.randint(0, 511), rng.randint(0, 70), rng.randint(0, max(0, size - 1)), 8 * rng.randint(0, 63) + 7])
    bns, sls = rng.choice(BN), rng.random() < 0.6
    bng, slg = rng.choice(BN), rng.choice(SL)
    h = with_forms(rng, rand_hist(rng, little, size, start)) if rng.random() < 0.5 else None
    return mk(little, size, start, bns, sls, bng, slg, pick_k(rng, start, size), h, pick_call(rng))


def rand_hist(rng, little, size, start):
    sib = [rng.random() < (0.3 if not little else 0.7), size if rng.random() < 0.7 else rng.choice(SIZES)]
    pre = []
    for _ in range(rng.choice([1, 1, 2, 2, 3, 4])):
        r = rng.random()
        if r < 0.34:
            pre.append(["same", 0])
        elif r < 0.44:
            pre.append(["same", 1])
        elif r < 0.56:
            pre.append(["set", rng.choice([0, 0, 1]), rng.choice([rng.randint(0, 70), rng.randint(0, 511)]), rng.choice(BN), rng.choice(SL)])
        elif r < 0.62:
            pre.append(["rej", rng.choice([0, 0, 1])])
        elif r < 0.74:
            pre.append(["pos", rng.choice([0, 0, 0, 1]), rng.choice([0, start, rng.randint(0, 511)])])
        elif r < 0.82:
            pre.append(["size", rng.choice(SIZES)])
        elif r < 0.88:
            pre.append(["order", rng.random() < 0.5])
        elif r < 0.94:
            pre.append(["get", rng.choice([0, 1]), rng.choice(BN), rng.choice(SL)])
        else:
            pre.append(["sameget", rng.choice([0, 1])])
    if rng.random() < 0.5 and not any(st[0] == "same" for st in pre):
        pre.insert(rng.randint(0, len(pre)), ["same", 0])
    if rng.random() < 0.35:
        # the same call once more right before the judged one, after whatever happened in between
        pre.append(["same", 0])
    post = []
    for _ in range(rng.choice([0, 0, 1, 2, 3])):
        r = rng.random()
        if r < 0.2:
            post.append(["same", rng.choice([0, 1])])
        elif r < 0.35:
            post.append(["rej", rng.choice([0, 1])])
        elif r < 0.5:
            post.append(["set", 1, rng.choice([start, rng.randint(0, 511)]), rng.choice(BN), rng.choice(SL)])
        elif r < 0.6:
            post.append(["pos", 1, rng.choice([start, rng.randint(0, 511)])])
        elif r < 0.8:
            post.append(["get", rng.choice([0, 1]), rng.choice(BN), rng.choice(SL)])
        else:
            post.append(["sameget", rng.choice([0, 1])])
    return {"sib": sib, "pre": pre, "post": post}


def hist_case(rng):
    little = rng.random() < 0.3
    size = rng.choice(SIZES + [rng.randint(1, 64)])
    # half of the positions so near bit 0 that a Motorola lsbit position may leave no room for the bits in front of it
    start = rng.choice([rng.randint(0, 511), rng.randint(0, 70), rng.randint(0, max(0, size - 1)), rng.randint(0, 15)])
    bns = rng.choice(BN)
    sls = rng.random() < 0.7
    return mk(little, size, start, bns, sls, rng.choice(BN), rng.choice(SL), pick_k(rng, start, size),
              rand_hist(rng, little, size, start))


def pick_k(rng, start, size):
    lo = max(0, start - 70)
    return rng.randint(lo, min(FRAME_BYTES * 8 - 1, start + 80))


def gen(rng, tier, shard, nshards):
    if tier == "thorough":
        # complete enumeration of the explicit switch values, sharded by position
        for start in range(shard, 512, nshards):
            for little in (False, True):
                for size in range(1, 65):
                    for bns in (0, 1):
                        for sls in SL:
                            for bng in (0, 1):
                                for slg in SL:
                                    yield mk(little, size, start, bns, sls, bng, slg, pick_k(rng, start, size))
                    # None defaults (set and get), sampled
                    for bns, sls, bng, slg in ((None, False, None, False), (None, True, None, True),
                                               (None, False, 1, True), (0, True, None, False), (None, None, None, None)):
                        yield mk(little, size, start, bns, bool(sls), bng, bool(slg), pick_k(rng, start, size))
        # every place once more, reached through a history of calls (sampled switches, generated history)
        for start in range(shard, 512, nshards):
            for little in (False, True):
                for size in range(1, 65):
                    bns, sls = rng.choice(BN), rng.random() < 0.7
                    yield mk(little, size, start, bns, sls, rng.choice(BN), rng.choice(SL), pick_k(rng, start, size),
                             rand_hist(rng, little, size, start))
        for _ in range(40000 // nshards):
            yield hist_case(rng)
        # every place once more with the calls written in another form (form cycles through the places, switches sampled)
        j = 0
        for start in range(shard, 512, nshards):
            for little in (False, True):
                for size in range(1, 65):
                    fs, fg = FORMS[1 + j % 5], FORMS[(j // 5) % 6]
                    j += 1
                    yield mk(little, size, start, rng.choice(BN), rng.random() < 0.7, rng.choice(BN), rng.choice(SL),
                             pick_k(rng, start, size), None, [fs, fg])
        for _ in range(60000 // nshards):
            yield form_case(rng)
    else:
        n = 60000 // nshards
        for _ in range(n):
            little = rng.random() < 0.4
            size = rng.choice([1, 2, 7, 8, 9, 12, 16, 31, 32, 33, 63, 64, rng.randint(1, 64)])
            start = rng.choice([rng.randint(0, 511), rng.randint(0, 70), 8 * rng.randint(0, 63), 8 * rng.randint(0, 63) + 7])
            yield mk(little, size, start, rng.choice(BN), rng.choice(SL), rng.choice(BN), rng.choice(SL),
                     pick_k(rng, start, size))
        if shard == 0:
            for little in (False, True):
                for size in range(1, 65):
                    for start in (0, 7, 8, 15, 56, 63, 64, 504, 511):
                        for bns, bng in itertools.product(BN, BN):
                            yield mk(little, size, start, bns, True, bng, False, pick_k(rng, start, size))
        # histories of calls around the judged pair (own PRNG use after the streams above: their cases stay what they were)
        for _ in range(16000 // nshards):
            yield hist_case(rng)
        # the calls written in other forms (positional switches, defaults left out, ...), with and without a history
        for _ in range(16000 // nshards):
            yield form_case(rng)
        if shard == 1 % nshards:
            # every form of the set call x every form of the query, at byte boundaries, both byte orders, lsbit and msbit positions
            for fs, fg in itertools.product(FORMS, FORMS):
                for little in (False, True):
                    for size in (1, 8, 12, 33):
                        for start in (7, 8, 63, 300):
                            for bns, sls in itertools.product(BN, SL):
                                yield mk(little, size, start, bns, sls, rng.choice(BN), rng.choice(SL),
                                         pick_k(rng, start, size), None, [fs, fg])


def neighbours(case, rng, shard, nshards):
    little, size, start, bns, sls, bng, slg, k = case["c"]
    h = case.get("h")
    call = case.get("call")
    for _ in range(400 // nshards + 1):
        size2 = max(1, min(64, size + rng.randint(-2, 2)))
        start2 = max(0, min(511, start + rng.randint(-9, 9)))
        # a disagreement may stem from what happened before: keep the history, drop it, or draw another one
        r = rng.random()
        h2 = h if r < 0.4 else (None if r < 0.6 else rand_hist(rng, little, size2, start2))
        # ... or from the form in which the call was written
        call2 = call if call and rng.random() < 0.7 else (pick_call(rng) if call or rng.random() < 0.3 else None)
        if call2 and h2 is not None and h2 is not h:
            h2 = with_forms(rng, h2)
        yield mk(little, size2, start2,
                 rng.choice(BN), rng.choice(SL), rng.choice(BN), rng.choice(SL), pick_k(rng, start, size), h2, call2)


def _try_set(sig, start, bn, sl, form="kw"):
    """a caller that catches the declared error, as the importers do"""
    try:
        call_set(sig, start, bn, sl, form)
        return True
    except cm.StartbitLowerZero:
        return False


def _run_steps(steps, sigs, c, call=("kw", "kw")):
    little, size, start, bns, sls, bng, slg, k = c
    for st in steps:
        kind = st[0]
        if kind == "same":
            _try_set(sigs[st[1]], start, bns, sls, call[0])
        elif kind == "set":
            _try_set(sigs[st[1]], st[2], st[3], st[4], st[5] if len(st) > 5 else "kw")
        elif kind == "rej":
            # lsbit at bit 0 of a Motorola signal wider than one bit: no room for the bits in front of it.  On any other signal
            # the call would be a legitimate move to bit 0, which is not what this step is for: left out there
            if sigs[st[1]].is_little_endian is False and sigs[st[1]].size >= 2:
                _try_set(sigs[st[1]], 0, False, True, st[2] if len(st) > 2 else "kw")
        elif kind == "get":
            call_get(sigs[st[1]], st[2], st[3], st[4] if len(st) > 4 else "kw")
        elif kind == "sameget":
            call_get(sigs[st[1]], bng, slg, call[1])
        elif kind == "pos":
            sigs[st[1]].start_bit = st[2]
        elif kind == "size":
            sigs[0].size = st[1]
        elif kind == "order":
            sigs[0].is_little_endian = st[1]
        else:
            raise ValueError("unknown history step %r" % (st,))


def observe(case):
    little, size, start, bns, sls, bng, slg, k = case["c"]
    if (k // 2) % 2 == 0:
        sig = cm.Signal("s", size=size, is_little_endian=little, is_signed=False)
    else:
        # the byte order is assigned after construction (as some readers do)
        sig = cm.Signal("s", size=size, is_little_endian=not little, is_signed=False)
        sig.is_little_endian = little
    # the signal has a history: it stood at the position whose internal number equals the number that is set next, and it was
    # queried there in every notation (what is set and queried afterwards must not remember that)
    prior = start if k % 2 == 0 else 0
    sig.start_bit = prior
    for bn0 in BN:
        for sl0 in SL:
            sig.get_startbit(bit_numbering=bn0, start_little=sl0)
    h = case.get("h")
    call = case.get("call") or ["kw", "kw"]
    sigs = None
    if h:
        # the judged pair is the last set and the last query of a longer history of calls (on this object and on a sibling)
        sib = cm.Signal("t", size=h["sib"][1], is_little_endian=h["sib"][0], is_signed=False)
        sigs = [sig, sib]
        _run_steps(h["pre"], sigs, case["c"], call)
        sig.size = size
        sig.is_little_endian = little
        prior = sig.start_bit
    try:
        call_set(sig, start, bns, sls, call[0])
    except cm.StartbitLowerZero:
        # nothing may have been stored: neither a position nor anything else the call touches
        stored = 0
        if sig.start_bit != prior:
            stored = "changed to %r" % (sig.start_bit,)
        elif sig.size != size or type(sig.size) is not int or sig.is_little_endian is not little:
            stored = "width / byte order changed to %r / %r" % (sig.size, sig.is_little_endian)
        return {"set": None, "get": None, "dec": None, "stored": stored}
    internal = sig.start_bit
    if h:
        # nothing in here may move the signal under test: queries, the same call again, refused calls, work on the sibling
        _run_steps(h["post"], sigs, case["c"], call)
    got = call_get(sig, bng, slg, call[1])
    dec = None
    if internal >= 0 and internal + size <= FRAME_BYTES * 8:
        fr = cm.Frame("f", arbitration_id=cm.ArbitrationId(1, False), size=FRAME_BYTES)
        fr.add_signal(sig)
        payload = bytearray(FRAME_BYTES)
        payload[k // 8] |= 1 << (k % 8)
        dec = fr.decode(bytes(payload))["s"].raw_value
    return {"set": internal, "get": got, "dec": dec}


def project(impl):
    return {"set": impl.get("set"), "get": impl.get("get"), "dec": impl.get("dec")}


def features(case, impl):
    little, size, start, bns, sls, bng, slg, k = case["c"]
    yield "order=" + ("intel" if little else "motorola")
    yield "set=%s/%s get=%s/%s" % (bns, int(sls), bng, int(slg))
    yield "rejected" if impl.get("set") is None else "accepted"
    if impl.get("dec"):
        yield "probe-bit-inside-signal"
    call = case.get("call")
    if call:
        yield "form of the set call: " + call[0]
        yield "form of the query: " + call[1]
        if call[0] in ("pos", "omitpos") and sls:
            yield "form: lsbit switch of set_startbit given positionally"
    h = case.get("h")
    if h:
        yield "history"
        sames = sum(1 for st in h["pre"] if st == ["same", 0])
        if sames:
            yield "history: same call made before" + (" (refused every time)" if impl.get("set") is None else "")
        if sames > 1:
            yield "history: same call made before more than once"
        for st in h["pre"]:
            yield "history: pre " + st[0] + (" on sibling" if st[0] not in ("size", "order") and st[1] == 1 else "")
        for st in h["post"]:
            yield "history: post " + st[0] + (" on sibling" if st[1] == 1 else "")


def nontrivial(case, impl):
    little, size, start, bns, sls, bng, slg, k = case["c"]
    return impl.get("set") is not None and (size > 1 or bns is not None or bng is not None)


def shrink_candidates(case):
    little, size, start, bns, sls, bng, slg, k = case["c"]
    h = case.get("h")
    call = case.get("call")
    if h:
        yield mk(little, size, start, bns, sls, bng, slg, k, None, call)
        for part in ("post", "pre"):
            for j in range(len(h[part])):
                h2 = dict(h)
                h2[part] = h[part][:j] + h[part][j + 1:]
                yield mk(little, size, start, bns, sls, bng, slg, k, h2 if h2["pre"] or h2["post"] else None, call)
    if call:
        # the plain form of the query, of the set call, of both
        for c2 in (["kw", "kw"], [call[0], "kw"], ["kw", call[1]]):
            if c2 != call:
                yield mk(little, size, start, bns, sls, bng, slg, k, h, c2)
    if size > 1:
        yield mk(little, size - 1, start, bns, sls, bng, slg, k, h, call)
    if start > 0:
        yield mk(little, size, start - 1, bns, sls, bng, slg, k, h, call)
        yield mk(little, size, start // 2, bns, sls, bng, slg, k, h, call)


def recipe(case):
    little, size, start, bns, sls, bng, slg, k = case["c"]
    h = case.get("h")
    call = case.get("call") or ["kw", "kw"]
    judged_set = "s.set_startbit(%s)" % _src(call[0], SET_NAMES, [start], bns, sls)
    judged_get = "s.get_startbit(%s)" % _src(call[1], GET_NAMES, [], bng, slg)
    if not h:
        return ("import canmatrix.canmatrix as cm; s=cm.Signal('s',size=%d,is_little_endian=%s,is_signed=False); "
                "%s; print(s.start_bit, s.size, %s)" % (size, little, judged_set, judged_get))
    names = ["s", "t"]

    def lines(steps):
        for st in steps:
            if st[0] in ("same", "set", "rej"):
                if st[0] == "same":
                    a, f = (start, bns, sls), call[0]
                elif st[0] == "rej":
                    a, f = (0, False, True), (st[2] if len(st) > 2 else "kw")
                else:
                    a, f = tuple(st[2:5]), (st[5] if len(st) > 5 else "kw")
                yield "try: %s.set_startbit(%s)\nexcept cm.StartbitLowerZero: print('refused')" % (
                    names[st[1]], _src(f, SET_NAMES, [a[0]], a[1], a[2]))
            elif st[0] in ("get", "sameget"):
                a, f = ((bng, slg), call[1]) if st[0] == "sameget" else (tuple(st[2:4]), st[4] if len(st) > 4 else "kw")
                yield "%s.get_startbit(%s)" % (names[st[1]], _src(f, GET_NAMES, [], a[0], a[1]))
            elif st[0] == "pos":
                yield "%s.start_bit=%d" % (names[st[1]], st[2])
            elif st[0] == "size":
                yield "s.size=%d" % st[1]
            elif st[0] == "order":
                yield "s.is_little_endian=%r" % st[1]
    out = ["import canmatrix.canmatrix as cm",
           "s=cm.Signal('s',size=%d,is_little_endian=%s,is_signed=False)" % (size, little),
           "t=cm.Signal('t',size=%d,is_little_endian=%s,is_signed=False)" % (h["sib"][1], h["sib"][0])]
    out += list(lines(h["pre"]))
    out += ["s.size=%d; s.is_little_endian=%s" % (size, little),
            judged_set + "  # judged: refused with StartbitLowerZero or stored"]
    out += list(lines(h["post"]))
    out += ["print(s.start_bit, s.size, %s)" % judged_get]
    return "\n".join(out)
