import CanVerif.Proofs.DbcMatrix
/-!
# The core round trip of a DBC file at the level of the whole reader (Model/DbcFile.lean): frames, signals, senders, comments.
Sections of the file are folds over the frames; a frame only sees the statements written for it (`sec_fold`), and the statements of a
frame turn the frame the frame section built into the frame that was written (`per_frame`).
-/
namespace CanVerif.Dbc.FileProofs
open CanVerif CanVerif.Dbc

/-- the item a file statement stands for -/
def FileStmt.toItem : FileStmt → Option Item
  | .one s => s.item
  | .cm h text => some (.cm h text)

theorem apply_eq_items (fs : List FileStmt) (m : RMatrix) :
    fs.foldl FileStmt.apply m = (fs.filterMap FileStmt.toItem).foldl applyItem m := by
  induction fs generalizing m with
  | nil => rfl
  | cons f fs ih =>
    simp only [List.foldl_cons, List.filterMap_cons]
    cases f with
    | one s =>
      simp only [FileStmt.apply, applyStmt, FileStmt.toItem]
      cases hs : s.item with
      | none => simp only; exact ih m
      | some it => simp only [List.foldl_cons]; exact ih _
    | cm h text => simp only [FileStmt.apply, FileStmt.toItem, List.foldl_cons]; exact ih _

/-- an update for another identifier leaves the frame alone -/
theorem itemUpd_other (it : Item) (n : Nat) (g : RFrame → RFrame) (f : RFrame) (h : itemFrameUpd it = some (n, g))
    (hk : keyOfCompound n ≠ some f.key) : itemUpd it f = f := by
  simp only [itemUpd, h, updByNumber]
  have : (keyOfCompound n == some f.key) = false := by simpa using hk
  simp [this]

theorem itemUpd_hit (it : Item) (n : Nat) (g : RFrame → RFrame) (f : RFrame) (h : itemFrameUpd it = some (n, g))
    (hk : keyOfCompound n = some f.key) : itemUpd it f = g f := by
  simp [itemUpd, h, updByNumber, hk]

/-- the number a statement about a frame or a signal carries -/
def itemNumber (it : Item) : Option Nat := (itemFrameUpd it).map (·.1)

theorem fold_skip (its : List Item) (f : RFrame)
    (h : ∀ it ∈ its, ∃ n g, itemFrameUpd it = some (n, g) ∧ keyOfCompound n ≠ some f.key) :
    its.foldl (fun acc it => itemUpd it acc) f = f := by
  induction its with
  | nil => rfl
  | cons it its ih =>
    obtain ⟨n, g, hg, hk⟩ := h it (by simp)
    simp only [List.foldl_cons]
    rw [itemUpd_other it n g f hg hk]
    exact ih (fun x hx => h x (List.mem_cons_of_mem _ hx))

theorem fold_key (its : List Item) (f : RFrame) : (its.foldl (fun acc it => itemUpd it acc) f).key = f.key := by
  induction its generalizing f with
  | nil => rfl
  | cons it its ih => simp only [List.foldl_cons]; rw [ih, itemUpd_key]

/-- one section of the file (the statements of one kind for all frames, frame by frame): a frame only sees the statements written for it -/
theorem sec_fold (sec : WFrame → List Item)
    (hsec : ∀ f it, it ∈ sec f → ∃ g, itemFrameUpd it = some (f.bo.id, g))
    (ps : List (WFrame × (Nat × Bool))) (hnum : ∀ p ∈ ps, keyOfCompound p.1.bo.id = some p.2)
    (hdist : ps.Pairwise fun p q => p.2 ≠ q.2) (p : WFrame × (Nat × Bool)) (hp : p ∈ ps) (a : RFrame) (ha : a.key = p.2) :
    (ps.flatMap fun q => sec q.1).foldl (fun acc it => itemUpd it acc) a = (sec p.1).foldl (fun acc it => itemUpd it acc) a := by
  induction ps generalizing a with
  | nil => simp at hp
  | cons q rest ih =>
    rw [List.pairwise_cons] at hdist
    simp only [List.flatMap_cons, List.foldl_append]
    rcases List.mem_cons.mp hp with rfl | hp'
    · -- the frame's own statements come first, the others are skipped
      apply fold_skip
      intro it hit
      obtain ⟨r, hr, hir⟩ := List.mem_flatMap.mp hit
      obtain ⟨g, hg⟩ := hsec r.1 it hir
      refine ⟨_, g, hg, ?_⟩
      rw [hnum r (List.mem_cons_of_mem _ hr), fold_key, ha]
      intro e; injection e with e
      exact hdist.1 r hr e.symm
    · have hskip : (sec q.1).foldl (fun acc it => itemUpd it acc) a = a := by
        apply fold_skip
        intro it hit
        obtain ⟨g, hg⟩ := hsec q.1 it hit
        refine ⟨_, g, hg, ?_⟩
        rw [hnum q (by simp), ha]
        intro e; injection e with e
        exact hdist.1 p hp' e
      rw [hskip]
      exact ih (fun r hr => hnum r (List.mem_cons_of_mem _ hr)) hdist.2 hp' a ha

def txItems (f : WFrame) : List Item := if f.moreSenders.isEmpty then [] else [.tx ⟨f.bo.id, f.senders⟩]
def cmItems (f : WFrame) : List Item := match f.comment with | some c => [.cm (.bo f.bo.id) c] | none => []
def sigCmItems (f : WFrame) : List Item := f.sigs.filterMap fun s => s.comment.map fun c => Item.cm (.sg f.bo.id s.sg.name) c

theorem txItems_eq (f : WFrame) : f.txStmts.filterMap FileStmt.toItem = txItems f := by
  unfold WFrame.txStmts txItems; split <;> rfl
theorem cmItems_eq (f : WFrame) : f.cmStmts.filterMap FileStmt.toItem = cmItems f := by
  unfold WFrame.cmStmts cmItems; cases f.comment <;> rfl
theorem sigCmItems_eq (f : WFrame) : f.sigCmStmts.filterMap FileStmt.toItem = sigCmItems f := by
  unfold WFrame.sigCmStmts sigCmItems
  rw [List.filterMap_filterMap]
  congr 1
  funext s
  cases s.comment <;> rfl

/-- the senders -/
theorem tx_section (f : WFrame) (a : RFrame) (hk : keyOfCompound f.bo.id = some a.key) (ht : a.transmitters = [f.bo.transmitter])
    (hnd : f.senders.Nodup) :
    (txItems f).foldl (fun acc it => itemUpd it acc) a = { a with transmitters := f.senders } := by
  unfold txItems
  split
  · rename_i he
    have : f.moreSenders = [] := by simpa using he
    simp only [List.foldl_nil, WFrame.senders, this]
    cases a; simp_all
  · simp only [List.foldl_cons, List.foldl_nil]
    rw [itemUpd_hit _ f.bo.id _ a rfl hk]
    simp only [ht]
    rw [show addTransmitters [f.bo.transmitter] f.senders = f.senders from
      StmtProofs.addTransmitters_after_first f.bo.transmitter f.moreSenders hnd]

/-- the comment of the frame -/
theorem cm_section (f : WFrame) (a : RFrame) (hk : keyOfCompound f.bo.id = some a.key) (hc : a.comment = none) :
    (cmItems f).foldl (fun acc it => itemUpd it acc) a = { a with comment := f.comment } := by
  unfold cmItems
  cases hcm : f.comment with
  | none => simp only [List.foldl_nil]; cases a; simp_all
  | some c =>
    simp only [List.foldl_cons, List.foldl_nil]
    rw [itemUpd_hit _ f.bo.id _ a rfl hk]

/-- the stages a signal goes through: as the frame section builds it, with its comment, with its value table -/
def plainSig (s : WSig) : RSig := { sg := rereadSg s.sg }
def cmSig (s : WSig) : RSig := { sg := rereadSg s.sg, comment := s.comment }
def valSig (s : WSig) : RSig := { sg := rereadSg s.sg, comment := s.comment, values := s.values }
def ftSig (s : WSig) : RSig := { sg := rereadSg s.sg, comment := s.comment, values := s.values, isFloat := s.isFloat }
def fullSig (s : WSig) : RSig :=
  { sg := rereadSg s.sg, comment := s.comment, values := s.values, isFloat := s.isFloat, muxer := s.muxer, ranges := s.ranges }

theorem modifyAt_mid {α} (l1 l2 : List α) (x : α) (g : α → α) : modifyAt (l1 ++ x :: l2) l1.length g = l1 ++ g x :: l2 := by
  induction l1 with
  | nil => rfl
  | cons y r ih => simp [modifyAt, ih]

theorem rereadSg_name (s : SgLine) : (rereadSg s).name = s.name := rfl

theorem namesUnique_of (a : RFrame) (names : List Str) (h : a.sigs.map (·.sg.name) = names) (hnd : names.Nodup) : NamesUnique a := by
  unfold NamesUnique
  have : (a.sigs.map (·.sg.name)).Pairwise (· ≠ ·) := by rw [h]; exact hnd
  rwa [List.pairwise_map] at this

/-- one section of statements about the signals of one frame (comments, value tables): every signal that has a statement goes from its
stage `pre` to its stage `post`, found by its name -/
theorem sigsec_fold (n : Nat) (mk : WSig → Option Item) (g : WSig → RSig → RSig) (pre post : WSig → RSig)
    (hmk : ∀ s it, mk s = some it → itemFrameUpd it = some (n, modSigByName s.sg.name (g s)))
    (hnone : ∀ s, mk s = none → post s = pre s) (P : WSig → Prop) (hsome : ∀ s it, P s → mk s = some it → g s (pre s) = post s)
    (hpre : ∀ s, (pre s).sg.name = s.sg.name) (hpost : ∀ s, (post s).sg.name = s.sg.name)
    (todo done : List WSig) (hP : ∀ s ∈ todo, P s) (a : RFrame) (hk : keyOfCompound n = some a.key)
    (hs : a.sigs = done.map post ++ todo.map pre) (hnd : ((done ++ todo).map (·.sg.name)).Nodup) :
    (todo.filterMap mk).foldl (fun acc it => itemUpd it acc) a = { a with sigs := (done ++ todo).map post } := by
  induction todo generalizing done a with
  | nil =>
    simp only [List.filterMap_nil, List.foldl_nil, List.append_nil]
    simp only [List.map_nil, List.append_nil] at hs
    cases a; simp_all
  | cons s rest ih =>
    cases hc : mk s with
    | none =>
      simp only [List.filterMap_cons, hc]
      have := ih (done ++ [s]) (fun x hx => hP x (List.mem_cons_of_mem _ hx)) a hk (by rw [hs]; simp [hnone s hc]) (by simpa using hnd)
      simpa using this
    | some it =>
      simp only [List.filterMap_cons, hc, List.foldl_cons]
      rw [itemUpd_hit _ n _ a (hmk s it hc) hk]
      have hnames : a.sigs.map (·.sg.name) = (done ++ s :: rest).map (·.sg.name) := by
        rw [hs]
        have e1 : ∀ l : List WSig, l.map (fun x => (post x).sg.name) = l.map (·.sg.name) := fun l => List.map_congr_left (fun x _ => hpost x)
        have e2 : ∀ l : List WSig, l.map (fun x => (pre x).sg.name) = l.map (·.sg.name) := fun l => List.map_congr_left (fun x _ => hpre x)
        simp only [List.map_append, List.map_map, List.map_cons, Function.comp_def]
        rw [e1, e2, hpre]
      have hget : a.sigs[done.length]? = some (pre s) := by
        rw [hs]; simp
      have hidx : sigIdx a s.sg.name = some done.length := by
        have := lookup_signal a (namesUnique_of a _ hnames hnd) done.length (pre s) hget
        rwa [hpre] at this
      have hmod : modSigByName s.sg.name (g s) a = { a with sigs := (done ++ [s]).map post ++ rest.map pre } := by
        unfold modSigByName
        rw [hidx]
        simp only [RFrame.modSig, hs]
        have e : done.map post ++ (s :: rest).map pre = done.map post ++ pre s :: rest.map pre := by simp
        have hl : done.length = (done.map post).length := by simp
        rw [e, hl, modifyAt_mid, hsome s it (hP s (by simp)) hc]
        simp
      rw [hmod]
      have := ih (done ++ [s]) (fun x hx => hP x (List.mem_cons_of_mem _ hx))
        { a with sigs := (done ++ [s]).map post ++ rest.map pre } hk rfl (by simpa using hnd)
      simpa using this

def sigCmItem (n : Nat) (s : WSig) : Option Item := s.comment.map fun c => Item.cm (.sg n s.sg.name) c
def valItem (n : Nat) (s : WSig) : Option Item := if s.values.isEmpty then none else some (.val ⟨n, s.sg.name, s.values⟩)
def valItems (f : WFrame) : List Item := f.sigs.filterMap (valItem f.bo.id)

theorem valItems_eq (f : WFrame) : f.valStmts.filterMap FileStmt.toItem = valItems f := by
  unfold WFrame.valStmts valItems
  rw [List.filterMap_filterMap]
  congr 1
  funext s
  simp only [valItem]
  split <;> rfl

def valtypeItem (n : Nat) (s : WSig) : Option Item := if s.isFloat then some (.valtype n s.sg.name) else none
def valtypeItems (f : WFrame) : List Item := f.sigs.filterMap (valtypeItem f.bo.id)
def grpItems (f : WFrame) : List Item := f.groups.map fun g => .grp ⟨f.bo.id, g.name, g.id, g.members⟩
def mulItem (n : Nat) (s : WSig) : Option Item := s.muxer.map fun mx => .mul ⟨n, s.sg.name, mx, s.ranges⟩
def mulItems (f : WFrame) : List Item := f.sigs.filterMap (mulItem f.bo.id)

theorem valtypeItems_eq (f : WFrame) : f.valtypeStmts.filterMap FileStmt.toItem = valtypeItems f := by
  unfold WFrame.valtypeStmts valtypeItems
  rw [List.filterMap_filterMap]
  congr 1
  funext s
  simp only [valtypeItem]
  split <;> rfl

theorem grpItems_eq (f : WFrame) : f.grpStmts.filterMap FileStmt.toItem = grpItems f := by
  unfold WFrame.grpStmts grpItems
  rw [List.filterMap_map]
  rw [show (FileStmt.toItem ∘ fun g : RGroup => FileStmt.one (Stmt.grp ⟨f.bo.id, g.name, g.id, g.members⟩)) =
    fun g => some (Item.grp ⟨f.bo.id, g.name, g.id, g.members⟩) from rfl]
  induction f.groups with
  | nil => rfl
  | cons g r ih => simp [List.filterMap_cons, ih]

theorem mulItems_eq (f : WFrame) : f.mulStmts.filterMap FileStmt.toItem = mulItems f := by
  unfold WFrame.mulStmts mulItems
  rw [List.filterMap_filterMap]
  congr 1
  funext s
  simp only [mulItem]
  cases s.muxer <;> rfl

/-- the bindings of extended multiplexing of one frame: like `sigsec_fold`, and the frame becomes one with extended multiplexing as soon as
one binding is read -/
theorem mulsec_fold (n : Nat) (todo done : List WSig) (a : RFrame) (hk : keyOfCompound n = some a.key)
    (hs : a.sigs = done.map fullSig ++ todo.map ftSig) (hnd : ((done ++ todo).map (·.sg.name)).Nodup)
    (hr : ∀ s ∈ todo, s.muxer = none → s.ranges = []) :
    (todo.filterMap (mulItem n)).foldl (fun acc it => itemUpd it acc) a =
      { a with sigs := (done ++ todo).map fullSig, complexMux := a.complexMux || todo.any fun s => s.muxer.isSome } := by
  induction todo generalizing done a with
  | nil =>
    simp only [List.filterMap_nil, List.foldl_nil, List.append_nil, List.any_nil, Bool.or_false]
    simp only [List.map_nil, List.append_nil] at hs
    cases a; simp_all
  | cons s rest ih =>
    cases hc : s.muxer with
    | none =>
      simp only [List.filterMap_cons, mulItem, hc, Option.map_none]
      have hfp : fullSig s = ftSig s := by simp [fullSig, ftSig, hc, hr s (by simp) hc]
      have := ih (done ++ [s]) a hk (by rw [hs]; simp [hfp]) (by simpa using hnd) (fun x hx => hr x (List.mem_cons_of_mem _ hx))
      simpa [hc, mulItem] using this
    | some mx =>
      simp only [List.filterMap_cons, mulItem, hc, Option.map_some, List.foldl_cons]
      have hg : itemFrameUpd (Item.mul ⟨n, s.sg.name, mx, s.ranges⟩) = some (n, _) := rfl
      rw [itemUpd_hit _ n _ a hg hk]
      have hnames : a.sigs.map (·.sg.name) = (done ++ s :: rest).map (·.sg.name) := by
        rw [hs]
        have e1 : ∀ l : List WSig, l.map (fun x => (fullSig x).sg.name) = l.map (·.sg.name) := fun l => rfl
        have e2 : ∀ l : List WSig, l.map (fun x => (ftSig x).sg.name) = l.map (·.sg.name) := fun l => rfl
        simp only [List.map_append, List.map_map, List.map_cons, Function.comp_def]
        rw [e1, e2]; rfl
      have hget : a.sigs[done.length]? = some (ftSig s) := by rw [hs]; simp
      have hidx : sigIdx a s.sg.name = some done.length := by
        have := lookup_signal a (namesUnique_of a _ hnames hnd) done.length (ftSig s) hget
        simpa [ftSig, rereadSg_name] using this
      simp only [hidx]
      have hmod : (a.modSig done.length fun x => { x with muxer := some mx, ranges := x.ranges ++ s.ranges }).sigs =
          (done ++ [s]).map fullSig ++ rest.map ftSig := by
        simp only [RFrame.modSig, hs]
        have e : done.map fullSig ++ (s :: rest).map ftSig = done.map fullSig ++ ftSig s :: rest.map ftSig := by simp
        have hl : done.length = (done.map fullSig).length := by simp
        rw [e, hl, modifyAt_mid]
        simp [fullSig, ftSig, hc]
      have := ih (done ++ [s])
        { (a.modSig done.length fun x => { x with muxer := some mx, ranges := x.ranges ++ s.ranges }) with complexMux := true }
        hk hmod (by simpa using hnd) (fun x hx => hr x (List.mem_cons_of_mem _ hx))
      rw [this]
      simp [RFrame.modSig, hc]

/-- a group whose members are pairwise different signals of the frame is kept as it is written -/
theorem groupOf_id (f : RFrame) (g : RGroup) (hnd : g.members.Nodup) (hmem : ∀ n ∈ g.members, (sigIdx f n).isSome = true) :
    groupOf f ⟨0, g.name, g.id, g.members⟩ = g := by
  unfold groupOf
  have : ∀ (ms acc : List Str), (acc ++ ms).Nodup → (∀ n ∈ ms, (sigIdx f n).isSome = true) →
      ms.foldl (fun acc n => if (sigIdx f n).isSome && !acc.contains n then acc ++ [n] else acc) acc = acc ++ ms := by
    intro ms
    induction ms with
    | nil => intro acc _ _; simp
    | cons n r ih =>
      intro acc hnd hm
      simp only [List.foldl_cons]
      have hn : acc.contains n = false := by
        simp only [List.nodup_append, List.mem_cons] at hnd
        cases hcn : acc.contains n with
        | false => rfl
        | true =>
          have : n ∈ acc := by simpa using hcn
          exact absurd rfl (hnd.2.2 n this n (Or.inl rfl))
      simp only [hm n (by simp), hn, Bool.not_false, Bool.and_self, if_true]
      rw [ih (acc ++ [n]) (by simpa using hnd) (fun x hx => hm x (List.mem_cons_of_mem _ hx))]
      simp
  have h := this g.members [] (by simpa using hnd) hmem
  simp only [List.nil_append] at h
  cases g
  simp_all

/-- writing a table entry by entry into an empty dictionary gives the table, when its keys are pairwise different -/
theorem assocSet_fold (es acc : List (Int × Str)) (h : ((acc ++ es).map (·.1)).Nodup) :
    es.foldl (fun acc (x : Int × Str) => match x with | (k, t) => assocSet acc k t) acc = acc ++ es := by
  induction es generalizing acc with
  | nil => simp
  | cons e es ih =>
    simp only [List.foldl_cons]
    have hnew : assocSet acc e.1 e.2 = acc ++ [e] := by
      have hnot : ∀ x ∈ acc, x.1 ≠ e.1 := by
        intro x hx hxe
        simp only [List.map_append, List.map_cons, List.nodup_append, List.mem_map, List.mem_cons] at h
        exact h.2.2 x.1 ⟨x, hx, rfl⟩ e.1 (Or.inl rfl) hxe
      clear h ih
      induction acc with
      | nil => rfl
      | cons y r ihr =>
        have hy : (y.1 == e.1) = false := by simpa using hnot y (by simp)
        simp only [assocSet, hy, Bool.false_eq_true, if_false, List.cons_append, List.cons.injEq, true_and]
        exact ihr (fun x hx => hnot x (List.mem_cons_of_mem _ hx))
    rw [hnew, ih (acc ++ [e]) (by simpa using h)]
    simp

theorem txItems_num (f : WFrame) (it : Item) (h : it ∈ txItems f) : ∃ g, itemFrameUpd it = some (f.bo.id, g) := by
  unfold txItems at h
  split at h
  · simp at h
  · simp only [List.mem_singleton] at h; subst h; exact ⟨_, rfl⟩

theorem cmItems_num (f : WFrame) (it : Item) (h : it ∈ cmItems f) : ∃ g, itemFrameUpd it = some (f.bo.id, g) := by
  unfold cmItems at h
  cases hc : f.comment with
  | none => rw [hc] at h; simp at h
  | some c => rw [hc] at h; simp only [List.mem_singleton] at h; subst h; exact ⟨_, rfl⟩

theorem sigCmItems_num (f : WFrame) (it : Item) (h : it ∈ sigCmItems f) : ∃ g, itemFrameUpd it = some (f.bo.id, g) := by
  unfold sigCmItems at h
  obtain ⟨s, _, hs⟩ := List.mem_filterMap.mp h
  cases hc : s.comment with
  | none => rw [hc] at hs; simp at hs
  | some c => rw [hc] at hs; simp only [Option.map_some, Option.some.injEq] at hs; subst hs; exact ⟨_, rfl⟩

theorem wf_unpack {f : WFrame} {k : Nat × Bool} (h : f.wf k = true) :
    wfBlock f.block = true ∧ boKey f.bo = some k ∧ keyOfCompound f.bo.id = some k ∧ (∀ e ∈ f.senders, isIdent e = true) ∧ f.senders.Nodup ∧
    (∀ c, f.comment = some c → wfComment c = true) ∧ (∀ s ∈ f.sigs, ∀ c, s.comment = some c → wfComment c = true) ∧
    (f.sigs.map (·.sg.name)).Nodup ∧
    (∀ s ∈ f.sigs, (∀ e ∈ s.values, wfText e.2 = true) ∧ (s.values.map (·.1)).Nodup) ∧
    (∀ s ∈ f.sigs, (∀ mx, s.muxer = some mx → isIdent mx = true ∧ s.ranges ≠ []) ∧ (s.muxer = none → s.ranges = [])) ∧
    (∀ g ∈ f.groups, isIdent g.name = true ∧ g.members.Nodup ∧ ∀ n ∈ g.members, n ∈ f.sigs.map (·.sg.name)) := by
  simp only [WFrame.wf, Bool.and_eq_true, beq_iff_eq, List.all_eq_true, decide_eq_true_eq] at h
  obtain ⟨⟨⟨⟨⟨⟨⟨⟨⟨⟨h1, h2⟩, h3⟩, h4⟩, h5⟩, h6⟩, h7⟩, h9⟩, h10⟩, h11⟩, h8⟩ := h
  refine ⟨h1, h2, h3, h4, h5, ?_, ?_, h8, h9, ?_, ?_⟩
  · intro c hc; rw [hc] at h6; exact h6
  · intro s hs c hc; have := h7 s hs; rw [hc] at this; exact this
  · intro s hs
    have := h10 s hs
    constructor
    · intro mx hmx; rw [hmx] at this
      simp only [Bool.and_eq_true, Bool.not_eq_true', List.isEmpty_eq_false_iff] at this
      exact this
    · intro hn; rw [hn] at this; simpa using this
  · intro g hg
    obtain ⟨⟨ha, hb⟩, hc⟩ := h11 g hg
    exact ⟨ha, hb, fun n hn => by simpa using hc n hn⟩

theorem valItems_num (f : WFrame) (it : Item) (h : it ∈ valItems f) : ∃ g, itemFrameUpd it = some (f.bo.id, g) := by
  unfold valItems at h
  obtain ⟨s, _, hs⟩ := List.mem_filterMap.mp h
  unfold valItem at hs
  split at hs
  · simp at hs
  · simp only [Option.some.injEq] at hs; subst hs; exact ⟨_, rfl⟩

theorem valtypeItems_num (f : WFrame) (it : Item) (h : it ∈ valtypeItems f) : ∃ g, itemFrameUpd it = some (f.bo.id, g) := by
  unfold valtypeItems at h
  obtain ⟨s, _, hs⟩ := List.mem_filterMap.mp h
  unfold valtypeItem at hs
  split at hs
  · simp only [Option.some.injEq] at hs; subst hs; exact ⟨_, rfl⟩
  · simp at hs

theorem grpItems_num (f : WFrame) (it : Item) (h : it ∈ grpItems f) : ∃ g, itemFrameUpd it = some (f.bo.id, g) := by
  unfold grpItems at h
  obtain ⟨g, _, rfl⟩ := List.mem_map.mp h
  exact ⟨_, rfl⟩

theorem mulItems_num (f : WFrame) (it : Item) (h : it ∈ mulItems f) : ∃ g, itemFrameUpd it = some (f.bo.id, g) := by
  unfold mulItems at h
  obtain ⟨s, _, hs⟩ := List.mem_filterMap.mp h
  unfold mulItem at hs
  cases hc : s.muxer with
  | none => rw [hc] at hs; simp at hs
  | some mx => rw [hc] at hs; simp only [Option.map_some, Option.some.injEq] at hs; subst hs; exact ⟨_, rfl⟩

/-- the groups of one frame -/
theorem grp_section (f : WFrame) (a : RFrame) (hk : keyOfCompound f.bo.id = some a.key) (hg0 : a.groups = [])
    (hok : ∀ g ∈ f.groups, g.members.Nodup ∧ ∀ n ∈ g.members, (sigIdx a n).isSome = true) :
    (grpItems f).foldl (fun acc it => itemUpd it acc) a = { a with groups := f.groups } := by
  unfold grpItems
  have : ∀ (gs done : List RGroup) (x : RFrame), x.groups = done → x.sigs = a.sigs → x.key = a.key →
      (∀ g ∈ gs, g.members.Nodup ∧ ∀ n ∈ g.members, (sigIdx a n).isSome = true) →
      (gs.map fun g => Item.grp ⟨f.bo.id, g.name, g.id, g.members⟩).foldl (fun acc it => itemUpd it acc) x =
        { x with groups := done ++ gs } := by
    intro gs
    induction gs with
    | nil => intro done x hx _ _ _; simp only [List.map_nil, List.foldl_nil, List.append_nil]; cases x; simp_all
    | cons g r ih =>
      intro done x hx hsx hkx hall
      simp only [List.map_cons, List.foldl_cons]
      have hg : itemFrameUpd (Item.grp ⟨f.bo.id, g.name, g.id, g.members⟩) = some (f.bo.id, _) := rfl
      rw [itemUpd_hit _ f.bo.id _ x hg (by rw [hkx]; exact hk)]
      have hsame : ∀ n, sigIdx x n = sigIdx a n := by intro n; unfold sigIdx; rw [hsx]
      have hgo : groupOf x ⟨f.bo.id, g.name, g.id, g.members⟩ = g := by
        have := groupOf_id x g (hall g (by simp)).1 (fun n hn => by rw [hsame]; exact (hall g (by simp)).2 n hn)
        simpa [groupOf] using this
      simp only [hgo, hx]
      refine Eq.trans (ih (done ++ [g]) { x with groups := done ++ [g] } rfl hsx hkx (fun y hy => hall y (List.mem_cons_of_mem _ hy))) ?_
      simp
  have h := this f.groups [] a hg0 rfl rfl hok
  simpa using h

/-- what a frame of the written frame section becomes under the statements of the seven following sections -/
theorem per_frame (ps : List (WFrame × (Nat × Bool))) (hwf : ∀ p ∈ ps, p.1.wf p.2 = true) (hdist : ps.Pairwise fun p q => p.2 ≠ q.2)
    (p : WFrame × (Nat × Bool)) (hp : p ∈ ps) :
    ((ps.flatMap fun q => txItems q.1) ++ (ps.flatMap fun q => cmItems q.1) ++ (ps.flatMap fun q => sigCmItems q.1) ++
      (ps.flatMap fun q => valItems q.1) ++ (ps.flatMap fun q => valtypeItems q.1) ++ (ps.flatMap fun q => grpItems q.1) ++
      (ps.flatMap fun q => mulItems q.1)).foldl
      (fun acc it => itemUpd it acc) (frameOfBlock p.1.block p.2) = p.1.expect p.2 := by
  obtain ⟨f, k⟩ := p
  obtain ⟨_, _, hnum, _, hnd, _, _, hnames, hvals, hmux, hgrp⟩ := wf_unpack (hwf (f, k) hp)
  simp only at hnum hnd hnames hvals hmux hgrp
  have hnumAll : ∀ q ∈ ps, keyOfCompound q.1.bo.id = some q.2 := fun q hq => (wf_unpack (hwf q hq)).2.2.1
  simp only [List.foldl_append]
  rw [sec_fold txItems txItems_num ps hnumAll hdist (f, k) hp _ rfl]
  rw [tx_section f _ hnum rfl hnd]
  rw [sec_fold cmItems cmItems_num ps hnumAll hdist (f, k) hp _ rfl]
  rw [cm_section f _ hnum rfl]
  rw [sec_fold sigCmItems sigCmItems_num ps hnumAll hdist (f, k) hp _ rfl]
  have h3 := sigsec_fold f.bo.id (sigCmItem f.bo.id) (fun s x => { x with comment := s.comment }) plainSig cmSig
    (by intro s it h; unfold sigCmItem at h; cases hc : s.comment with
        | none => rw [hc] at h; simp at h
        | some c => rw [hc] at h; simp only [Option.map_some, Option.some.injEq] at h; subst h; rfl)
    (by intro s h; unfold sigCmItem at h; cases hc : s.comment with
        | none => simp [cmSig, plainSig, hc]
        | some c => rw [hc] at h; simp at h)
    (fun _ => True) (by intro s it _ _; rfl) (fun _ => rfl) (fun _ => rfl)
    f.sigs [] (fun _ _ => trivial) { (frameOfBlock f.block k) with transmitters := f.senders, comment := f.comment } hnum
    (by simp [frameOfBlock, sigsOf, WFrame.block, plainSig]) (by simpa using hnames)
  have e3 : sigCmItems f = f.sigs.filterMap (sigCmItem f.bo.id) := rfl
  rw [e3, h3]
  rw [sec_fold valItems valItems_num ps hnumAll hdist (f, k) hp _ rfl]
  have h4 := sigsec_fold f.bo.id (valItem f.bo.id)
    (fun s x => { x with values := s.values.foldl (fun acc (x : Int × Str) => match x with | (k, t) => assocSet acc k t) x.values }) cmSig valSig
    (by intro s it h; unfold valItem at h; split at h
        · simp at h
        · simp only [Option.some.injEq] at h; subst h; rfl)
    (by intro s h; unfold valItem at h; split at h
        · rename_i he; simp [valSig, cmSig, List.isEmpty_iff.mp he]
        · simp at h)
    (fun s => (s.values.map (·.1)).Nodup)
    (by intro s it hP _
        simp only [cmSig, valSig]
        rw [assocSet_fold s.values [] (by simpa using hP)]
        simp)
    (fun _ => rfl) (fun _ => rfl)
    f.sigs [] (fun s hs => (hvals s hs).2)
    { (frameOfBlock f.block k) with transmitters := f.senders, comment := f.comment, sigs := ([] ++ f.sigs).map cmSig } hnum
    (by simp) (by simpa using hnames)
  have e4 : valItems f = f.sigs.filterMap (valItem f.bo.id) := rfl
  rw [e4, h4]
  rw [sec_fold valtypeItems valtypeItems_num ps hnumAll hdist (f, k) hp _ rfl]
  have h5 := sigsec_fold f.bo.id (valtypeItem f.bo.id) (fun _ x => { x with isFloat := true }) valSig ftSig
    (by intro s it h; unfold valtypeItem at h; split at h
        · simp only [Option.some.injEq] at h; subst h; rfl
        · simp at h)
    (by intro s h; unfold valtypeItem at h; split at h
        · simp at h
        · rename_i hf; simp [ftSig, valSig, hf])
    (fun _ => True)
    (by intro s it _ h; unfold valtypeItem at h; split at h
        · rename_i hf; simp [ftSig, valSig, hf]
        · simp at h)
    (fun _ => rfl) (fun _ => rfl)
    f.sigs [] (fun _ _ => trivial)
    { (frameOfBlock f.block k) with transmitters := f.senders, comment := f.comment, sigs := ([] ++ f.sigs).map valSig } hnum
    (by simp) (by simpa using hnames)
  have e5 : valtypeItems f = f.sigs.filterMap (valtypeItem f.bo.id) := rfl
  rw [e5, h5]
  rw [sec_fold grpItems grpItems_num ps hnumAll hdist (f, k) hp _ rfl]
  have h6 := grp_section f
    { (frameOfBlock f.block k) with transmitters := f.senders, comment := f.comment, sigs := ([] ++ f.sigs).map ftSig } hnum rfl
    (by
      intro g hg
      refine ⟨(hgrp g hg).2.1, ?_⟩
      intro n hn
      obtain ⟨w, hw, hwn⟩ := List.mem_map.mp ((hgrp g hg).2.2 n hn)
      obtain ⟨j, hj⟩ := List.getElem?_of_mem hw
      have hget : (([] ++ f.sigs).map ftSig)[j]? = some (ftSig w) := by simp [hj]
      have hnu : NamesUnique { (frameOfBlock f.block k) with transmitters := f.senders, comment := f.comment, sigs := ([] ++ f.sigs).map ftSig } :=
        namesUnique_of _ (f.sigs.map (·.sg.name)) (by simp [ftSig, rereadSg_name, Function.comp_def]) hnames
      have := lookup_signal _ hnu j (ftSig w) hget
      rw [← hwn]
      simp only [ftSig, rereadSg_name] at this
      rw [this]; rfl)
  rw [h6]
  rw [sec_fold mulItems mulItems_num ps hnumAll hdist (f, k) hp _ rfl]
  have h7 := mulsec_fold f.bo.id f.sigs []
    { (frameOfBlock f.block k) with transmitters := f.senders, comment := f.comment, sigs := ([] ++ f.sigs).map ftSig, groups := f.groups }
    hnum (by simp) (by simpa using hnames) (fun s hs => (hmux s hs).2)
  unfold mulItems
  rw [h7]
  simp [WFrame.expect, frameOfBlock, fullSig, WFrame.block, List.any_map, Function.comp_def]

theorem filterMap_flatMap {α β γ} (l : List α) (f : α → List β) (g : β → Option γ) :
    (l.flatMap f).filterMap g = l.flatMap fun x => (f x).filterMap g := by
  induction l with
  | nil => rfl
  | cons a r ih => simp [List.flatMap_cons, List.filterMap_append, ih]

/-- the look-up of a frame number depends on the identifiers of the frames only -/
theorem frameIdx_keys (m m' : RMatrix) (h : m'.frames.map (·.key) = m.frames.map (·.key)) (n : Nat) :
    frameIdx m' n = frameIdx m n := by
  unfold frameIdx
  cases keyOfCompound n with
  | none => rfl
  | some k =>
    simp only
    have : ∀ (l : List RFrame) (i : Nat) (best : Option Nat),
        findLastIdx.go (fun f => f.key == k) i best l = findLastIdx.go (fun x => x == k) i best (l.map (·.key)) := by
      intro l
      induction l with
      | nil => intro i best; rfl
      | cons a r ih => intro i best; simp only [findLastIdx.go, List.map_cons]; exact ih _ _
    unfold findLastIdx
    rw [this, this, h]

theorem apply_keys (m : RMatrix) (hu : KeysUnique m) (it : Item) (hit : (itemFrameUpd it).isSome = true) :
    (applyItem m it).frames.map (·.key) = m.frames.map (·.key) := by
  rw [applyItem_frames' m hu it hit, List.map_map]
  apply List.map_congr_left
  intro f _
  exact itemUpd_key it f

/-- a statement of the three sections that can be read wherever the frame it names is known -/
def staticOk (keys : List (Nat × Bool)) : FileStmt → Prop
  | .one s => s.wf = true ∧ ∃ it, s.item = some it ∧ (itemFrameUpd it).isSome = true
  | .cm h text => wfCmHead h = true ∧ wfComment text = true ∧ (itemFrameUpd (.cm h text)).isSome = true ∧
      ∃ n k, (h = .bo n ∨ ∃ name, h = .sg n name) ∧ keyOfCompound n = some k ∧ k ∈ keys

theorem frameIdx_some_of_mem (m : RMatrix) (hu : KeysUnique m) (n : Nat) (k : Nat × Bool) (hk : keyOfCompound n = some k)
    (hmem : k ∈ m.frames.map (·.key)) : (frameIdx m n).isSome = true := by
  obtain ⟨f, hf, rfl⟩ := List.mem_map.mp hmem
  obtain ⟨i, hi⟩ := List.getElem?_of_mem hf
  rw [lookup_by_identifier m hu i f n hi hk]; rfl

theorem okFile_static (stmts : List FileStmt) (m : RMatrix) (hu : KeysUnique m)
    (h : ∀ s ∈ stmts, staticOk (m.frames.map (·.key)) s) : okFile m stmts = true := by
  induction stmts generalizing m with
  | nil => rfl
  | cons s rest ih =>
    simp only [okFile, Bool.and_eq_true]
    have hs := h s (by simp)
    have hitem : ∃ it, FileStmt.toItem s = some it ∧ (itemFrameUpd it).isSome = true ∧ s.apply m = applyItem m it := by
      cases s with
      | one st =>
        obtain ⟨_, it, hit, hsome⟩ := hs
        exact ⟨it, hit, hsome, by simp [FileStmt.apply, applyStmt, hit]⟩
      | cm hd text => exact ⟨_, rfl, hs.2.2.1, rfl⟩
    obtain ⟨it, _, hsome, happ⟩ := hitem
    refine ⟨?_, ?_⟩
    · cases s with
      | one st => exact hs.1
      | cm hd text =>
        obtain ⟨hw, hc, _, n, k, hform, hk, hmem⟩ := hs
        simp only [FileStmt.okIn, hw, hc, Bool.and_self, Bool.true_and, Bool.or_eq_true, Bool.not_eq_true']
        right
        rcases hform with rfl | ⟨name, rfl⟩
        · simp [hk]
        · exact frameIdx_some_of_mem m hu n k hk hmem
    · rw [happ]
      have hkeys := apply_keys m hu it hsome
      apply ih _ (keysUnique_of_keys m _ hkeys hu)
      intro x hx
      rw [hkeys]
      exact h x (List.mem_cons_of_mem _ hx)

theorem framesOfBlocks_ps (ps : List (WFrame × (Nat × Bool))) :
    framesOfBlocks (ps.map fun p => p.1.block) (ps.map (·.2)) = ps.map fun p => frameOfBlock p.1.block p.2 := by
  induction ps with
  | nil => rfl
  | cons p r ih => simp [framesOfBlocks, ih]

theorem tx_static (f : WFrame) (k : Nat × Bool) (hwf : f.wf k = true) (keys : List (Nat × Bool)) :
    ∀ s ∈ f.txStmts, staticOk keys s := by
  intro s hs
  unfold WFrame.txStmts at hs
  split at hs
  · simp at hs
  · rename_i hne
    simp only [List.mem_singleton] at hs; subst hs
    obtain ⟨_, _, _, hid, _, _, _, _⟩ := wf_unpack hwf
    refine ⟨?_, _, rfl, rfl⟩
    simp only [Stmt.wf, wfTx, Bool.and_eq_true, Bool.not_eq_true', List.all_eq_true]
    exact ⟨by simp [WFrame.senders], hid⟩

theorem cm_static (f : WFrame) (k : Nat × Bool) (hwf : f.wf k = true) (keys : List (Nat × Bool)) (hk : k ∈ keys) :
    ∀ s ∈ f.cmStmts, staticOk keys s := by
  intro s hs
  unfold WFrame.cmStmts at hs
  obtain ⟨_, _, hnum, _, _, hcm, _, _⟩ := wf_unpack hwf
  cases hc : f.comment with
  | none => rw [hc] at hs; simp at hs
  | some c =>
    rw [hc] at hs; simp only [List.mem_singleton] at hs; subst hs
    exact ⟨rfl, hcm c hc, rfl, f.bo.id, k, Or.inl rfl, hnum, hk⟩

theorem sigcm_static (f : WFrame) (k : Nat × Bool) (hwf : f.wf k = true) (keys : List (Nat × Bool)) (hk : k ∈ keys) :
    ∀ s ∈ f.sigCmStmts, staticOk keys s := by
  intro s hs
  unfold WFrame.sigCmStmts at hs
  obtain ⟨hblk, _, hnum, _, _, _, hsc, _⟩ := wf_unpack hwf
  obtain ⟨w, hw, hsw⟩ := List.mem_filterMap.mp hs
  cases hc : w.comment with
  | none => rw [hc] at hsw; simp at hsw
  | some c =>
    rw [hc] at hsw; simp only [Option.map_some, Option.some.injEq] at hsw; subst hsw
    have hname : isIdent w.sg.name = true := by
      have := (wfBlock_unpack hblk).2 w.sg (by simp [WFrame.block]; exact ⟨w, hw, rfl⟩)
      exact (wfSg_unpack this).1
    exact ⟨hname, hsc w hw c hc, rfl, f.bo.id, k, Or.inr ⟨_, rfl⟩, hnum, hk⟩

theorem val_static (f : WFrame) (k : Nat × Bool) (hwf : f.wf k = true) (keys : List (Nat × Bool)) :
    ∀ s ∈ f.valStmts, staticOk keys s := by
  intro s hs
  unfold WFrame.valStmts at hs
  obtain ⟨hblk, _, _, _, _, _, _, _, hvals, _, _⟩ := wf_unpack hwf
  obtain ⟨w, hw, hsw⟩ := List.mem_filterMap.mp hs
  split at hsw
  · simp at hsw
  · rename_i hne
    simp only [Option.some.injEq] at hsw; subst hsw
    have hname : isIdent w.sg.name = true := by
      have := (wfBlock_unpack hblk).2 w.sg (by simp [WFrame.block]; exact ⟨w, hw, rfl⟩)
      exact (wfSg_unpack this).1
    refine ⟨?_, _, rfl, rfl⟩
    simp only [Stmt.wf, wfVal, Bool.and_eq_true, List.all_eq_true, Bool.not_eq_true']
    exact ⟨⟨hname, fun e he => (hvals w hw).1 e he⟩, by simpa using hne⟩

theorem valtype_static (f : WFrame) (k : Nat × Bool) (hwf : f.wf k = true) (keys : List (Nat × Bool)) :
    ∀ s ∈ f.valtypeStmts, staticOk keys s := by
  intro s hs
  unfold WFrame.valtypeStmts at hs
  obtain ⟨hblk, _⟩ := wf_unpack hwf
  obtain ⟨w, hw, hsw⟩ := List.mem_filterMap.mp hs
  split at hsw
  · simp only [Option.some.injEq] at hsw; subst hsw
    have hname : isIdent w.sg.name = true := by
      have := (wfBlock_unpack hblk).2 w.sg (by simp [WFrame.block]; exact ⟨w, hw, rfl⟩)
      exact (wfSg_unpack this).1
    exact ⟨hname, _, rfl, rfl⟩
  · simp at hsw

theorem grp_static (f : WFrame) (k : Nat × Bool) (hwf : f.wf k = true) (keys : List (Nat × Bool)) :
    ∀ s ∈ f.grpStmts, staticOk keys s := by
  intro s hs
  unfold WFrame.grpStmts at hs
  obtain ⟨hblk, _, _, _, _, _, _, _, _, _, hgrp⟩ := wf_unpack hwf
  obtain ⟨g, hg, rfl⟩ := List.mem_map.mp hs
  refine ⟨?_, _, rfl, rfl⟩
  simp only [Stmt.wf, wfGroup, Bool.and_eq_true, List.all_eq_true]
  refine ⟨(hgrp g hg).1, ?_⟩
  intro n hn
  obtain ⟨w, hw, hwn⟩ := List.mem_map.mp ((hgrp g hg).2.2 n hn)
  have := (wfBlock_unpack hblk).2 w.sg (by simp [WFrame.block]; exact ⟨w, hw, rfl⟩)
  rw [← hwn]; exact (wfSg_unpack this).1

theorem mul_static (f : WFrame) (k : Nat × Bool) (hwf : f.wf k = true) (keys : List (Nat × Bool)) :
    ∀ s ∈ f.mulStmts, staticOk keys s := by
  intro s hs
  unfold WFrame.mulStmts at hs
  obtain ⟨hblk, _, _, _, _, _, _, _, _, hmux, _⟩ := wf_unpack hwf
  obtain ⟨w, hw, hsw⟩ := List.mem_filterMap.mp hs
  cases hc : w.muxer with
  | none => rw [hc] at hsw; simp at hsw
  | some mx =>
    rw [hc] at hsw; simp only [Option.map_some, Option.some.injEq] at hsw; subst hsw
    have hname : isIdent w.sg.name = true := by
      have := (wfBlock_unpack hblk).2 w.sg (by simp [WFrame.block]; exact ⟨w, hw, rfl⟩)
      exact (wfSg_unpack this).1
    obtain ⟨hmx, hr⟩ := (hmux w hw).1 mx hc
    refine ⟨?_, _, rfl, rfl⟩
    simp only [Stmt.wf, wfMul, Bool.and_eq_true, Bool.not_eq_true', List.isEmpty_eq_false_iff]
    exact ⟨⟨hname, hmx⟩, hr⟩

/-- **The core round trip.**  For any list of frames - any number, any number of signals, senders and comments over any number of lines -
whose lines are well formed, whose numbers denote pairwise different identifiers and whose signal names are pairwise different within a
frame: reading the file the core of the writer makes of them (frame section, `BO_TX_BU_` lines, frame comments, signal comments, `VAL_` lines) builds
exactly these frames - identifier, name, length, all senders in their order, the signals in their order with their comments and value
tables, the frame's comment - and leaves no comment open. -/
theorem roundtrip_core (ps : List (WFrame × (Nat × Bool))) (hwf : ∀ p ∈ ps, p.1.wf p.2 = true)
    (hdist : ps.Pairwise fun p q => p.2 ≠ q.2) :
    (readFile (writeCore (ps.map (·.1)))).frames = ps.map (fun p => p.1.expect p.2) ∧
    (readFile (writeCore (ps.map (·.1)))).pending = none := by
  unfold readFile writeCore
  rw [List.foldl_append]
  have hblocks : (ps.map (·.1)).map WFrame.block = ps.map fun p => p.1.block := by rw [List.map_map]; rfl
  have hkeys : (ps.map fun p => p.1.block).map (fun b => boKey b.bo) = (ps.map (·.2)).map some := by
    rw [List.map_map, List.map_map]
    apply List.map_congr_left
    intro p hp
    exact (wf_unpack (hwf p hp)).2.1
  have hA := frames_fold (ps.map fun p => p.1.block) (ps.map (·.2)) {} rfl
    (by intro b hb; obtain ⟨p, hp, rfl⟩ := List.mem_map.mp hb; exact (wf_unpack (hwf p hp)).1) hkeys
  rw [hblocks]
  generalize hmA : (writeFrames (ps.map fun p => p.1.block)).foldl stepFile {} = mA at hA
  obtain ⟨hAf, hAp, _, _⟩ := hA
  rw [framesOfBlocks_ps] at hAf
  simp only [List.nil_append] at hAf
  have hAkeys : mA.frames.map (·.key) = ps.map (·.2) := by
    rw [hAf, List.map_map]; rfl
  have huA : KeysUnique mA := by
    unfold KeysUnique
    have : (mA.frames.map (·.key)).Pairwise (· ≠ ·) := by
      rw [hAkeys, List.pairwise_map]; exact hdist
    rwa [List.pairwise_map] at this
  -- every statement of the three sections can be read
  have hstatic : ∀ s ∈ ((ps.map (·.1)).flatMap WFrame.txStmts ++ (ps.map (·.1)).flatMap WFrame.cmStmts ++
      (ps.map (·.1)).flatMap WFrame.sigCmStmts ++ (ps.map (·.1)).flatMap WFrame.valStmts ++ (ps.map (·.1)).flatMap WFrame.valtypeStmts ++
      (ps.map (·.1)).flatMap WFrame.grpStmts ++ (ps.map (·.1)).flatMap WFrame.mulStmts), staticOk (mA.frames.map (·.key)) s := by
    intro s hs
    rw [hAkeys]
    simp only [List.mem_append, List.mem_flatMap, List.mem_map] at hs
    rcases hs with (((((⟨f, ⟨p, hp, rfl⟩, hsf⟩ | ⟨f, ⟨p, hp, rfl⟩, hsf⟩) | ⟨f, ⟨p, hp, rfl⟩, hsf⟩) | ⟨f, ⟨p, hp, rfl⟩, hsf⟩) |
      ⟨f, ⟨p, hp, rfl⟩, hsf⟩) | ⟨f, ⟨p, hp, rfl⟩, hsf⟩) | ⟨f, ⟨p, hp, rfl⟩, hsf⟩
    · exact tx_static p.1 p.2 (hwf p hp) _ s hsf
    · exact cm_static p.1 p.2 (hwf p hp) _ (List.mem_map.mpr ⟨p, hp, rfl⟩) s hsf
    · exact sigcm_static p.1 p.2 (hwf p hp) _ (List.mem_map.mpr ⟨p, hp, rfl⟩) s hsf
    · exact val_static p.1 p.2 (hwf p hp) _ s hsf
    · exact valtype_static p.1 p.2 (hwf p hp) _ s hsf
    · exact grp_static p.1 p.2 (hwf p hp) _ s hsf
    · exact mul_static p.1 p.2 (hwf p hp) _ s hsf
  have hok := okFile_static _ mA huA hstatic
  rw [read_file _ mA hAp hok, apply_eq_items]
  simp only [List.filterMap_append, filterMap_flatMap, List.flatMap_map, txItems_eq, cmItems_eq, sigCmItems_eq, valItems_eq, valtypeItems_eq, grpItems_eq, mulItems_eq]
  constructor
  · rw [frames_after_items _ mA huA]
    · rw [hAf, List.map_map]
      apply List.map_congr_left
      intro p hp
      exact per_frame ps hwf hdist p hp
    · intro it hit
      simp only [List.mem_append, List.mem_flatMap] at hit
      rcases hit with (((((⟨p, _, h⟩ | ⟨p, _, h⟩) | ⟨p, _, h⟩) | ⟨p, _, h⟩) | ⟨p, _, h⟩) | ⟨p, _, h⟩) | ⟨p, _, h⟩
      · obtain ⟨g, hg⟩ := txItems_num p.1 it h; rw [hg]; rfl
      · obtain ⟨g, hg⟩ := cmItems_num p.1 it h; rw [hg]; rfl
      · obtain ⟨g, hg⟩ := sigCmItems_num p.1 it h; rw [hg]; rfl
      · obtain ⟨g, hg⟩ := valItems_num p.1 it h; rw [hg]; rfl
      · obtain ⟨g, hg⟩ := valtypeItems_num p.1 it h; rw [hg]; rfl
      · obtain ⟨g, hg⟩ := grpItems_num p.1 it h; rw [hg]; rfl
      · obtain ⟨g, hg⟩ := mulItems_num p.1 it h; rw [hg]; rfl
  · -- no comment stays open: every item is a complete comment or a sender statement
    have : ∀ (its : List Item) (m : RMatrix), m.pending = none → (∀ it ∈ its, ∀ hd first, it ≠ .cmOpen hd first) →
        (its.foldl applyItem m).pending = none := by
      intro its
      induction its with
      | nil => intro m hm _; exact hm
      | cons it its ih =>
        intro m hm hall
        simp only [List.foldl_cons]
        exact ih _ (applyItem_pending m it hm (hall it (by simp))) (fun x hx => hall x (List.mem_cons_of_mem _ hx))
    apply this _ mA hAp
    intro it hit hd first e
    subst e
    simp only [List.mem_append, List.mem_flatMap] at hit
    rcases hit with (((((⟨p, _, h⟩ | ⟨p, _, h⟩) | ⟨p, _, h⟩) | ⟨p, _, h⟩) | ⟨p, _, h⟩) | ⟨p, _, h⟩) | ⟨p, _, h⟩
    · obtain ⟨g, hg⟩ := txItems_num p.1 _ h; simp [itemFrameUpd] at hg
    · obtain ⟨g, hg⟩ := cmItems_num p.1 _ h; simp [itemFrameUpd] at hg
    · obtain ⟨g, hg⟩ := sigCmItems_num p.1 _ h; simp [itemFrameUpd] at hg
    · obtain ⟨g, hg⟩ := valItems_num p.1 _ h; simp [itemFrameUpd] at hg
    · obtain ⟨g, hg⟩ := valtypeItems_num p.1 _ h; simp [itemFrameUpd] at hg
    · obtain ⟨g, hg⟩ := grpItems_num p.1 _ h; simp [itemFrameUpd] at hg
    · obtain ⟨g, hg⟩ := mulItems_num p.1 _ h; simp [itemFrameUpd] at hg

end CanVerif.Dbc.FileProofs
