import CanVerif.Model.Convert
/-!
# What the documentation of `canconvert` promises per option (docs/cli.rst, the option help texts), stated as
filters and maps over the matrix - "and in no other way": everything a clause does not mention is copied unchanged

`delete X = a,b`: exactly the items with these names (ECUs, signals: glob patterns) are gone.
`rename X = a:b`: items named `a` are named `b` (with `*` at the end / beginning: the prefix / suffix is replaced), every
reference follows.  `setFrameFd`/`unsetFrameFd`: the named frames are (not) FD.  `skipLongDlc=t`: frames longer than `t`
bytes are gone, a frame of exactly `t` bytes stays.  `cutLongFrames=t`: in frames longer than `t` bytes the signals that
do not end within the first `t` bytes are gone and the length is the one the remaining signals need.
`recalcDLC=max|force`.  `deleteZeroSignals`, `delete…Attributes`, `deleteObsoleteEcus`, `addFrameReceiver`, `changeFrameId`.
Selection (`ecus`, `frames`) is specified by the model of copy.py (C12) and shared with Model/Convert.lean.
The clauses are applied in the documented pipeline order.
-/
namespace CanVerif.ConvSpec
open CanVerif CanVerif.Conv

def mapFrames (m : KMat) (g : KFrame → KFrame) : KMat := { m with frames := m.frames.map g }
def mapSigs (f : KFrame) (g : KSig → KSig) : KFrame := { f with sigs := f.sigs.map g }

/-- replace a name everywhere in a reference list (no duplicate if the new name is already there) -/
def renRef (old new : String) (l : List String) : List String :=
  if l.contains old then (if l.contains new then l.erase old else l.erase old ++ [new]) else l

def sRenameEcu (m : KMat) (p : String × String) : KMat :=
  if !m.ecus.contains p.1 then m else
  { ecus := m.ecus.map fun e => if e == p.1 then p.2 else e,
    frames := m.frames.map fun f => { f with tx := renRef p.1 p.2 f.tx, sigs := f.sigs.map fun s => { s with receivers := renRef p.1 p.2 s.receivers } } }

def sDeleteEcu (m : KMat) (pat : String) : KMat :=
  let gone (e : String) : Bool := m.ecus.contains e && globMatch pat e
  { ecus := m.ecus.filter (!gone ·),
    frames := m.frames.map fun f => { f with tx := f.tx.filter (!gone ·), sigs := f.sigs.map fun s => { s with receivers := s.receivers.filter (!gone ·) } } }

/-- prefix / suffix / exact replacement of a name -/
def sRenameName (old new name : String) : String :=
  let o := old.toList
  let n := name.toList
  if o.getLast? == some '*' && o.length ≥ 1 && (o.dropLast).isPrefixOf n then String.ofList (new.toList ++ n.drop (o.length - 1))
  else if o.head? == some '*' && o.length ≥ 2 && (o.drop 1).isSuffixOf n then String.ofList (n.take (n.length - (o.length - 1)) ++ new.toList)
  else if name == old then new else name

def sRenameFrame (m : KMat) (p : String × String) : KMat := mapFrames m fun f => { f with name := sRenameName p.1 p.2 f.name }
def sDeleteFrame (m : KMat) (n : String) : KMat := { m with frames := m.frames.filter (·.name != n) }
def sAddReceiver (m : KMat) (p : String × String) : KMat :=
  mapFrames m fun f => if globMatch p.1 f.name then mapSigs f fun s => { s with receivers := if s.receivers.contains p.2 then s.receivers else s.receivers ++ [p.2] } else f
/-- the frame with the identifier number `p.1` (the first one, should a standard and an extended frame share the number) -/
def sChangeId (m : KMat) (p : Nat × Nat) : KMat :=
  match m.frames.findIdx? (·.id == p.1) with
  | none => m
  | some k => { m with frames := (m.frames.zipIdx).map fun (f, j) => if j == k then { f with id := p.2 } else f }
def sSetFd (v : Bool) (m : KMat) (n : String) : KMat := mapFrames m fun f => if f.name == n then { f with fd := v } else f
def sSkipLong (t : Nat) (m : KMat) : KMat := { m with frames := m.frames.filter (·.size ≤ t) }

def sNeeded (ss : List KSig) : Nat := ((ss.map fun s => s.start + s.size).foldl max 0 + 7) / 8

def sCutLong (t : Nat) (m : KMat) : KMat :=
  mapFrames m fun f =>
    if f.size ≤ t then f
    else
      let kept := f.sigs.filter fun s => s.start + s.size ≤ t * 8
      { f with sigs := kept, size := sNeeded kept }

def sRenameSignal (m : KMat) (p : String × String) : KMat := mapFrames m fun f => mapSigs f fun s => { s with name := sRenameName p.1 p.2 s.name }
def sDeleteSignal (m : KMat) (pat : String) : KMat := mapFrames m fun f => { f with sigs := f.sigs.filter fun s => !globMatch pat s.name }
def sDeleteZero (m : KMat) : KMat := mapFrames m fun f => { f with sigs := f.sigs.filter (·.size > 0) }
def sDelSigAttrs (ns : List String) (m : KMat) : KMat := mapFrames m fun f => mapSigs f fun s => { s with attrs := s.attrs.filter (!ns.contains ·.1) }
def sDelFrameAttrs (ns : List String) (m : KMat) : KMat := mapFrames m fun f => { f with attrs := f.attrs.filter (!ns.contains ·.1) }
def sObsoleteEcus (m : KMat) : KMat :=
  { m with ecus := m.ecus.filter fun e => m.frames.any fun f => f.tx.contains e || f.sigs.any (·.receivers.contains e) }
def sRecalc (force : Bool) (m : KMat) : KMat :=
  mapFrames m fun f => { f with size := if force then sNeeded f.sigs else max f.size (sNeeded f.sigs) }

def expected (o : Opts) (m0 : KMat) : Option KMat := do
  let sel : Option KMat := o.ecus.map (selectEcus m0)
  let sel2 : Option KMat ← match o.frames with
    | none => pure sel
    | some names => (selectFrames m0 names (sel.getD {})).map some
  let m := sel2.getD m0
  let m := (o.renameEcu.getD []).foldl sRenameEcu m
  let m := (o.deleteEcu.getD []).foldl sDeleteEcu m
  let m := (o.renameFrame.getD []).foldl sRenameFrame m
  let m := (o.deleteFrame.getD []).foldl sDeleteFrame m
  let m := (o.addFrameReceiver.getD []).foldl sAddReceiver m
  let m := (o.changeFrameId.getD []).foldl sChangeId m
  let m := (o.setFrameFd.getD []).foldl (sSetFd true) m
  let m := (o.unsetFrameFd.getD []).foldl (sSetFd false) m
  let m := match o.skipLongDlc with | some t => sSkipLong t m | none => m
  let m := match o.cutLongFrames with | some t => sCutLong t m | none => m
  let m := (o.renameSignal.getD []).foldl sRenameSignal m
  let m := (o.deleteSignal.getD []).foldl sDeleteSignal m
  let m := if o.deleteZeroSignals then sDeleteZero m else m
  let m := match o.deleteSignalAttributes with | some ns => sDelSigAttrs ns m | none => m
  let m := match o.deleteFrameAttributes with | some ns => sDelFrameAttrs ns m | none => m
  let m := if o.deleteObsoleteEcus then sObsoleteEcus m else m
  let m := match o.recalcDLC with | some force => sRecalc force m | none => m
  pure m

/-- what an output file can show of the ECU list: the listed ECUs together with every ECU a frame refers to -/
def ecuClosure (m : KMat) : List String := (usedEcus m).foldl addUnique m.ecus

end CanVerif.ConvSpec

namespace CanVerif.ConvSpec
open CanVerif CanVerif.Conv

/-- what an output file shows of a frame / matrix: everything but the frame's cached receiver list -/
def coreF (f : KFrame) : KFrame := { f with frx := [] }
def core (m : KMat) : KMat := { m with frames := m.frames.map coreF }

/-- the envelope of the comparison: names identify frames, signals (within a frame) and ECUs -/
def uniqueNames (m : KMat) : Prop :=
  (m.frames.map (·.name)).Nodup ∧ (∀ f ∈ m.frames, (f.sigs.map (·.name)).Nodup) ∧ m.ecus.Nodup

end CanVerif.ConvSpec
