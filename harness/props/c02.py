"""C02 - encoding is the exact inverse of decoding and writes only its own bits."""
import collections
import collections.abc
import types

import canmatrix.canmatrix as cm

from lib import frames as F

PID = "C02"
RULE = ("case 'enc' = (frame 1..64 bytes, 1..8 pairwise non-overlapping in-frame signals of width 1..64, both byte "
        "orders mixed, signed/unsigned/float32/float64; a subset of signals supplied with raw values from the raw range: "
        "boundaries, 0, +-1, random); case 'decenc' = (same frames, arbitrary payload, decode then encode). "
        "Also: all single-signal placements in frames <= 2 bytes with boundary raws (exhaustive part). "
        "Every decode/encode is observed on objects with a history: the first use of a frame is made with its signals somewhere else "
        "(then moved into place by assignment), each call is repeated, and once more after another detour; an encode request is also "
        "made with one values dict used for several selector values. A result that depends on that history is a failure. "
        "Names: 45 % of the frames name their signals from families of names that are different strings but easy to mistake for "
        "each other (upper/lower case, casefold-equal, Unicode composed/decomposed, blanks at the ends, '_' and digit variants, one "
        "a prefix of the other), at least two of a family in one frame where the frame has two signals; the other frames keep s0..s7. "
        "Keys: 35 % of the encode requests carry 1..3 further keys that name no signal of the frame (variants of its names, names "
        "of family members that are absent, keys that are no text: int, None, bytes, tuple) with non-zero values - a signal is "
        "supplied iff a key EQUALS its name, so these must not write a bit. Every request is also made with the keys in reverse "
        "order, with a read-only mapping or a Mapping that is no dict (None for an empty request), and through CanMatrix.encode of a "
        "matrix that holds a second frame with the same signal names at other bits (used first); the caller's dict must be unchanged "
        "afterwards; decode-then-encode is repeated through CanMatrix.decode/encode of such a matrix. A result that depends on any of "
        "these is a failure. "
        "Matrices: half of the cases carry a matrix history 'm' - the frame's identifier (11 bit or 29 bit, number 0, 1, 0x7FF, 0x800, "
        "2^29-1, J1939-like, random) and a sequence of public calls that builds the matrix around it: further frames with the same signal "
        "names at other bits whose identifier has the SAME NUMBER with the other width (or the same low 11 bits), frames with the same "
        "identifier that are taken out again (remove_frame, del_frame by object / by name), identifiers changed after add_frame (new "
        "ArbitrationId object or edited in place; of the other frame or of the frame itself), header ids equal to the number, "
        "frame_by_id look-ups and matrix encodes/decodes in between, the frame added first, last or in the middle.  Whenever a frame "
        "of the matrix is the only one with its identifier, CanMatrix.encode / decode / decode_pycan with that identifier must give "
        "what the frame's own encode / decode gives (for the frame of the case: the result judged by the specification). "
        "Sender histories: 55 % of the encode requests carry 'p' - 1..3 earlier requests made with the same frame before the one of the "
        "case (the same keys with some or exactly one of the values changed - for a float the sign of zero -, or another subset of the "
        "signals), the values held in ONE dict that is updated in place (item assignment / clear+update) or in a new dict per call, "
        "through Frame.encode or CanMatrix.encode; the other requests get an earlier all-zero request in the same dict. Every call must "
        "give what a frame of its own gives for a dict of its own, the last one the result judged by the specification, and leave the "
        "dict as it was. Decode-then-encode is repeated with one dict that is updated from other received payloads first. "
        "30 % of the frames carry signals with offset, limits and start values (start value raw != 0); decoded values are kept while other payloads are decoded before they are re-encoded. Non-trivial = distinct case with at least one supplied non-zero value / non-constant payload.")
PARTIAL = ["struct.pack rounding for floats is trusted: float values are supplied as exactly representable non-NaN patterns",
           "value-table labels in the data dict go through phys2raw (C04) and are not generated here"]
ASSUMPTIONS = ["signals pairwise non-overlapping and inside the frame",
               "signal names unique within a frame as strings (names are case sensitive: 'Speed' and 'speed' are two signals); "
               "a key of the values dict supplies a signal iff it equals the signal's name"]
TRUSTED = ["CPython str.format('{:0{}b}'), list slice assignment, itertools grouper semantics as modelled in Model/Codec.lean"]
CORRESPONDENCE = "Frame.encode (+ decode of its output) == CanVerif.Frame.encode"

# families of signal names: pairwise different strings (so all of them may live in one frame), easy to mistake for each other
NAME_FAMILIES = [
    ["Speed", "speed", "SPEED", "sPEED", "Speed_", "_Speed", "Spee", "Speed2"],
    ["EngTemp", "Eng_Temp", "engtemp", "ENGTEMP", "Eng", "EngTemp_raw", "eng_temp"],
    ["v1", "V1", "v01", "v10", "v1_", "v_1", "v"],
    ["Mode", "Mode ", " Mode", "mode", "MODE", "Mode\t", "Mo de"],
    ["Stra\u00dfe", "STRASSE", "strasse", "Strasse", "stra\u00dfe", "STRA\u1e9eE"],          # casefold-equal, lower()-different
    ["Caf\u00e9", "Cafe\u0301", "CAF\u00c9", "cafe\u0301", "Cafe", "caf\u00e9"],            # composed / decomposed
    ["Id", "id", "ID", "\u0131d", "\u0130d", "iD"],                                             # dotless / dotted i
    ["K1", "k1", "\u212a1", "K\uff11", "K_1"],                                                  # Kelvin sign, full-width digit
    ["0", "00", "\uff10", "0x0", "O"],
    ["None", "none", "NONE", "null", "True", "true"],
]
_FAMILY_OF = {}
for _fam in NAME_FAMILIES:
    assert len(set(_fam)) == len(_fam)
    for _n in _fam:
        _FAMILY_OF.setdefault(_n, _fam)


def confusable_names(rng, sigs):
    """rename the signals (in place) with members of one or two families; the rest keep their plain names"""
    fams = rng.sample(NAME_FAMILIES, 2 if rng.random() < 0.3 else 1)
    pool = []
    for fam in fams:
        m = list(fam)
        rng.shuffle(m)
        pool += m[:rng.randint(2, len(m))]
    idx = list(range(len(sigs)))
    rng.shuffle(idx)
    for i, nm in zip(idx, pool):
        sigs[i][0] = nm
    assert len({d[0] for d in sigs}) == len(sigs)


def name_variants(name):
    out = [name.upper(), name.lower(), name.swapcase(), name.casefold(), name.title(), name + " ", " " + name, name + "_", "_" + name,
           name[:-1], name[1:], name + "0", name.strip(), name.replace("_", ""), name + "\n", name * 2]
    return [v for v in out if v and v != name]


def foreign_key(rng, fd):
    """a key (in the transport form of 'x') that equals no signal name of the frame"""
    names = [d[0] for d in fd["sigs"]]
    c = rng.random()
    if c < 0.25:
        return rng.choice([["i", 0], ["i", 1], ["i", rng.randrange(len(names))], ["n"], ["b", rng.choice(names)],
                           ["t", [rng.choice(names)]], ["t", [rng.choice(names), 0]]])
    base = rng.choice(names)
    cands = name_variants(base)
    if base in _FAMILY_OF:
        cands = cands + _FAMILY_OF[base] * 2
    if c < 0.35:
        cands = ["x", "signal", "F", "F." + base, ""]
    k = rng.choice(cands)
    return None if k in names else ["s", k]


def key_of(ks):
    t = ks[0]
    if t == "s":
        return ks[1]
    if t == "i":
        return ks[1]
    if t == "n":
        return None
    if t == "b":
        return ks[1].encode("utf-8")
    if t == "t":
        return tuple(ks[1])
    raise ValueError("unknown key form %r" % (ks,))


class PlainMapping(collections.abc.Mapping):
    """a Mapping that is not a dict (the type the API documents)"""

    def __init__(self, items):
        self._keys = [k for k, _ in items]
        self._vals = [v for _, v in items]

    def __getitem__(self, k):
        for a, v in zip(self._keys, self._vals):
            if type(a) is type(k) and a == k:
                return v
        raise KeyError(k)

    def __iter__(self):
        return iter(list(self._keys))

    def __len__(self):
        return len(self._keys)

# ------------------------------------------------------------------------------------------
# matrix histories: the frame of the case lives in a CanMatrix that was built by a sequence of public calls
#   m = {"id": [number, extended], "h": [step, ...]}     (final identifier of the frame of the case, steps in order)
#   ["F"] | ["F", number, extended]          add the frame of the case (with another identifier first, changed by an "id" step)
#   ["add", k, number, extended, nbytes, header_id|None]   add the frame "G<k>" (same signal names, other bits, nbytes long)
#   ["rm", k, how]                           take G<k> out: 0 remove_frame(object), 1 del_frame(object), 2 del_frame(name)
#   ["id", k|"F", number, extended, how]     change an identifier after add_frame: 0 new ArbitrationId object, 1 edited in place
#   ["look", number, extended]               frame_by_id
#   ["use", k|"F"]                           encode and decode through the matrix (compared with the frame's own answer)
# ------------------------------------------------------------------------------------------
STD_MAX, EXT_MAX = 0x7FF, 0x1FFFFFFF


def _rand_id(rng):
    if rng.random() < 0.55:
        return [rng.choice([0, 1, 0x123, 0x123, STD_MAX, rng.randrange(STD_MAX + 1), rng.randrange(STD_MAX + 1)]), False]
    return [rng.choice([0, 1, 0x123, STD_MAX, STD_MAX + 1, EXT_MAX, 0x18FEF100 | rng.randrange(256), 0x0CF00400,
                        rng.randrange(STD_MAX + 1), rng.randrange(EXT_MAX + 1), rng.randrange(EXT_MAX + 1)]), True]


def _look_alikes(rng, num, ext):
    """identifiers that are not (num, ext) but easy to take for it"""
    out = []
    if num <= STD_MAX:
        out += [[num, not ext]] * 6
    else:
        out += [[num & STD_MAX, False]] * 3 + [[num & STD_MAX, True]]
    if ext:
        out += [[num & 0x1FFFFF00 | (num + 1) & 0xFF, True], [num & 0x3FFFFFF, True]]       # other source address / priority 0
    out += [[num ^ 1, ext], [(num + 1) & (EXT_MAX if ext else STD_MAX), ext]]
    return [i for i in out if i != [num, ext]]


def _present(h):
    """({"F" | k: (number, extended)} of the frames in the matrix after the steps h, F seen) - None: the steps are no history"""
    ids, present, seen_f = {}, [], False
    for st in h:
        if st[0] == "F":
            if seen_f:
                return None
            seen_f = True
            ids["F"] = tuple(st[1:3]) if len(st) > 1 else None          # None: the final identifier
            present.append("F")
        elif st[0] == "add":
            if st[1] in ids:
                return None
            ids[st[1]] = (st[2], st[3])
            present.append(st[1])
        elif st[0] == "rm":
            if st[1] not in present or st[1] == "F":
                return None
            present.remove(st[1])
        elif st[0] == "id":
            if st[1] not in ids:
                return None
            ids[st[1]] = (st[2], st[3])
        elif st[0] == "use":
            if st[1] not in present:
                return None
        elif st[0] != "look":
            return None
    return {k: ids[k] for k in present}


def _sim(m):
    at_end = _present(m["h"])
    if at_end is None or "F" not in at_end:
        return None
    if at_end["F"] is None:
        at_end["F"] = tuple(m["id"])
    return at_end if at_end["F"] == tuple(m["id"]) else None


def matrix_ok(m):
    """a history this module speaks about: the frame of the case is in the matrix at the end, the only one with its identifier"""
    at_end = _sim(m)
    return at_end is not None and list(at_end.values()).count(tuple(m["id"])) == 1


def gen_matrix(rng):
    for _ in range(50):
        num, ext = _rand_id(rng)
        h = [["F"]]
        k = 0
        for _tpl in range(1 if rng.random() < 0.7 else 2):
            tpl = rng.random()
            nb = rng.choice([1, 1, 2, 3, 8])
            hdr = (num or None) if rng.random() < 0.08 else None
            pos = rng.randint(0, len(h))
            if tpl < 0.45:
                # a frame whose identifier looks like the one of the frame of the case, before or after it
                a = rng.choice(_look_alikes(rng, num, ext))
                h.insert(pos, ["add", k, a[0], a[1], nb, hdr])
            elif tpl < 0.65:
                # a frame with the same identifier (or a look-alike) that is taken out again
                a = [num, ext] if rng.random() < 0.5 else rng.choice(_look_alikes(rng, num, ext))
                h.insert(pos, ["add", k, a[0], a[1], nb, hdr])
                h.insert(rng.randint(pos + 1, len(h)), ["rm", k, rng.randrange(3)])
            elif tpl < 0.8:
                # a frame that has the identifier when it is added and another one afterwards - or the other way round
                a = [num, ext] if rng.random() < 0.4 else rng.choice(_look_alikes(rng, num, ext))
                b = rng.choice([i for i in _look_alikes(rng, num, ext) if i != a] or [[(num + 2) & STD_MAX, ext]])
                if rng.random() < 0.4:
                    a, b = b, a
                if b == [num, ext]:
                    b = [num ^ 3, ext]
                h.insert(pos, ["add", k, a[0], a[1], nb, hdr])
                h.insert(rng.randint(pos + 1, len(h)), ["id", k, b[0], b[1], rng.randrange(2)])
            elif tpl < 0.92:
                # the frame of the case is added with another identifier, another frame holds (a look-alike of) the final one
                fpos = [i for i, st in enumerate(h) if st[0] == "F"][0]
                if len(h[fpos]) == 1:
                    first = rng.choice(_look_alikes(rng, num, ext) + [[(num + 7) & STD_MAX, False]])
                    h[fpos] = ["F", first[0], first[1]]
                    h.insert(rng.randint(fpos + 1, len(h)), ["id", "F", num, ext, rng.randrange(2)])
                a = rng.choice(_look_alikes(rng, num, ext))
                h.insert(pos, ["add", k, a[0], a[1], nb, hdr])
            else:
                # a bystander
                a = _rand_id(rng)
                if a != [num, ext]:
                    h.insert(pos, ["add", k, a[0], a[1], nb, hdr])
            k += 1
        for _ in range(rng.choice([0, 0, 1, 1, 2, 3])):
            pos = rng.randint(1, len(h))
            if rng.random() < 0.5:
                a = rng.choice([[num, ext]] * 3 + _look_alikes(rng, num, ext))
                h.insert(pos, ["look", a[0], a[1]])
            else:
                live = _present(h[:pos])
                if live:
                    h.insert(pos, ["use", rng.choice(sorted(live, key=str))])
        m = {"id": [num, ext], "h": h}
        if matrix_ok(m):
            return m
    return {"id": [0x123, False], "h": [["F"]]}


def _sib(fd, k, num, ext, nbytes, hdr):
    """the frame G<k>: the signal names of the frame of the case, every signal one bit wide in the last of its nbytes bytes"""
    sigs = [F.sigdesc(d[0], 8 * (nbytes - 1) + (3 * i + 1 + k) % 8, 1, True) for i, d in enumerate(fd["sigs"])]
    g = F.mkframe({"size": nbytes, "sigs": sigs}, name="G%d" % k, arbid=num, extended=ext)
    if hdr:
        g.header_id = hdr
    return g


def _answer(f, *args):
    try:
        r = f(*args)
    except Exception as e:  # noqa
        return "raised " + F.errname(e)
    if isinstance(r, (bytes, bytearray)):
        return list(r)
    if isinstance(r, dict):
        return sorted((repr(k), F.val_to_json(v.signal, v.raw_value), id(v.signal)) for k, v in r.items())
    return repr(r)


class _Message(object):
    """what python-can hands over"""

    def __init__(self, aid, data):
        self.arbitration_id = aid.id
        self.is_extended_id = aid.extended
        self.data = bytearray(data)


def _agree(db, x, data, payload, is_case_frame):
    """None if the matrix answers for the identifier of its frame x what x answers itself (x the only frame with that identifier)"""
    who = "the-frame" if is_case_frame else "another-frame-of-the-matrix"
    if [f.arbitration_id == x.arbitration_id for f in db.frames].count(True) != 1 or x not in db.frames:
        return None
    aid = cm.ArbitrationId(x.arbitration_id.id, x.arbitration_id.extended)       # the caller's own object, as built from a bus message
    if _answer(db.encode, aid, data) != _answer(x.encode, data):
        return "exc:matrix-encode-differs-from-frame-encode-for-" + who
    if db.contains_j1939 and not aid.extended:
        return None         # (CanMatrix.decode answers {} for a standard identifier in a J1939 matrix)
    own = _answer(x.decode, bytes(payload))
    if _answer(db.decode, aid, bytes(payload)) != own:
        return "exc:matrix-decode-differs-from-frame-decode-for-" + who
    if _answer(db.decode_pycan, _Message(aid, payload)) != own:
        return "exc:matrix-decode_pycan-differs-from-frame-decode-for-" + who
    return None


def _set_id(x, num, ext, how):
    if how == 0:
        x.arbitration_id = cm.ArbitrationId(num, ext)
    else:
        x.arbitration_id.id = num
        x.arbitration_id.extended = ext


def matrix_history(fr, fd, m, data, payload, want):
    """build the matrix of the history m around the frame fr (its identifier is set here) and ask it along the way and at the end;
    returns None or the name of the first disagreement.  data / payload: what is encoded / decoded with the frame of the case;
    want: the frame's own encoding of data (already observed), which the matrix must give as well"""
    db = cm.CanMatrix()
    sibs = {}
    own = {}

    def ask(k):
        x = fr if k == "F" else sibs[k]
        if k == "F":
            return _agree(db, x, data, payload, True)
        names = [s.name for s in x.signals]
        d_, p_ = own.setdefault(k, ({n_: 1 for n_ in names[::2]}, [0xA5 ^ (17 * k) & 0xFF] * x.size))
        return _agree(db, x, d_, p_, False)
    for st in m["h"]:
        if st[0] == "F":
            num, ext = st[1:3] if len(st) > 1 else m["id"]
            fr.arbitration_id = cm.ArbitrationId(num, ext)
            db.add_frame(fr)
        elif st[0] == "add":
            sibs[st[1]] = _sib(fd, *st[1:6])
            db.add_frame(sibs[st[1]])
        elif st[0] == "rm":
            x = sibs[st[1]]
            if st[2] == 0:
                db.remove_frame(x)
            elif st[2] == 1:
                db.del_frame(x)
            else:
                db.del_frame(x.name)
        elif st[0] == "id":
            _set_id(fr if st[1] == "F" else sibs[st[1]], st[2], st[3], st[4])
        elif st[0] == "look":
            db.frame_by_id(cm.ArbitrationId(st[1], st[2]))
        elif st[0] == "use":
            odd = ask(st[1])
            if odd is not None:
                return odd + "-during-the-history"
    if fr not in db.frames or [f.arbitration_id == fr.arbitration_id for f in db.frames].count(True) != 1:
        raise ValueError("matrix history leaves the frame of the case out or ambiguous: %r" % (m,))
    if want is not None and _answer(db.encode, cm.ArbitrationId(*m["id"]), data) != want:
        return "exc:matrix-encode-differs-from-frame-encode"
    for k in ["F"] + [k for k in sibs if sibs[k] in db.frames]:
        odd = ask(k)
        if odd is not None:
            return odd
    return None


# ------------------------------------------------------------------------------------------
# sender histories: requests made with the same frame before the request of the case
#   p = {"how": 0 one dict, item assignment (keys that are no longer supplied deleted) | 1 one dict, clear() + update() |
#               2 a new dict per call,
#        "via": 0 Frame.encode | 1 CanMatrix.encode,
#        "reqs": [[[name, raw], ...], ...]}        (in order; the request of the case follows; the foreign keys 'x' are in all of them)
# ------------------------------------------------------------------------------------------
def _other_value(rng, d, v):
    lo, hi = F.raw_range(d)
    if d[5]:
        flipped = v ^ (1 << (d[2] - 1))             # the other sign: 0.0 <-> -0.0 compare equal
        return rng.choice([flipped, flipped, F.rand_raw(rng, d)])
    return rng.choice([lo + hi - v, F.rand_raw(rng, d), F.rand_raw(rng, d), 0 if lo <= 0 <= hi else lo])


def gen_sender_history(rng, fd, d):
    by_name = {s[0]: s for s in fd["sigs"]}
    reqs = []
    for _ in range(rng.choice([1, 1, 2, 3])):
        c = rng.random()
        if not d or c < 0.15:
            sup = [s for s in fd["sigs"] if rng.random() < 0.6]
            rng.shuffle(sup)
            req = [[s[0], F.rand_raw(rng, s)] for s in sup]
        elif c < 0.45:
            i = rng.randrange(len(d))
            req = [[k, _other_value(rng, by_name[k], v) if j == i else v] for j, (k, v) in enumerate(d)]
        else:
            req = [[k, _other_value(rng, by_name[k], v) if rng.random() < 0.6 else v] for k, v in d]
        reqs.append(req)
    return {"how": rng.choice([0, 0, 0, 1, 1, 2, 2]), "via": rng.choice([0, 0, 1]), "reqs": reqs}


def _fit_history(p, fd, d):
    """the history p for a smaller frame / request: requests keep the signals that are left"""
    names = {s[0] for s in fd["sigs"]}
    return dict(p, reqs=[[kv for kv in req if kv[0] in names] for req in p["reqs"]])


def _default_history(c):
    """requests without 'p': the same keys, all zero, in the dict that is used for the request afterwards"""
    return {"how": 0, "via": 0, "reqs": [[[k, 0] for k, _ in c["d"]]]}


def _call(f, *args):
    try:
        return list(f(*args))
    except Exception as e:  # noqa
        return "raised " + F.errname(e)


HOW = ["with-the-same-dict-updated-in-place", "with-the-same-dict-cleared-and-filled-again", "with-another-dict"]


def sender_history(fr, fd, p, final_pairs, xpairs, want):
    """the requests of p, then the request of the case, as a sender makes them that keeps its values between the calls.  Every call
    must give what a frame of its own gives for a dict of its own (the last one: `want`, the result the specification judges)"""
    twin = F.mkframe(fd)
    db = _matrix(fr, fd) if p["via"] else None
    steps = [_values(fr, req + xpairs) for req in p["reqs"]] + [_values(fr, final_pairs)]
    shared = {}
    for n, items in enumerate(steps):
        if p["how"] == 0:
            keys = [k for k, _ in items]
            for k in [k for k in shared if not any(type(k) is type(a) and k == a for a in keys)]:
                del shared[k]
            for k, v in items:
                shared[k] = v
        elif p["how"] == 1:
            shared.clear()
            shared.update(items)
        else:
            shared = dict(items)
        before = [(k, repr(v)) for k, v in shared.items()]
        got = _call(db.encode, fr.arbitration_id, shared) if db is not None else _call(fr.encode, shared)
        exp = want if n == len(steps) - 1 else _call(twin.encode, dict(items))
        if got != exp:
            return "exc:result-depends-on-what-was-encoded-before-" + HOW[p["how"]]
        if [(k, repr(v)) for k, v in shared.items()] != before:
            return "exc:the-callers-values-dict-was-changed-by-encode"
    return None


def receiver_history(fr, fd, data, want):
    """decode-then-encode as a gateway does it that keeps ONE dict of values and updates it from every received payload"""
    vals = {}
    out = None
    db = _matrix(fr, fd) if sum(data) % 3 == 0 else None
    for rx in ([b ^ 0xFF for b in data], [0] * len(data), [b ^ 0xFF for b in data], data):
        for k, v in fr.decode(bytes(rx)).items():
            vals[k] = v.raw_value
        out = _call(db.encode, fr.arbitration_id, vals) if db is not None else _call(fr.encode, vals)
    return None if out == want else "exc:decode-encode-differs-when-one-values-dict-is-updated-from-every-payload"


def gen_frame(rng):
    n = rng.choice(F.ALL_LENGTHS if rng.random() < 0.6 else F.FD_LENGTHS)
    fd = {"size": n, "sigs": F.rand_disjoint_sigs(rng, n, maxn=8)}
    if rng.random() < 0.3:
        fd["sc"] = True          # signals with physical scaling, limits and start values (no business of the raw codec)
    if rng.random() < 0.2:
        fd["j"] = True           # flagged as a J1939 frame
    if rng.random() < 0.45:
        confusable_names(rng, fd["sigs"])
    return fd


def enc_case(rng, fd):
    sup = [d for d in fd["sigs"] if rng.random() < 0.75]
    rng.shuffle(sup)
    c = {"f": fd, "d": [[d[0], F.rand_raw(rng, d)] for d in sup]}
    if rng.random() < 0.35:
        # keys that name no signal of this frame, with values that would show
        x = []
        for _ in range(rng.randint(1, 3)):
            ks = foreign_key(rng, fd)
            if ks is not None and ks not in [k for k, _ in x]:
                x.append([ks, rng.choice([1, -1, 255, 0x5A5A, rng.getrandbits(rng.randint(1, 63)) | 1])])
        if x:
            c["x"] = x
    if rng.random() < 0.5:
        c["m"] = gen_matrix(rng)
    if rng.random() < 0.55:
        c["p"] = gen_sender_history(rng, fd, c["d"])
    return {"op": "enc", "c": c}


def decenc_case(rng, fd):
    c = {"f": fd, "data": F.rand_payload(rng, fd["size"])}
    if rng.random() < 0.5:
        c["m"] = gen_matrix(rng)
    return {"op": "decenc", "c": c}


def gen(rng, tier, shard, nshards):
    total = {"quick": 16000, "thorough": 250000}[tier]
    for _ in range(total // nshards):
        fd = gen_frame(rng)
        if rng.random() < 0.65:
            yield enc_case(rng, fd)
        else:
            yield decenc_case(rng, fd)
    if shard == 0:
        for n in (1, 2):
            for size in range(1, 8 * n + 1):
                for start in range(0, 8 * n - size + 1):
                    for little in (False, True):
                        for signed in (False, True):
                            d = F.sigdesc("s", start, size, little, signed)
                            lo, hi = F.raw_range(d)
                            for v in sorted({lo, hi, 0, lo + (hi - lo) // 2, -1 if signed else 1}):
                                if lo <= v <= hi:
                                    yield {"op": "enc", "c": {"f": {"size": n, "sigs": [d]}, "d": [["s", v]]}}
        for little in (False, True):
            for signed in (False, True):
                d = F.sigdesc("w", 0, 64, little, signed)
                lo, hi = F.raw_range(d)
                for v in (lo, hi, 0, hi - 1, lo + 1, (1 << 53) + 1, hi // 3):
                    if lo <= v <= hi:
                        yield {"op": "enc", "c": {"f": {"size": 8, "sigs": [d]}, "d": [["w", v]]}}


def neighbours(case, rng, shard, nshards):
    fd = case["c"]["f"]
    for _ in range(300 // nshards + 1):
        if rng.random() < 0.6:
            yield enc_case(rng, fd)
        else:
            yield decenc_case(rng, fd)


def _values(fr, pairs):
    """the values dict of a request as a list of items (float signals get the float of their pattern, as in lib.frames)"""
    items = []
    for k, v in pairs:
        sg = fr.signal_by_name(k) if isinstance(k, str) else None
        if sg is not None and sg.is_float:
            v = F.pattern_to_float(sg.size, v)
        items.append((k, v))
    return items


def _sibling(fd):
    """a second frame (one byte) with the same signal names, every signal one bit wide"""
    sigs = [F.sigdesc(d[0], (3 * i + 1) % 8, 1, True) for i, d in enumerate(fd["sigs"])]
    return F.mkframe({"size": 1, "sigs": sigs}, name="G", arbid=0x124)


def _matrix(fr, fd):
    db = cm.CanMatrix()
    db.add_frame(_sibling(fd))
    db.add_frame(fr)
    return db


def _other_ways(fr, fd, items, want):
    """the same request through the other ways the public API offers; None if all of them give `want`"""
    def call(f, arg):
        try:
            return list(f(arg))
        except Exception as e:  # noqa
            return "raised " + F.errname(e)
    if len(items) > 1 and call(fr.encode, collections.OrderedDict(reversed(items))) != want:
        return "exc:result-depends-on-the-order-of-the-keys"
    if not items:
        if call(fr.encode, None) != want:
            return "exc:result-differs-without-a-values-dict"
    elif (len(items) + len(fd["sigs"]) + fd["size"]) % 2:
        if call(fr.encode, types.MappingProxyType(dict(items))) != want:
            return "exc:result-differs-for-a-read-only-mapping"
    elif call(fr.encode, PlainMapping(items)) != want:
        return "exc:result-differs-for-a-mapping-that-is-no-dict"
    data = dict(items)
    before = list(data.items())
    db = _matrix(fr, fd)
    sib = db.frames[0]
    call(lambda d: db.encode(sib.arbitration_id, d), data)      # the frame with the same signal names is used first
    if call(lambda d: db.encode(fr.arbitration_id, d), data) != want:
        return "exc:matrix-encode-differs-from-frame-encode"
    if list(data.items()) != before:
        return "exc:the-callers-values-dict-was-changed-by-encode"
    return None


def observe(case):
    c = case["c"]
    fr = F.mkframe(c["f"])
    if case["op"] == "enc":
        pairs = c["d"] + [[key_of(ks), v] for ks, v in c.get("x", [])]
        r = F.observe_encode(fr, pairs)
        if "ok" in r:
            odd = _other_ways(fr, c["f"], _values(fr, pairs), r["ok"])
            if odd is None:
                odd = sender_history(fr, c["f"], c.get("p") or _default_history(c), pairs, pairs[len(c["d"]):], r["ok"])
            if odd is None and "m" in c:
                odd = matrix_history(fr, c["f"], c["m"], dict(_values(fr, pairs)), r["ok"], r["ok"])
            if odd is not None:
                return {"err": odd}
            d = F.observe_decode(fr, r["ok"])
            r["dec"] = d.get("ok", d.get("err"))
        return r
    d = fr.decode(bytes(c["data"]))
    # the decoded values are kept while other payloads are decoded with the same frame: they are re-encoded afterwards
    for other in ([b ^ 0xFF for b in c["data"]], [0] * len(c["data"])):
        try:
            fr.decode(bytes(other))
        except Exception:  # noqa
            pass
    try:
        b = fr.encode({k: v.raw_value for k, v in d.items()})
    except Exception as e:  # noqa
        return {"err": F.errname(e)}
    # ... and the same through the matrix that holds the frame (and a second frame with the same signal names, used first)
    try:
        db = _matrix(fr, c["f"])
        sib = db.frames[0]
        db.encode(sib.arbitration_id, {k: v.raw_value for k, v in sib.decode(bytes(c["data"][:1])).items()})
        # (CanMatrix.decode answers {} for a standard identifier in a J1939 matrix: there the frame decodes, the matrix encodes)
        dd = fr.decode(bytes(c["data"])) if c["f"].get("j") else db.decode(fr.arbitration_id, bytes(c["data"]))
        b2 = db.encode(fr.arbitration_id, {k: v.raw_value for k, v in dd.items()})
    except Exception as e:  # noqa
        return {"err": "exc:matrix-decode-encode-raised-" + F.errname(e)}
    if list(b2) != list(b):
        return {"err": "exc:matrix-decode-encode-differs-from-frame-decode-encode"}
    odd = receiver_history(fr, c["f"], c["data"], list(b))
    if odd is not None:
        return {"err": odd}
    if "m" in c:
        odd = matrix_history(fr, c["f"], c["m"], {k: v.raw_value for k, v in d.items()}, c["data"], list(b))
        if odd is not None:
            return {"err": odd}
    return {"ok": list(b)}


def project(impl):
    return impl


def features(case, impl):
    c = case["c"]
    yield "op=" + case["op"]
    yield "nsigs=%d" % len(c["f"]["sigs"])
    yield "len=%d" % c["f"]["size"] if c["f"]["size"] in (1, 8, 64) else "len=other"
    names = [d[0] for d in c["f"]["sigs"]]
    plain = not any(n_ in _FAMILY_OF for n_ in names)
    yield "names=" + ("plain" if plain else "confusable")
    if not plain:
        for how, f in (("casefold", str.casefold), ("lower", str.lower), ("strip", str.strip)):
            if len({f(n_) for n_ in names}) < len(names):
                yield "names-equal-after=" + how
    m = c.get("m")
    yield "matrix-history=" + ("no" if m is None else "%d-steps" % min(len(m["h"]), 6))
    if m is not None:
        num, ext = m["id"]
        yield "matrix:frame-id=" + ("29-bit" if ext else "11-bit") + ("/zero" if num == 0 else "/above-0x7FF" if num > STD_MAX else "")
        at_end = _sim(m)
        others = [i for k, i in at_end.items() if k != "F"]
        if (num, not ext) in others:
            yield "matrix:same-number-other-width-present"
        if any(i[0] & STD_MAX == num & STD_MAX and i[0] != num for i in others):
            yield "matrix:same-low-11-bits-present"
        fpos = [i for i, st in enumerate(m["h"]) if st[0] == "F"][0]
        adds = [i for i, st in enumerate(m["h"]) if st[0] == "add"]
        if adds:
            yield "matrix:frame-added=" + ("first" if fpos < min(adds) else "last" if fpos > max(adds) else "between")
        for st in m["h"]:
            if st[0] == "rm":
                was = [a for a in m["h"] if a[0] == "add" and a[1] == st[1]][0]
                yield "matrix:removed(%s)-%s" % (["remove_frame", "del_frame", "del_frame-by-name"][st[2]],
                                                "same-id" if was[2:4] == m["id"] else "same-number" if was[2] == num else "other")
            elif st[0] == "id":
                yield "matrix:id-changed-after-add(%s)-of-%s" % (["new-object", "in-place"][st[4]], "the-frame" if st[1] == "F" else "another")
            elif st[0] == "add" and st[5]:
                yield "matrix:header-id-equals-number"
            elif st[0] in ("look", "use"):
                yield "matrix:" + st[0] + "-in-between"
    if case["op"] == "enc":
        p = c.get("p")
        yield "sender-history=" + ("no" if p is None else "%d-earlier-requests" % len(p["reqs"]))
        if p is not None:
            yield "sender-history:" + HOW[p["how"]] + ("/matrix" if p["via"] else "/frame")
            by_name = {s_[0]: s_ for s_ in c["f"]["sigs"]}
            last = p["reqs"][-1]
            if [k for k, _ in last] == [k for k, _ in c["d"]]:
                diff = [(k, a, b) for (k, a), (_, b) in zip(last, c["d"]) if a != b]
                yield "sender-history:last-request-before=" + ("same-values" if not diff else "one-value-differs" if len(diff) == 1
                                                              else "several-values-differ")
                if diff and all(by_name[k][5] and {a, b} == {0, 1 << (by_name[k][2] - 1)} for k, a, b in diff):
                    yield "sender-history:only-the-sign-of-zero-differs"
            else:
                yield "sender-history:last-request-before=other-keys"
        yield "supplied=%d" % len(c["d"])
        yield "foreign-keys=%d" % len(c.get("x", []))
        for ks, _ in c.get("x", []):
            yield "foreign-key=" + {"s": "text", "i": "int", "n": "None", "b": "bytes", "t": "tuple"}[ks[0]]
        sup = {k for k, _ in c["d"]}
        if any(a != b and a.casefold() == b.casefold() and (a in sup) != (b in sup) for a in names for b in names):
            yield "one-of-two-casefold-equal-names-supplied"
        for k, v in c["d"]:
            d = [s for s in c["f"]["sigs"] if s[0] == k][0]
            lo, hi = F.raw_range(d)
            yield "raw=" + ("min" if v == lo else "max" if v == hi else "zero" if v == 0 else "interior")
            yield "sig:%s%s" % ("intel" if d[3] else "motorola", "/float" if d[5] else "/signed" if d[4] else "/unsigned")
    yield "result=" + ("ok" if "ok" in impl else "err:" + impl.get("err", "?"))


def nontrivial(case, impl):
    c = case["c"]
    if case["op"] == "enc":
        return any(v != 0 for _, v in c["d"])
    return len(set(c["data"])) > 1


def shrink_candidates(case):
    c = case["c"]
    fd = c["f"]
    m = c.get("m")
    if m is not None:
        yield {"op": case["op"], "c": {k: v for k, v in c.items() if k != "m"}}
        for i in range(len(m["h"])):
            m2 = {"id": m["id"], "h": m["h"][:i] + m["h"][i + 1:]}
            if matrix_ok(m2):
                yield {"op": case["op"], "c": dict(c, m=m2)}
        for i, st in enumerate(m["h"]):
            if st[0] == "add" and (st[4] != 1 or st[5]):
                yield {"op": case["op"], "c": dict(c, m={"id": m["id"], "h": m["h"][:i] + [st[:4] + [1, None]] + m["h"][i + 1:]})}
    if case["op"] == "enc":
        x = c.get("x", [])
        p = c.get("p")

        def mk(fd_, d_, x_, p_=p):
            cc = {"f": fd_, "d": d_}
            if x_:
                cc["x"] = x_
            if m is not None:
                cc["m"] = m
            if p_ is not None:
                cc["p"] = _fit_history(p_, fd_, d_)
            return {"op": "enc", "c": cc}
        if p is not None:
            yield mk(fd, c["d"], x, None)
            for i in range(len(p["reqs"])):
                if len(p["reqs"]) > 1:
                    yield mk(fd, c["d"], x, dict(p, reqs=p["reqs"][:i] + p["reqs"][i + 1:]))
            if p["via"]:
                yield mk(fd, c["d"], x, dict(p, via=0))
        for i in range(len(x)):
            yield mk(fd, c["d"], x[:i] + x[i + 1:])
        for i in range(len(c["d"])):
            if len(c["d"]) > 1 or x:
                yield mk(fd, c["d"][:i] + c["d"][i + 1:], x)
        names = {k for k, _ in c["d"]}
        keep = [s for s in fd["sigs"] if s[0] in names]
        if len(keep) < len(fd["sigs"]) and keep:
            yield mk(dict(fd, sigs=keep), c["d"], x)
        # signals that are not supplied, one at a time (one of them may be the one that matters)
        for i, s in enumerate(fd["sigs"]):
            if s[0] not in names and len(fd["sigs"]) > 1:
                yield mk(dict(fd, sigs=fd["sigs"][:i] + fd["sigs"][i + 1:]), c["d"], x)
        for flag in ("sc", "j"):
            if fd.get(flag):
                yield mk({k: v for k, v in fd.items() if k != flag}, c["d"], x)
    else:
        for i in range(len(fd["sigs"])):
            if len(fd["sigs"]) > 1:
                yield {"op": "decenc", "c": dict(c, f=dict(fd, sigs=fd["sigs"][:i] + fd["sigs"][i + 1:]))}


def classify(case, impl, spec):
    """known finding C02-float32-snan: decode-then-encode of a float32 signal whose payload bits form a signalling NaN
    (exponent all ones, mantissa non-zero, quiet bit clear) comes back with the quiet bit set, nothing else changed"""
    if case["op"] != "decenc" or "ok" not in impl:
        return None
    c = case["c"]
    data, out = c["data"], impl["ok"]
    if len(out) != len(data):
        return None
    allowed = set()
    for d in c["f"]["sigs"]:
        if d[5] and d[2] == 32:
            addrs = F.sig_addrs(d[3], d[1], d[2])
            pat = sum(((data[a // 8] >> (a % 8)) & 1) << i for i, a in enumerate(addrs))
            if ((pat >> 23) & 0xFF) == 0xFF and (pat & 0x7FFFFF) != 0 and not (pat >> 22) & 1:
                allowed.add(addrs[22])
    covered = set()
    for d in c["f"]["sigs"]:
        covered |= set(F.sig_addrs(d[3], d[1], d[2]))
    diff = {k for k in covered if ((data[k // 8] >> (k % 8)) & 1) != ((out[k // 8] >> (k % 8)) & 1)}
    if diff and diff <= allowed:
        return "C02-float32-snan"
    return None
