import CanVerif.Proofs.DbcErrors
/-!
# The value tables of the matrix in the round trip
-/
namespace CanVerif.Dbc.FileProofs
open CanVerif CanVerif.Dbc CanVerif.Num

theorem isDig_props (c : Char) (h : IsDig c) : isDigit c = true ∧ isWs c = false ∧ c ≠ '-' ∧ c ≠ '+' ∧ (c == '_') = false := by
  have hd : isDigit c = true := by
    unfold IsDig digitVal at h
    unfold isDigit
    split at h
    · rename_i hc; simp [hc.1, hc.2]
    · simp at h
  have hb := isDig_not_blank h
  refine ⟨hd, ?_, ?_, ?_, ?_⟩
  · simp only [isBlank, Bool.or_eq_false_iff] at hb; exact hb.1.1
  · rintro rfl; revert h; unfold IsDig; decide
  · rintro rfl; revert h; unfold IsDig; decide
  · cases hu : (c == '_') with
    | false => rfl
    | true => have : c = '_' := by simpa using hu
              subst this; revert h; unfold IsDig; decide

theorem splitUnderscores_go_none (s cur : Str) (h : ∀ c ∈ s, (c == '_') = false) :
    splitUnderscores.go s cur = [cur.reverse ++ s] := by
  induction s generalizing cur with
  | nil => simp [splitUnderscores.go]
  | cons c r ih =>
    simp only [splitUnderscores.go, h c (by simp), Bool.false_eq_true, if_false]
    rw [ih (c :: cur) (fun x hx => h x (List.mem_cons_of_mem _ hx))]
    simp

theorem pyIntKey_natDigits (k : Nat) : pyIntKey (natDigits k) = some (k : Int) := by
  have hall := natDigits_allDig k
  have hne := natDigits_ne_nil k
  obtain ⟨a, ha⟩ : ∃ a, (natDigits k).head? = some a := by
    cases h : natDigits k with
    | nil => exact absurd h hne
    | cons x r => exact ⟨x, rfl⟩
  obtain ⟨b, hb⟩ : ∃ b, (natDigits k).getLast? = some b := by
    cases h : (natDigits k).getLast? with
    | none => simp [List.getLast?_eq_none_iff] at h; exact absurd h hne
    | some x => exact ⟨x, rfl⟩
  have ham : a ∈ natDigits k := List.mem_of_mem_head? ha
  have hbm : b ∈ natDigits k := List.mem_of_getLast? hb
  have hs : stripWs (natDigits k) = natDigits k :=
    CanVerif.Dbc.stripWs_id _ a b ha hb (isDig_props a (hall a ham)).2.1 (isDig_props b (hall b hbm)).2.1
  unfold pyIntKey
  simp only [hs]
  cases hd : natDigits k with
  | nil => exact absurd hd hne
  | cons x r =>
    have hx : x ∈ natDigits k := by rw [hd]; simp
    have px := isDig_props x (hall x hx)
    have hbody : signSplit (x :: r) = (false, x :: r) := by
      unfold signSplit
      split
      · rename_i u h; injection h with h1 _; exact absurd h1 px.2.2.1
      · rename_i u h; injection h with h1 _; exact absurd h1 px.2.2.2.1
      · rfl
    rw [hbody]
    unfold splitUnderscores
    rw [splitUnderscores_go_none (x :: r) [] (by intro c hc; rw [← hd] at hc; exact (isDig_props c (hall c hc)).2.2.2.2)]
    have hdig : (x :: r).all isDigit = true := by
      rw [List.all_eq_true]; intro c hc; rw [← hd] at hc; exact (isDig_props c (hall c hc)).1
    simp only [List.reverse_nil, List.nil_append, List.all_cons, List.all_nil, Bool.and_true, List.isEmpty_cons, Bool.not_false, Bool.true_and,
      hdig, if_true, List.flatten_cons, List.flatten_nil, List.append_nil]
    rw [← hd, digitsToNat_natDigits']
    rfl


theorem assocSet_new {α β} [BEq α] [LawfulBEq α] (acc : List (α × β)) (k : α) (v : β) (h : k ∉ acc.map (·.1)) :
    assocSet acc k v = acc ++ [(k, v)] := by
  induction acc with
  | nil => rfl
  | cons a r ih =>
    obtain ⟨k', v'⟩ := a
    simp only [List.map_cons, List.mem_cons, not_or] at h
    have hne : (k' == k) = false := by
      cases hb : (k' == k) with
      | false => rfl
      | true => exact absurd (by simpa using hb : k' = k).symm h.1
    simp only [assocSet, hne, Bool.false_eq_true, if_false, List.cons_append, ih h.2]

theorem assocSet_fold_gen {α β} [BEq α] [LawfulBEq α] (es acc : List (α × β)) (h : ((acc ++ es).map (·.1)).Nodup) :
    es.foldl (fun acc (e : α × β) => assocSet acc e.1 e.2) acc = acc ++ es := by
  induction es generalizing acc with
  | nil => simp
  | cons e es ih =>
    simp only [List.foldl_cons]
    have hnew : assocSet acc e.1 e.2 = acc ++ [e] := by
      apply assocSet_new
      have : ((acc.map (·.1)) ++ e.1 :: es.map (·.1)).Nodup := by simpa using h
      rw [List.nodup_append] at this
      intro hmem
      exact this.2.2 e.1 hmem e.1 (by simp) rfl
    rw [hnew, ih (acc ++ [e]) (by simpa using h)]
    simp

theorem nodup_map_inj {α β} (f : α → β) (hinj : ∀ a b, f a = f b → a = b) (l : List α) (h : l.Nodup) : (l.map f).Nodup := by
  unfold List.Nodup at h ⊢
  rw [List.pairwise_map]
  exact h.imp (fun hab e => hab (hinj _ _ e))

theorem natDigits_inj (a b : Nat) (h : natDigits a = natDigits b) : a = b := by
  have := congrArg digitsToNat h
  rw [digitsToNat_natDigits', digitsToNat_natDigits'] at this
  exact Option.some.inj this

theorem intDigits_nat (k : Nat) : intDigits (k : Int) = natDigits k := by
  unfold intDigits
  have : ¬ ((k : Int) < 0) := by omega
  simp [this]

/-- a `VAL_TABLE_` statement with pairwise different keys stores its table -/
theorem apply_vt (m : RMatrix) (t : WTable) (hk : (t.entries.map (·.1)).Nodup) :
    applyItem m (.vt t.line) = { m with tables := applyCore.assocSetTable m.tables t.line } := by
  have e0 : applyItem m (.vt t.line) = applyCore m (.vt t.line) := rfl
  rw [e0]
  simp only [applyCore, WTable.line]
  have h1 : (t.entries.map fun e => (natDigits e.1, e.2)).foldl (fun acc (e : Str × Str) => assocSet acc e.1 e.2) ([] : List (Str × Str)) =
      t.entries.map fun e => (natDigits e.1, e.2) := by
    have := assocSet_fold_gen (t.entries.map fun e => (natDigits e.1, e.2)) ([] : List (Str × Str)) (by
      simp only [List.nil_append, List.map_map]
      have : (t.entries.map ((fun x : Str × Str => x.1) ∘ fun e : Nat × Str => (natDigits e.1, e.2))) = (t.entries.map (·.1)).map natDigits := by
        rw [List.map_map]; rfl
      rw [this]
      exact nodup_map_inj natDigits natDigits_inj _ hk)
    simpa using this
  rw [h1]
  have h2 : (t.entries.map fun e => (natDigits e.1, e.2)).mapM (fun (e : Str × Str) => (pyIntKey e.1).map fun i => (i, e.2)) =
      some (t.entries.map fun e => ((e.1 : Int), e.2)) := by
    generalize t.entries = l
    induction l with
    | nil => rfl
    | cons e r ih =>
      simp only [List.map_cons, List.mapM_cons, pyIntKey_natDigits, Option.map_some, ih]
      rfl
  rw [h2]
  simp only
  have h3 : (t.entries.map fun e => ((e.1 : Int), e.2)).foldl (fun acc (e : Int × Str) => assocSet acc e.1 e.2) ([] : List (Int × Str)) =
      t.entries.map fun e => ((e.1 : Int), e.2) := by
    have := assocSet_fold_gen (t.entries.map fun e => ((e.1 : Int), e.2)) ([] : List (Int × Str)) (by
      simp only [List.nil_append, List.map_map]
      have : (t.entries.map ((fun x : Int × Str => x.1) ∘ fun e : Nat × Str => ((e.1 : Int), e.2))) = (t.entries.map (·.1)).map (fun n : Nat => (n : Int)) := by
        rw [List.map_map]; rfl
      rw [this]
      exact nodup_map_inj (fun n : Nat => (n : Int)) (fun a b h => Int.ofNat.inj h) _ hk)
    simpa using this
  rw [h3]
  simp only [List.map_map]
  have h4 : ((fun (e : Int × Str) => (intDigits e.1, e.2)) ∘ fun (e : Nat × Str) => ((e.1 : Int), e.2)) = fun (e : Nat × Str) => (natDigits e.1, e.2) := by
    funext e; simp [intDigits_nat]
  rw [h4]

theorem assocSetTable_new (ts : List VtLine) (v : VtLine) (h : v.name ∉ ts.map (·.name)) : applyCore.assocSetTable ts v = ts ++ [v] := by
  induction ts with
  | nil => rfl
  | cons a r ih =>
    simp only [List.map_cons, List.mem_cons, not_or] at h
    have hne : (a.name == v.name) = false := by
      cases hb : (a.name == v.name) with
      | false => rfl
      | true => exact absurd (by simpa using hb : a.name = v.name).symm h.1
    simp only [applyCore.assocSetTable, hne, Bool.false_eq_true, if_false, List.cons_append, ih h.2]

/-- the `VAL_TABLE_` lines become the tables, in their order -/
theorem vt_fold (todo done : List WTable) (m : RMatrix) (hm : m.tables = done.map WTable.line)
    (hnd : ((done ++ todo).map (·.name)).Nodup) (hk : ∀ t ∈ todo, (t.entries.map (·.1)).Nodup) :
    (todo.map fun t => Item.vt t.line).foldl applyItem m = { m with tables := (done ++ todo).map WTable.line } := by
  induction todo generalizing done m with
  | nil => simp [← hm]
  | cons t rest ih =>
    simp only [List.map_cons, List.foldl_cons]
    rw [apply_vt m t (hk t (by simp))]
    have hnew : applyCore.assocSetTable m.tables t.line = (done ++ [t]).map WTable.line := by
      rw [hm, assocSetTable_new]
      · simp
      · have : ((done.map (·.name)) ++ t.name :: rest.map (·.name)).Nodup := by simpa using hnd
        rw [List.nodup_append] at this
        intro hmem
        simp only [List.map_map] at hmem
        exact this.2.2 t.name (by simpa [WTable.line, Function.comp_def] using hmem) t.name (by simp) rfl
    rw [hnew]
    have := ih (done ++ [t]) { m with tables := (done ++ [t]).map WTable.line } rfl (by simpa using hnd)
      (fun x hx => hk x (List.mem_cons_of_mem _ hx))
    simpa using this

theorem wfVt_line (t : WTable) (hn : isIdent t.name = true) (ht : ∀ e ∈ t.entries, wfText e.2 = true) : (Stmt.vt t.line).wf = true := by
  simp only [Stmt.wf, wfVt, WTable.line, Bool.and_eq_true, List.all_eq_true, List.mem_map]
  refine ⟨hn, ?_⟩
  rintro ⟨k, tx⟩ ⟨e, he, heq⟩
  injection heq with h1 h2
  subst h1; subst h2
  refine ⟨⟨?_, ?_⟩, ht e he⟩
  · simpa using natDigits_ne_nil e.1
  · intro c hc
    exact (isDig_props c (natDigits_allDig e.1 c hc)).1

/-- statements about frames, signals and ECU comments never touch the value tables -/
theorem item_tables (m : RMatrix) (it : Item) (h : (itemFrameUpdA it).isSome = true ∨ isEcuItem it = true) :
    (applyItem m it).tables = m.tables := by
  cases it with
  | bu names => rfl
  | ba b =>
    obtain ⟨k, t, v⟩ := b
    cases t with
    | frame id => simp only [applyItem, Item.frameNo, applyCore]; repeat' split
                  all_goals rfl
    | signal id name => simp only [applyItem, Item.frameNo, applyCore]; repeat' split
                        all_goals rfl
    | global => rcases h with h | h <;> simp [itemFrameUpdA, itemFrameUpd, isEcuItem] at h
    | ecu e => rcases h with h | h <;> simp [itemFrameUpdA, itemFrameUpd, isEcuItem] at h
  | cm hd text =>
    cases hd with
    | bu name =>
      simp only [applyItem, Item.frameNo, applyCore]
      split <;> rfl
    | bo id => simp only [applyItem, Item.frameNo, applyCore]; repeat' split
               all_goals rfl
    | sg id name => simp only [applyItem, Item.frameNo, applyCore]; repeat' split
                    all_goals rfl
  | tx t => simp only [applyItem, Item.frameNo, applyCore]; repeat' split
            all_goals rfl
  | val v => simp only [applyItem, Item.frameNo, applyCore]; repeat' split
             all_goals rfl
  | valtype id name => simp only [applyItem, Item.frameNo, applyCore]; repeat' split
                       all_goals rfl
  | grp g => simp only [applyItem, Item.frameNo, applyCore]; repeat' split
             all_goals rfl
  | mul ml => simp only [applyItem, Item.frameNo, applyCore]; repeat' split
              all_goals rfl
  | _ => rcases h with h | h <;> simp [itemFrameUpdA, itemFrameUpd, isEcuItem] at h

theorem items_tables (its : List Item) (m : RMatrix) (h : ∀ it ∈ its, (itemFrameUpdA it).isSome = true ∨ isEcuItem it = true) :
    (its.foldl applyItem m).tables = m.tables := by
  induction its generalizing m with
  | nil => rfl
  | cons it its ih =>
    simp only [List.foldl_cons]
    rw [ih _ (fun x hx => h x (List.mem_cons_of_mem _ hx)), item_tables m it (h it (by simp))]

theorem kindsA' (es : List WEcu) (ps : List (WFrame × (Nat × Bool))) :
    ∀ it ∈ itemsA es ps, (itemFrameUpdA it).isSome = true ∨ isEcuItem it = true := by
  intro it hit
  rcases kindsA es ps it hit with h | h
  · left; rw [itemFrameUpdA_old it h]; exact h
  · right; exact h

theorem frames_fold_tables (bs : List Block) (ks : List (Nat × Bool)) (m : RMatrix) (hm : m.pending = none)
    (hw : ∀ b ∈ bs, wfBlock b = true) (hk : bs.map (fun b => boKey b.bo) = ks.map some) :
    ((writeFrames bs).foldl stepFile m).tables = m.tables := by
  induction bs generalizing ks m with
  | nil => rfl
  | cons b bs ih =>
    cases ks with
    | nil => simp at hk
    | cons k ks =>
      simp only [List.map_cons, List.cons.injEq] at hk
      simp only [writeFrames, List.flatMap_cons, List.foldl_append]
      rw [block_fold b k m hm (hw b (by simp)) hk.1]
      have := ih ks { m with frames := m.frames ++ [frameOfBlock b k], cur := some m.frames.length } hm
        (fun x hx => hw x (List.mem_cons_of_mem _ hx)) hk.2
      simp only [writeFrames] at this
      exact this

theorem writeCoreH_eq (es : List WEcu) (ts : List WTable) (ds : List DefLine) (dds : List DefDefLine) (ga : List (Str × Str)) (fs : List WFrame) :
    writeCoreH es ts ds dds ga fs = [renderBu (es.map (·.name)), []] ++ writeStmts (ts.map fun t => .vt t.line) ++ [[]] ++
      writeFrames (fs.map WFrame.block) ++ writeFile (stmtsA es fs ++ (stmtsB es ds dds ga ++ (stmtsF fs ++ stmtsC fs))) := rfl

/-- **The round trip of the whole matrix with its value tables, without a line error.** -/
theorem roundtrip_coreH (es : List WEcu) (hes : wfEcus es = true) (ts : List WTable) (hts : wfTables ts = true) (ds : List DefLine) (hds : wfDefs ds = true)
    (dds : List DefDefLine) (hdds : wfDefaults ds dds = true)
    (ga : List (Str × Str)) (hga : wfAttrs (expectDefs ds dds) .global .global ga = true)
    (hea : ∀ e ∈ es, wfAttrs (expectDefs ds dds) .ecu (.ecu e.name) e.attrs = true)
    (ps : List (WFrame × (Nat × Bool))) (hwf : ∀ p ∈ ps, p.1.wf p.2 = true) (hdist : ps.Pairwise fun p q => p.2 ≠ q.2)
    (hfa : ∀ p ∈ ps, p.1.wfA (expectDefs ds dds) = true) :
    (readFile (writeCoreH es ts ds dds ga (ps.map (·.1)))).ecus = es.map WEcu.expectA ∧
    (readFile (writeCoreH es ts ds dds ga (ps.map (·.1)))).defs = expectDefs ds dds ∧
    (readFile (writeCoreH es ts ds dds ga (ps.map (·.1)))).attrs = attrsOf ga ∧
    (readFile (writeCoreH es ts ds dds ga (ps.map (·.1)))).frames = ps.map (fun p => p.1.expectA p.2) ∧
    (readFile (writeCoreH es ts ds dds ga (ps.map (·.1)))).pending = none ∧
    (readFile (writeCoreH es ts ds dds ga (ps.map (·.1)))).errors = 0 ∧
    (readFile (writeCoreH es ts ds dds ga (ps.map (·.1)))).tables = ts.map WTable.line := by
  rw [writeCoreH_eq]
  unfold readFile
  have hes' := hes
  simp only [wfEcus, Bool.and_eq_true, List.all_eq_true, decide_eq_true_eq] at hes'
  obtain ⟨hall, hnd⟩ := hes'
  have hbuwf : (Stmt.bu (es.map (·.name))).wf = true := by
    simp only [Stmt.wf, List.all_eq_true, Bool.and_eq_true, decide_eq_true_eq]
    intro n hn
    obtain ⟨e, he, rfl⟩ := List.mem_map.mp hn
    exact (hall e he).1
  rw [List.foldl_append, List.foldl_append, List.foldl_append, List.foldl_append]
  have h0 : [renderBu (es.map (·.name)), ([] : Str)].foldl stepFile {} = { ecus := es.map plainEcu } := by
    simp only [List.foldl_cons, List.foldl_nil]
    have := step_stmt {} (.bu (es.map (·.name))) rfl hbuwf
    simp only [Stmt.line] at this
    rw [this, step_skip _ [] rfl (by decide)]
    simp [applyStmt, Stmt.item, applyItem, Item.frameNo, applyCore, plainEcu, Function.comp_def]
  rw [h0]
  simp only [wfTables, Bool.and_eq_true, List.all_eq_true, decide_eq_true_eq] at hts
  have hvt : (writeStmts (ts.map fun t => Stmt.vt t.line)).foldl stepFile { ecus := es.map plainEcu } =
      { ecus := es.map plainEcu, tables := ts.map WTable.line } := by
    rw [read_statements _ (by
      intro s hs
      obtain ⟨tb, htb, rfl⟩ := List.mem_map.mp hs
      exact wfVt_line tb (hts.1 tb htb).1.1 (hts.1 tb htb).1.2) _ rfl]
    have : (ts.map fun t => Stmt.vt t.line).foldl applyStmt { ecus := es.map plainEcu } =
        (ts.map fun t => Item.vt t.line).foldl applyItem { ecus := es.map plainEcu } := by
      rw [List.foldl_map, List.foldl_map]
      rfl
    rw [this]
    have := vt_fold ts [] { ecus := es.map plainEcu } rfl (by simpa using hts.2) (fun tb htb => (hts.1 tb htb).2)
    simpa using this
  rw [hvt]
  have hgap : [([] : Str)].foldl stepFile { ecus := es.map plainEcu, tables := ts.map WTable.line } =
      { ecus := es.map plainEcu, tables := ts.map WTable.line } := by
    simp only [List.foldl_cons, List.foldl_nil]
    exact step_gap _ rfl
  rw [hgap]
  have hblocks : (ps.map (·.1)).map WFrame.block = ps.map fun p => p.1.block := by rw [List.map_map]; rfl
  have hkeys : (ps.map fun p => p.1.block).map (fun b => boKey b.bo) = (ps.map (·.2)).map some := by
    rw [List.map_map, List.map_map]
    apply List.map_congr_left
    intro p hp
    exact (wf_unpack (hwf p hp)).2.1
  have hblk : ∀ b ∈ (ps.map fun p => p.1.block), wfBlock b = true := by
    intro b hb; obtain ⟨p, hp, rfl⟩ := List.mem_map.mp hb; exact (wf_unpack (hwf p hp)).1
  have hA := frames_fold (ps.map fun p => p.1.block) (ps.map (·.2)) { ecus := es.map plainEcu, tables := ts.map WTable.line } rfl hblk hkeys
  have hAt := frames_fold_tables (ps.map fun p => p.1.block) (ps.map (·.2)) { ecus := es.map plainEcu, tables := ts.map WTable.line } rfl hblk hkeys
  have hA' := frames_fold_defs (ps.map fun p => p.1.block) (ps.map (·.2)) { ecus := es.map plainEcu, tables := ts.map WTable.line } rfl hblk hkeys
  rw [hblocks]
  generalize hmA : (writeFrames (ps.map fun p => p.1.block)).foldl stepFile { ecus := es.map plainEcu, tables := ts.map WTable.line } = mA at hA hA' hAt
  obtain ⟨hAf, hAp, hAe, hAerr⟩ := hA
  obtain ⟨hAd, hAa⟩ := hA'
  rw [framesOfBlocks_ps] at hAf
  simp only [List.nil_append] at hAf hAe hAd hAa
  have hAkeys : mA.frames.map (·.key) = ps.map (·.2) := by
    rw [hAf, List.map_map]; rfl
  have hAnames : mA.ecus.map (·.name) = es.map (·.name) := by
    rw [hAe, List.map_map]; rfl
  have huA : KeysUnique mA := by
    unfold KeysUnique
    have : (mA.frames.map (·.key)).Pairwise (· ≠ ·) := by
      rw [hAkeys, List.pairwise_map]; exact hdist
    rwa [List.pairwise_map] at this
  -- the three states
  have hm1 : (stmtsA es (ps.map (·.1))).foldl FileStmt.apply mA = (itemsA es ps).foldl applyItem mA := by
    rw [apply_eq_items, stmtsA_items]
  have hm2 : ∀ m, (stmtsB es ds dds ga).foldl FileStmt.apply m = (itemsB es ds dds ga).foldl applyItem m := by
    intro m; rw [apply_eq_items, stmtsB_items]
  have hm3 : ∀ m, (stmtsC (ps.map (·.1))).foldl FileStmt.apply m = (itemsC ps).foldl applyItem m := by
    intro m; rw [apply_eq_items, stmtsC_items]
  generalize hm1d : (itemsA es ps).foldl applyItem mA = m1 at hm1
  have h1f : m1.frames = mA.frames.map fun f => (itemsA es ps).foldl (fun acc it => itemUpd it acc) f := by
    rw [← hm1d]; exact frames_after_items' _ mA huA (kindsA es ps)
  have h1e : m1.ecus = es.map WEcu.expect := by rw [← hm1d]; exact ecusA es hnd ps mA hAe
  have h1d : m1.defs = [] ∧ m1.attrs = [] := by
    have := items_defs (itemsA es ps) mA (kindsA es ps)
    rw [hm1d] at this
    exact ⟨this.1.trans hAd, this.2.trans hAa⟩
  have h1p : m1.pending = none := by
    rw [← hm1d]
    apply fold_pending _ mA hAp
    intro it hit hd first e
    subst e
    rcases kindsA es ps _ hit with h | h
    · simp [itemFrameUpd] at h
    · simp [isEcuItem] at h
  have h2 := stateB es hnd ds hds dds (wfDefaults_ok ds dds hdds) ga hga hea m1 h1d.1 h1d.2 h1e
  generalize hm2d : (itemsB es ds dds ga).foldl applyItem m1 = m2 at h2
  have h1keys : m1.frames.map (·.key) = ps.map (·.2) := by
    rw [h1f, List.map_map, ← hAkeys]
    apply List.map_congr_left
    intro f _
    simp only [Function.comp_apply]
    exact fold_key _ f
  have hu1 : KeysUnique m1 := keysUnique_of_keys mA m1 (by rw [h1keys, hAkeys]) huA
  have hu2 : KeysUnique m2 := keysUnique_of_keys m1 m2 (by rw [h2]) hu1
  -- the attribute statements of frames and signals
  have hm2f : ∀ m, (stmtsF (ps.map (·.1))).foldl FileStmt.apply m = (itemsF ps).foldl applyItem m := by
    intro m; rw [apply_eq_items, stmtsF_items]
  have hallF : ∀ it ∈ itemsF ps, isFrameBa it = true ∧ baOk m2.defs it = true := by
    intro it hit
    have hd2 : m2.defs = expectDefs ds dds := by rw [h2]
    rw [hd2]
    simp only [itemsF, List.mem_append, List.mem_flatMap] at hit
    rcases hit with ⟨p, hp, h⟩ | ⟨p, hp, h⟩
    · obtain ⟨kv, hkv, rfl⟩ := List.mem_map.mp h
      have := hfa p hp
      simp only [WFrame.wfA, wfAttrs, Bool.and_eq_true, List.all_eq_true] at this
      exact ⟨rfl, (this.1 kv hkv).2⟩
    · obtain ⟨s, hs, h'⟩ := List.mem_flatMap.mp h
      obtain ⟨kv, hkv, rfl⟩ := List.mem_map.mp h'
      have := hfa p hp
      simp only [WFrame.wfA, wfAttrs, Bool.and_eq_true, List.all_eq_true] at this
      exact ⟨rfl, (this.2 s hs kv hkv).2⟩
  have h3 := ba_fold (itemsF ps) m2 hu2 hallF
  generalize hm3d : (itemsF ps).foldl applyItem m2 = m3 at h3
  obtain ⟨h3f, h3d, h3e, h3a⟩ := h3
  have h2keys : m2.frames.map (·.key) = ps.map (·.2) := by rw [h2]; exact h1keys
  have h3keys : m3.frames.map (·.key) = ps.map (·.2) := by
    rw [h3f, List.map_map, ← h2keys]
    apply List.map_congr_left
    intro f _
    simp only [Function.comp_apply]
    exact fold_keyA _ f
  have hu3 : KeysUnique m3 := keysUnique_of_keys m2 m3 (by rw [h3keys, h2keys]) hu2
  have h2p : m2.pending = none := by rw [h2]; exact h1p
  have h3p : m3.pending = none := by
    rw [← hm3d]
    apply fold_pending _ m2 h2p
    intro it hit hd first e
    subst e
    have := (hallF _ hit).1
    simp [isFrameBa] at this
  -- every statement can be read at its point
  have hokA : okFile mA (stmtsA es (ps.map (·.1))) = true := by
    apply okFile_staticE _ mA huA
    intro s hs
    rw [hAkeys, hAnames]
    simp only [stmtsA, List.mem_append, List.mem_flatMap, List.mem_map] at hs
    rcases hs with ((⟨f, ⟨p, hp, rfl⟩, hsf⟩ | ⟨f, ⟨p, hp, rfl⟩, hsf⟩) | ⟨f, ⟨p, hp, rfl⟩, hsf⟩) | hsf
    · exact staticOkE_of _ _ _ (tx_static p.1 p.2 (hwf p hp) _ s hsf)
    · exact staticOkE_of _ _ _ (cm_static p.1 p.2 (hwf p hp) _ (List.mem_map.mpr ⟨p, hp, rfl⟩) s hsf)
    · exact staticOkE_of _ _ _ (sigcm_static p.1 p.2 (hwf p hp) _ (List.mem_map.mpr ⟨p, hp, rfl⟩) s hsf)
    · unfold ecuCmStmts at hsf
      obtain ⟨e, he, hse⟩ := List.mem_filterMap.mp hsf
      cases hc : e.comment with
      | none => rw [hc] at hse; simp at hse
      | some c =>
        rw [hc] at hse; simp only [Option.map_some, Option.some.injEq] at hse; subst hse
        have := hall e he
        rw [hc] at this
        refine ⟨?_, ?_, List.mem_map.mpr ⟨e, he, rfl⟩⟩
        · simp only [wfCmHead]; exact this.1.1
        · simpa using this.2
  have hokB : okFile m1 (stmtsB es ds dds ga) = true :=
    okFile_ones _ (stmtsB_ones es ds hds dds (wfDefaults_wf ds dds hdds) _ ga hga hea) m1
  have hokF : okFile m2 (stmtsF (ps.map (·.1))) = true := by
    apply okFile_ones
    intro s hs
    simp only [stmtsF, List.mem_append, List.mem_flatMap, List.mem_map] at hs
    rcases hs with ⟨f, ⟨p, hp, rfl⟩, h⟩ | ⟨f, ⟨p, hp, rfl⟩, h⟩
    · obtain ⟨kv, hkv, rfl⟩ := List.mem_map.mp h
      have := hfa p hp
      simp only [WFrame.wfA, wfAttrs, Bool.and_eq_true, List.all_eq_true] at this
      exact ⟨_, rfl, (this.1 kv hkv).1⟩
    · obtain ⟨sg, hsg, h'⟩ := List.mem_flatMap.mp h
      obtain ⟨kv, hkv, rfl⟩ := List.mem_map.mp h'
      have := hfa p hp
      simp only [WFrame.wfA, wfAttrs, Bool.and_eq_true, List.all_eq_true] at this
      exact ⟨_, rfl, (this.2 sg hsg kv hkv).1⟩
  have hokC : okFile m3 (stmtsC (ps.map (·.1))) = true := by
    apply okFile_staticE _ m3 hu3
    intro s hs
    rw [h3keys]
    simp only [stmtsC, List.mem_append, List.mem_flatMap, List.mem_map] at hs
    rcases hs with ((⟨f, ⟨p, hp, rfl⟩, hsf⟩ | ⟨f, ⟨p, hp, rfl⟩, hsf⟩) | ⟨f, ⟨p, hp, rfl⟩, hsf⟩) | ⟨f, ⟨p, hp, rfl⟩, hsf⟩
    · exact staticOkE_of _ _ _ (val_static p.1 p.2 (hwf p hp) _ s hsf)
    · exact staticOkE_of _ _ _ (valtype_static p.1 p.2 (hwf p hp) _ s hsf)
    · exact staticOkE_of _ _ _ (grp_static p.1 p.2 (hwf p hp) _ s hsf)
    · exact staticOkE_of _ _ _ (mul_static p.1 p.2 (hwf p hp) _ s hsf)
  have hok : okFile mA (stmtsA es (ps.map (·.1)) ++ (stmtsB es ds dds ga ++ (stmtsF (ps.map (·.1)) ++ stmtsC (ps.map (·.1))))) = true := by
    rw [okFile_append, okFile_append, okFile_append, hokA, hm1, hokB, hm2 m1, hm2d, hokF, hm2f m2, hm3d, hokC]
    rfl
  rw [read_file _ mA hAp hok, List.foldl_append, List.foldl_append, List.foldl_append, hm1, hm2 m1, hm2d, hm2f m2, hm3d, hm3 m3]
  have h4f := frames_after_items (itemsC ps) m3 hu3 (kindsC ps)
  have h4e := ecus_after_items (itemsC ps) m3 (fun it hit => Or.inl (kindsC ps it hit))
  have h4d := items_defs (itemsC ps) m3 (fun it hit => Or.inl (kindsC ps it hit))
  refine ⟨?_, ?_, ?_, ?_, ?_, ?_, ?_⟩
  · rw [h4e, fold_other_ecus _ (kindsC ps), h3e, h2]
  · rw [h4d.1, h3d, h2]
  · rw [h4d.2, h3a, h2]
  · rw [h4f, h3f, h2]
    simp only
    rw [h1f, hAf, List.map_map, List.map_map, List.map_map]
    apply List.map_congr_left
    intro p hp
    simp only [Function.comp_apply]
    exact per_frameF es ps hwf hdist p hp
  · apply fold_pending _ m3 h3p
    intro it hit hd first e
    subst e
    have := kindsC ps _ hit
    simp [itemFrameUpd] at this
  · -- no line error: every statement finds its frame (and, where it must, its signal), every value is accepted
    have hnumAll : ∀ q ∈ ps, keyOfCompound q.1.bo.id = some q.2 := fun q hq => (wf_unpack (hwf q hq)).2.2.1
    have hPA : Shaped (shapesOf ps) mA := by
      refine ⟨huA, ?_⟩
      rw [hAf, List.map_map]
      apply List.map_congr_left
      intro p _
      simp [sigShape, frameOfBlock, sigsOf, WFrame.block, rereadSg_name, Function.comp_def]
    have e1 : m1.errors = mA.errors ∧ Shaped (shapesOf ps) m1 := by
      rw [← hm1d, itemsA_split, List.foldl_append]
      have a1 := fine_fold _ (itemsA3 ps) mA hPA (itemsA3_fine ps hnumAll mA.defs)
      have a2 := ecu_fold_errors _ (ecuCmItems es) (ecuCmItems_form es) _ a1.2
      exact ⟨a2.1.trans a1.1, a2.2⟩
    have e2 : m2.errors = m1.errors ∧ Shaped (shapesOf ps) m2 := by
      rw [h2]
      exact ⟨rfl, ⟨keysUnique_of_keys m1 _ rfl e1.2.1, e1.2.2⟩⟩
    have e3 : m3.errors = m2.errors ∧ Shaped (shapesOf ps) m3 := by
      rw [← hm3d]
      exact fine_fold _ (itemsF ps) m2 e2.2 (fun it hit => ⟨itemsF_fine ps hnumAll it hit, (hallF it hit).2⟩)
    have e4 := fine_fold _ (itemsC ps) m3 e3.2 (itemsC_fine ps hnumAll m3.defs)
    rw [e4.1, e3.1, e2.1, e1.1, hAerr]
  · -- the value tables are never touched after their section
    have t1 : m1.tables = mA.tables := by rw [← hm1d]; exact items_tables _ mA (kindsA' es ps)
    have t2 : m2.tables = m1.tables := by rw [h2]
    have t3 : m3.tables = m2.tables := by
      rw [← hm3d]
      exact items_tables _ m2 (fun it hit => by
        obtain ⟨b, rfl, hs⟩ := isFrameBa_some it (hallF it hit).1
        exact Or.inl hs)
    have t4 := items_tables (itemsC ps) m3 (fun it hit => Or.inl (by rw [itemFrameUpdA_old it (kindsC ps it hit)]; exact kindsC ps it hit))
    rw [t4, t3, t2, t1, hAt]

end CanVerif.Dbc.FileProofs
