#!/bin/bash
# tools/prefix_check.sh <commit> <Cxx> [Cyy ...] : revert one fix: commit in the working tree of /repo, run the checks, restore
c="$1"; shift
git -C /repo show "$c" > /tmp/prefix_$c.diff
git -C /repo apply -R /tmp/prefix_$c.diff || { echo "cannot revert $c"; exit 3; }
for p in "$@"; do echo -n "$c reverted, $p: "; (cd /verif && ./check $p quick | grep -E "^(VIOLATION|OK)" | head -1); done
git -C /repo checkout -- .
rm -f /tmp/prefix_$c.diff
