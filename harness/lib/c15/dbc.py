"""C15: a DBC writer that follows the keyword grammar of the format (as in the Vector samples under tests/files/dbc), independent
of canmatrix's own writer, with the lexical freedom of the format as a parameter: blanks between tokens, line ends, number
renderings, order of statements within a section, optional parts left out."""
from lib.c15 import net as N

NET_OPTS = {"extmux": True, "same_number_both_formats": True}


class Lex(object):
    def __init__(self, rng, level):
        self.rng = rng
        self.level = level           # 0 = one blank everywhere, canonical numbers, fixed order; 1 = varied

    def sp(self):
        """at least one blank between two tokens"""
        if self.level == 0:
            return " "
        return self.rng.choice([" ", " ", " ", "  ", "   "])

    def osp(self):
        """optional blank (around punctuation)"""
        if self.level == 0:
            return ""
        return self.rng.choice(["", "", " "])

    def num(self, value, table):
        if self.level == 0:
            return value
        for v, forms in table:
            if v == value:
                return self.rng.choice(forms)
        return value

    def order(self, items):
        items = list(items)
        if self.level:
            self.rng.shuffle(items)
        return items

    def eol(self):
        return "\r\n" if (self.level and self.crlf) else "\n"


def dbc_start(sig):
    return sig["anchor"]      # Intel: least significant bit; Motorola: most significant bit, both in the 8*byte+bit numbering


def compound(f):
    return f["id"] | (0x80000000 if f["ext"] else 0)


def quote(text):
    return '"' + text.replace('"', '\\"') + '"'


def render(net, lex, opts=None):
    o = opts or {}
    L = lex
    L.crlf = L.level and L.rng.random() < 0.3
    out = []
    out.append('VERSION' + L.sp() + '""')
    out.append("")
    if L.level and L.rng.random() < 0.5:
        out.append("NS_ :")
        for sym in ["NS_DESC_", "CM_", "BA_DEF_", "BA_", "VAL_", "BA_DEF_DEF_", "SIG_VALTYPE_", "BO_TX_BU_", "SG_MUL_VAL_"]:
            out.append("\t" + sym)
    else:
        out.append("NS_ :")
    out.append("")
    out.append("BS_:")
    out.append("")
    out.append("BU_:" + "".join(L.sp() + e for e in net["ecus"]))
    out.append("")
    for name, tab in net.get("value_tables", {}).items():
        out.append("VAL_TABLE_" + L.sp() + name + "".join(L.sp() + k + L.sp() + quote(v) for k, v in L.order(tab.items())) + L.osp() + ";")
    out.append("")
    for f in net["frames"]:
        tx = f["tx"][0] if f["tx"] else "Vector__XXX"
        out.append("BO_" + L.sp() + str(compound(f)) + L.sp() + f["name"] + L.osp() + ":" + L.sp() + str(f["size"]) + L.sp() + tx)
        for s in f["signals"]:
            tag = ""
            if s["mux"] == "M" and "muxval" in s:
                tag = "m%dM" % s["muxval"] + L.sp()
            elif s["mux"] == "M":
                tag = "M" + L.sp()
            elif s["mux"] is not None:
                tag = "m%d" % s["mux"] + L.sp()
            mn = L.num(s["min"], []) if s["min"] is not None else "0"
            mx = L.num(s["max"], []) if s["max"] is not None else "0"
            rx = ("," + L.osp()).join(s["receivers"]) if s["receivers"] else "Vector__XXX"
            out.append(" SG_" + L.sp() + s["name"] + L.sp() + tag + ":" + L.sp() + "%d|%d@%d%s" % (dbc_start(s), s["size"], 1 if s["little"] else 0, "-" if s["signed"] else "+") +
                       L.sp() + "(" + L.num(s["factor"], N.NUMBERS) + "," + L.num(s["offset"], N.OFFSETS) + ")" + L.sp() + "[" + mn + "|" + mx + "]" +
                       L.sp() + '"' + s["unit"] + '"' + L.sp() + rx)
        out.append("")
    out.append("")
    # senders beyond the first
    for f in L.order(net["frames"]):
        if len(f["tx"]) > 1:
            out.append("BO_TX_BU_" + L.sp() + str(compound(f)) + L.sp() + ":" + L.sp() + ",".join(f["tx"]) + ";")
    # comments
    cm = []
    for f in net["frames"]:
        if f["comment"]:
            cm.append("CM_" + L.sp() + "BO_" + L.sp() + str(compound(f)) + L.sp() + quote(f["comment"]) + L.osp() + ";")
        for s in f["signals"]:
            if s["comment"]:
                cm.append("CM_" + L.sp() + "SG_" + L.sp() + str(compound(f)) + L.sp() + s["name"] + L.sp() + quote(s["comment"]) + L.osp() + ";")
    for e, text in net.get("ecu_comments", {}).items():
        cm.append("CM_" + L.sp() + "BU_" + L.sp() + e + L.sp() + quote(text) + L.osp() + ";")
    out.extend(L.order(cm))
    # attribute definitions, defaults, values: cycle time as the usual GenMsgCycleTime attribute
    have_cycle = any(f.get("cycle") for f in net["frames"])
    defs = []
    dflt = []
    kw = {"frame": "BO_", "signal": "SG_", "ecu": "BU_", "global": ""}
    alldefs = {lvl: list(net.get("defs", {}).get(lvl, [])) for lvl in kw}
    if have_cycle:
        alldefs["frame"].append(["GenMsgCycleTime", "INT", ["0", "65535"], "0" if not (L.level and L.rng.random() < 0.3) else None])
    for lvl in kw:
        for name, kind, par, default in alldefs[lvl]:
            head = "BA_DEF_" + L.sp() + (kw[lvl] + L.sp() if kw[lvl] else "") + '"' + name + '"' + L.sp() + kind
            if kind == "ENUM":
                head += L.sp() + ("," + L.osp()).join('"%s"' % v for v in par)
            elif par:
                head += L.sp() + par[0] + L.sp() + par[1]
            defs.append(head + L.osp() + ";")
            if default is not None:
                dflt.append("BA_DEF_DEF_" + L.sp() + '"' + name + '"' + L.sp() + ('"%s"' % default if kind in ("STRING", "ENUM") else default) + L.osp() + ";")
    out.extend(L.order(defs))
    out.extend(L.order(dflt))
    ba = []

    def val(lvl, name, v):
        kind = next(d[1] for d in alldefs[lvl] if d[0] == name)
        if kind == "STRING":
            return '"%s"' % v
        if kind == "ENUM":
            return str(next(d[2] for d in alldefs[lvl] if d[0] == name).index(v))
        return v
    for k, v in net.get("gattrs", {}).items():
        ba.append("BA_" + L.sp() + '"%s"' % k + L.sp() + val("global", k, v) + L.osp() + ";")
    for e, attrs in net.get("ecu_attrs", {}).items():
        for k, v in attrs.items():
            ba.append("BA_" + L.sp() + '"%s"' % k + L.sp() + "BU_" + L.sp() + e + L.sp() + val("ecu", k, v) + L.osp() + ";")
    for f in net["frames"]:
        if f.get("cycle"):
            ba.append("BA_" + L.sp() + '"GenMsgCycleTime"' + L.sp() + "BO_" + L.sp() + str(compound(f)) + L.sp() + str(f["cycle"]) + L.osp() + ";")
        for k, v in f.get("attrs", {}).items():
            ba.append("BA_" + L.sp() + '"%s"' % k + L.sp() + "BO_" + L.sp() + str(compound(f)) + L.sp() + val("frame", k, v) + L.osp() + ";")
        for s in f["signals"]:
            for k, v in s.get("attrs", {}).items():
                ba.append("BA_" + L.sp() + '"%s"' % k + L.sp() + "SG_" + L.sp() + str(compound(f)) + L.sp() + s["name"] + L.sp() + val("signal", k, v) + L.osp() + ";")
    out.extend(L.order(ba))
    # value descriptions
    vals = []
    for f in net["frames"]:
        for s in f["signals"]:
            if s["values"]:
                items = L.order(sorted(s["values"].items(), key=lambda kv: int(kv[0])))
                vals.append("VAL_" + L.sp() + str(compound(f)) + L.sp() + s["name"] + "".join(L.sp() + k + L.sp() + quote(v) for k, v in items) + L.osp() + ";")
    out.extend(L.order(vals))
    vt = []
    for f in net["frames"]:
        for s in f["signals"]:
            if s["float"]:
                vt.append("SIG_VALTYPE_" + L.sp() + str(compound(f)) + L.sp() + s["name"] + L.osp() + ":" + L.sp() + ("2" if s["size"] == 64 else "1") + L.osp() + ";")
    out.extend(L.order(vt))
    for f in net["frames"]:
        if f.get("group"):
            g = f["group"]
            out.append("SIG_GROUP_" + L.sp() + str(compound(f)) + L.sp() + g[0] + L.sp() + str(g[1]) + L.sp() + ":" + "".join(L.sp() + n for n in g[2]) + L.osp() + ";")
    mul = []
    for f in net["frames"]:
        for s in f["signals"]:
            if s.get("muxer_for") and s.get("grp"):
                mul.append("SG_MUL_VAL_" + L.sp() + str(compound(f)) + L.sp() + s["name"] + L.sp() + s["muxer_for"] + L.sp() +
                           ("," + L.sp()).join("%d-%d" % (a, b) for a, b in s["grp"]) + L.osp() + ";")
    out.extend(L.order(mul))
    out.append("")
    if L.level and L.crlf and any("\n" in line for line in out):
        # a file with CR LF line ends has them inside the texts that run over several lines too; now and then the line ends are
        # mixed (statements end in CR LF, the lines of a text in LF: a file that went through two editors), as they were before
        if L.rng.random() < 0.75:
            return "\r\n".join(line.replace("\n", "\r\n") for line in out)
    return L.eol().join(out)
