import CanVerif.Model.DbcStmt
import CanVerif.Proofs.DbcStmt
/-!
# C05 (continued) — further DBC statements are read back as written: `BO_TX_BU_`, `SIG_VALTYPE_`, `SG_MUL_VAL_`

Same shape as the `BO_`/`SG_`/`VAL_` theorems of Props/C05.lean: for every well-formed statement (identifier-like names),
the reader model applied to the writer model's line gives the statement back.  The models are tied to dbc.dump / dbc.load by the
correspondence check (ops `tx`, `vt`, `mul` of the C05 harness: same line text, same parse result).
-/
namespace CanVerif.C05b
open CanVerif CanVerif.Dbc

/-- `BO_TX_BU_`: the list of senders is read back as written (any number of senders, any identifier) -/
theorem tx_line_roundtrip (t : TxLine) (h : wfTx t = true) : parseTx (renderTx t) = some t := by
  exact StmtProofs.parseTx_renderTx t h

/-- adding the listed senders to a frame that has none yet (`Vector__XXX` in its `BO_` line) gives the list -/
theorem tx_senders_restored (ecus : List Str) (hnd : ecus.Nodup) : addTransmitters [] ecus = ecus := by
  simpa using StmtProofs.addTransmitters_append [] ecus (by simpa using hnd)

/-- adding them to a frame whose `BO_` line already named the first sender gives the list as well -/
theorem tx_senders_restored_after_bo (first : Str) (rest : List Str) (hnd : (first :: rest).Nodup) :
    addTransmitters [first] (first :: rest) = first :: rest := by
  exact StmtProofs.addTransmitters_after_first first rest hnd

/-- `SIG_VALTYPE_`: the reader finds the frame and the signal the line names (and makes it a float, whatever the type number) -/
theorem valtype_line_roundtrip (v : ValTypeLine) (h : wfValType v = true) :
    parseValType (renderValType v) = some (v.id, v.name) := by
  exact StmtProofs.parseValType_renderValType v h

/-- `SG_MUL_VAL_`: signal, multiplexer and all selector ranges are read back as written -/
theorem mul_line_roundtrip (m : MulLine) (h : wfMul m = true) (hne : m.ranges ≠ []) : parseMul (renderMul m) = some m := by
  exact StmtProofs.parseMul_renderMul m h hne

/-- the hypothesis `hne` is needed: a binding without ranges is written as `SG_MUL_VAL_ id sig muxer ;`, which the reader rejects
(`"".split("-")` does not give two parts) -/
theorem mul_line_without_ranges_not_read (m : MulLine) (h : wfMul m = true) (he : m.ranges = []) : parseMul (renderMul m) = none := by
  exact StmtProofs.parseMul_no_ranges m h he

/-! non-vacuity -/
example : parseTx (renderTx { id := 2147483904, ecus := ["ECU_A".toList, "Gw".toList] }) = some { id := 2147483904, ecus := ["ECU_A".toList, "Gw".toList] } := by decide
example : renderMul { id := 5, sig := "s".toList, muxer := "mx".toList, ranges := [(1, 1), (3, 7)] } = "SG_MUL_VAL_ 5 s mx 1-1, 3-7;".toList := by decide
example : parseMul "SG_MUL_VAL_ 5 s mx 1-1, 3-7;".toList = some { id := 5, sig := "s".toList, muxer := "mx".toList, ranges := [(1, 1), (3, 7)] } := by decide
example : parseValType "SIG_VALTYPE_ 5 s : 2;".toList = some (5, "s".toList) := by decide
example : parseValType "SIG_VALTYPE_ 5 s: 1;".toList = some (5, "s".toList) := by decide

end CanVerif.C05b
