#!/usr/bin/env python3
"""Regenerates MANIFEST.json from tools/claims.json (one entry per claimed property) and
properties.jsonl (every property not claimed is listed under not_applicable with its reason)."""
import json, os
ROOT = os.path.dirname(os.path.dirname(os.path.abspath(__file__)))
claims = json.load(open(os.path.join(ROOT, "tools", "claims.json")))
props = [json.loads(l) for l in open(os.path.join(ROOT, "properties.jsonl")) if l.strip()]
checks = []
na = []
for p in props:
    pid = p["id"]
    c = claims["claimed"].get(pid)
    if c is None:
        na.append({"property_id": pid, "reason": claims["unclaimed"].get(pid, "model and correspondence check not built yet; not claimed until both run (DESIGN.md section 8)")})
        continue
    checks.append({
        "property_id": pid,
        "quick_cmd": "./check %s quick" % pid,
        "thorough_cmd": "./check %s thorough" % pid,
        "evidence_file": "evidence/%s.json" % pid,
        "replay_cmd_template": "./check %s --replay {path}" % pid,
        "engine": "lean4-proof+correspondence",
        "level_claimed": {"category": "proof", "text": c["text"], "design_ref": c.get("design_ref", "DESIGN.md section 6, " + pid)},
        "level_note": c["note"],
        "technique": c["technique"],
    })
m = {
    "version": 1,
    "setup_cmd": "cd lean && lake build CanVerif candriver",
    "hooks": {
        "guard": "CANMATRIX_VERIF",
        "enable": "no hooks are needed: every observable is reachable through the public API; checks import /repo/src in-process (editable install in /venv)",
        "baseline_off_cmd": "cd /repo && /venv/bin/python -m pytest -ra -q -p no:cacheprovider --timeout=900 --continue-on-collection-errors --junitxml=/tmp/canmatrix_baseline.junit.xml",
        "source_commits": [],
        "add_only": True,
    },
    "engines": [{
        "name": "lean4-proof+correspondence", "path": "lean/ + harness/",
        "serves_properties": [c["property_id"] for c in checks],
        "kind_free_text": "Lean 4 theorems about a hand-written executable model (lean/CanVerif), audited with #print axioms on every run; "
                          "model tied to /repo by a differential correspondence check through the native driver candriver; the Lean Spec "
                          "evaluated on the implementation's observations is the failing-input search"}],
    "checks": checks,
    "not_applicable": na,
    "notes": claims.get("notes", ""),
}
json.dump(m, open(os.path.join(ROOT, "MANIFEST.json"), "w"), indent=1)
print("claimed:", [c["property_id"] for c in checks], "unclaimed:", len(na))
