"""C15: a writer of canmatrix's JSON format following the keys of its full export (jsonExportAll), independent of canmatrix's
writer.  Freedom of JSON: key order, whitespace, numbers as strings or native numbers, optional keys left out when they have
their default (factor 1, offset 0, is_big_endian/is_signed/is_float false, is_extended_frame false)."""
from __future__ import absolute_import

import json as _json
from decimal import Decimal as _D

from lib.c15 import net as N
from lib.c15.dbc import Lex  # noqa: F401

NET_OPTS = {"lengths": [1, 2, 4, 8, 8, 8, 12, 16, 64], "attributes": False}
SKIP = ("attrs", "group")


def start_bit(sig):
    return N.lsb_addr(sig)          # `lsb` notation: address of the least significant bit for both byte orders


def num(L, value, table):
    text = L.num(value, table)
    if L.level and L.rng.random() < 0.3:
        try:
            if float(text) == int(float(text)) and "." not in text and "e" not in text.lower():
                return int(text)
            return float(text)
        except ValueError:
            return text
    return text


def whole(L, text):
    if L.level and L.rng.random() < 0.4:
        try:
            v = _D(text)
        except Exception:  # noqa
            return text
        if v == v.to_integral_value() and abs(v) < 10 ** 15:
            return int(v)
    return text


def render(net, lex, opts=None):
    L = lex

    def drop(default):
        return L.level and default and L.rng.random() < 0.5
    msgs = []
    for f in net["frames"]:
        sigs = []
        for s in f["signals"]:
            d = {"name": s["name"], "start_bit": start_bit(s), "bit_length": s["size"]}
            if not drop(s["factor"] == "1"):
                d["factor"] = num(L, s["factor"], N.NUMBERS)
            if not drop(s["offset"] == "0"):
                d["offset"] = num(L, s["offset"], N.OFFSETS)
            if not drop(s["little"]):
                d["is_big_endian"] = not s["little"]
            if not drop(not s["signed"]):
                d["is_signed"] = s["signed"]
            if not drop(not s["float"]):
                d["is_float"] = s["float"]
            if s["min"] is not None:
                # limits as strings, or - where the number is a whole one - as native JSON integers
                d["min"] = whole(L, s["min"])
                d["max"] = whole(L, s["max"])
            if s["unit"]:
                d["unit"] = s["unit"]
            if s["comment"] or not L.level:
                d["comment"] = s["comment"] or None
            if s["values"]:
                d["values"] = dict(s["values"])
            if s["receivers"] or not L.level:
                d["receivers"] = list(s["receivers"])
            if s["mux"] == "M":
                d["multiplex"] = "Multiplexor"
                d["is_multiplexer"] = True
            elif s["mux"] is not None:
                d["multiplex"] = s["mux"]
                d["mux_value"] = s["mux"]
            sigs.append(d)
        m = {"name": f["name"], "id": f["id"], "signals": sigs, "length": f["size"]}
        if not drop(not f["ext"]):
            m["is_extended_frame"] = f["ext"]
        if f["tx"] or not L.level:
            m["transmitters"] = list(f["tx"])
        if f["comment"] or not L.level:
            m["comment"] = f["comment"] or None
        if f.get("cycle"):
            m["cycle_time"] = f["cycle"]
        if f["size"] > 8:
            m["is_fd"] = True
        msgs.append(m)
    doc = {"messages": msgs, "ecus": {e: net.get("ecu_comments", {}).get(e) for e in net["ecus"]}}

    def shuffled(x):
        if isinstance(x, dict):
            items = list(x.items())
            if L.level:
                L.rng.shuffle(items)
            return {k: shuffled(v) for k, v in items}
        if isinstance(x, list):
            return [shuffled(v) for v in x]
        return x
    doc = shuffled(doc)
    if L.level and L.rng.random() < 0.5:
        return _json.dumps(doc, separators=(",", ":")).encode("utf-8")
    return _json.dumps(doc, indent=L.rng.choice([1, 2, 4]) if L.level else 4).encode("utf-8")
