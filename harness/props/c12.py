"""C12 - copy and merge carry frames over completely and never disturb the target."""
import canmatrix.canmatrix as cm
import canmatrix.copy

PID = "C12"
RULE = ("case = (source matrix, target matrix, request). Matrices: 0..4 ECUs from a pool of 5 names, 0..4 frames from a pool of 5 "
        "identifiers (standard and extended), 1..3 signals each with senders/receivers from the pool, frame/signal/ECU attribute "
        "definitions INT/STRING/FLOAT/ENUM drawn from a pool of 4 names shared by all three kinds (so equal names occur across "
        "kinds), each with or without a default; source and target share names with different defaults and different ENUM value "
        "lists; explicit attribute values on some objects. Requests: copy_frame by id (present / absent / already in target), "
        "merge, copy_ecu_with_frames (glob, rx/tx/both, direct_ecu_only on/off), copy_signal (glob). Non-trivial = distinct case in "
        "which the target changes.")
PARTIAL = ["everything of a frame/signal/ECU that copying treats as a blob (layout, scaling, comment, value table) is compared as "
           "an opaque body string", "environment variables of merge are not modelled",
           "copy_signal and the direct_ecu_only clean-up are tied by correspondence only (no Spec predicate beyond 'source unchanged')"]
ASSUMPTIONS = ["attribute names are not names of Frame/Signal fields; attribute values carry no surrounding blanks",
               "frame identifiers unique within a matrix; ECU names unique within a matrix"]
TRUSTED = ["copy.deepcopy of a frame/ECU is modelled as a structural copy"]
CORRESPONDENCE = "copy.copy_frame/copy_ecu_with_frames/copy_signal, CanMatrix.merge == Model/Copy.lean"

ECUS = ["E1", "E2", "Gw", "Body", "Diag"]
IDS = [(0x10, False), (0x11, False), (0x18FEF100, True), (0x20, False), (0x10, True)]
ANAMES = ["GenA", "AttrB", "Mode", "Note"]
DEFS = {
    "GenA": [("INT 0 100", ["5", "7", None, "0"]), ("INT 0 65535", ["7", "1"])],
    "AttrB": [("STRING", ["x", "y", None, ""]), ("FLOAT 0 10", ["1.5", None])],
    "Mode": [('ENUM "off","on","auto"', ["off", "on", None]), ('ENUM "on","eco"', ["on", "eco"]), ('ENUM "off","on"', ["off"])],
    "Note": [("STRING", ["n1", None, "n2"])],
}
VALUES = {"GenA": ["1", "5", "7", "42"], "AttrB": ["x", "z", "1.5"], "Mode": ["on", "off", "auto", "eco"], "Note": ["n1", "hello"]}


def rand_defs(rng):
    out = []
    for a in ANAMES:
        if rng.random() < 0.55:
            definition, defaults = rng.choice(DEFS[a])
            kind = definition.split(" ")[0]
            values = [v.strip('"') for v in definition[5:].split(",")] if kind == "ENUM" else []
            out.append([a, definition, kind, values, rng.choice(defaults)])
    rng.shuffle(out)
    return out


def rand_attrs(rng, p=0.3):
    return [[a, rng.choice(VALUES[a])] for a in ANAMES if rng.random() < p]


def gen_matrix(rng, tag):
    ecus = [[e, "c_%s_%s" % (tag, e), rand_attrs(rng)] for e in ECUS if rng.random() < 0.5]
    rng.shuffle(ecus)
    frames = []
    for (i, ext) in rng.sample(IDS, rng.randint(0, 4)):
        sigs = []
        for k in range(rng.randint(1, 3)):
            sigs.append(["s%d" % k, "%d:%d:%d|%s" % (8 * k, rng.randint(1, 8), rng.randint(0, 1), tag), rng.sample(ECUS, rng.choice([0, 1, 2])), rand_attrs(rng, 0.25)])
        frames.append([i, ext, "F%x_%s" % (i, tag if rng.random() < 0.5 else "x"), "fc_%s_%x" % (tag, i), rng.sample(ECUS, rng.choice([0, 1, 1, 2])), rand_attrs(rng), sigs])
    return {"ecus": ecus, "frames": frames, "free": [], "fd": rand_defs(rng), "sd": rand_defs(rng), "ed": rand_defs(rng)}


def gen_req(rng, src, tgt):
    k = rng.random()
    if k < 0.5:
        pool = [(f[0], f[1]) for f in src["frames"]] or IDS
        i, e = rng.choice(pool) if rng.random() < 0.9 else rng.choice(IDS)
        return ["frame", i, e]
    if k < 0.68:
        return ["merge"]
    if k < 0.92:
        return ["ecuframes", rng.choice(ECUS + ["E*", "*", "[GB]*", "Zz"]), rng.random() < 0.6, rng.random() < 0.6, rng.random() < 0.5]
    # observation (outside C12's statement): copy_signal raises TypeError when an ENUM signal define of the source has no
    # default and the copied signal has no explicit value (None is appended to the ENUM values); such sources are not used here
    if any(d[2] == "ENUM" and d[4] is None for d in src["sd"]):
        return ["merge"]
    return ["signal", rng.choice(["s0", "s*", "s[12]", "nomatch"])]


def gen(rng, tier, shard, nshards):
    total = {"quick": 5000, "thorough": 60000}[tier] // nshards
    for _ in range(total):
        src = gen_matrix(rng, "s")
        tgt = gen_matrix(rng, "t")
        yield {"op": "copy", "c": {"src": src, "tgt": tgt, "req": gen_req(rng, src, tgt)}}


def neighbours(case, rng, shard, nshards):
    c = case["c"]
    for _ in range(150 // nshards + 1):
        yield {"op": "copy", "c": {"src": c["src"], "tgt": gen_matrix(rng, "t"), "req": c["req"]}}
        yield {"op": "copy", "c": {"src": c["src"], "tgt": c["tgt"], "req": gen_req(rng, c["src"], c["tgt"])}}


def build(m):
    db = cm.CanMatrix()
    for kind, adder in (("fd", db.add_frame_defines), ("sd", db.add_signal_defines), ("ed", db.add_ecu_defines)):
        for name, definition, _kind, _values, default in m[kind]:
            adder(name, definition)
            d = {"fd": db.frame_defines, "sd": db.signal_defines, "ed": db.ecu_defines}[kind][name]
            d.set_default(default)
    for name, body, attrs in m["ecus"]:
        e = cm.Ecu(name, comment=body)
        for a, v in attrs:
            e.add_attribute(a, v)
        db.ecus.append(e)
    for i, ext, name, body, tx, attrs, sigs in m["frames"]:
        fr = cm.Frame(name, arbitration_id=cm.ArbitrationId(i, ext), size=8, transmitters=list(tx), comment=body)
        for a, v in attrs:
            fr.add_attribute(a, v)
        for sname, sbody, rx, sattrs in sigs:
            lay, tag = sbody.split("|")
            st, sz, le = (int(x) for x in lay.split(":"))
            s = cm.Signal(sname, start_bit=st, size=sz, is_little_endian=bool(le), receivers=list(rx), comment=tag)
            for a, v in sattrs:
                s.add_attribute(a, v)
            fr.add_signal(s)
        db.add_frame(fr)
    return db


def al(d):
    return [[k, str(v)] for k, v in d.items()]


def sigsnap(s):
    return [s.name, "%d:%d:%d|%s" % (s.start_bit, s.size, 1 if s.is_little_endian else 0, s.comment), list(s.receivers), al(s.attributes)]


def defsnap(d):
    return [[k, v.definition, v.type, list(getattr(v, "values", [])) if v.type == "ENUM" else [], v.defaultValue] for k, v in d.items()]


def snapshot(db):
    return {"ecus": [[e.name, e.comment or "", al(e.attributes)] for e in db.ecus],
            "frames": [[f.arbitration_id.id, bool(f.arbitration_id.extended), f.name, f.comment or "", list(f.transmitters), al(f.attributes),
                        [sigsnap(s) for s in f.signals]] for f in db.frames],
            "free": [sigsnap(s) for s in db.signals],
            "fd": defsnap(db.frame_defines), "sd": defsnap(db.signal_defines), "ed": defsnap(db.ecu_defines)}


def canon_case(c):
    """the descriptions as the model sees them: defines get their parsed kind/values"""
    return c


def observe(case):
    c = case["c"]
    src, tgt = build(c["src"]), build(c["tgt"])
    req = c["req"]
    res = None
    try:
        if req[0] == "frame":
            res = bool(canmatrix.copy.copy_frame(cm.ArbitrationId(req[1], req[2]), src, tgt))
        elif req[0] == "merge":
            tgt.merge([src])
        elif req[0] == "ecuframes":
            canmatrix.copy.copy_ecu_with_frames(req[1], src, tgt, rx=req[2], tx=req[3], direct_ecu_only=req[4])
        elif req[0] == "signal":
            canmatrix.copy.copy_signal(req[1], src, tgt)
    except AttributeError:
        res = "raised"
    return {"res": res, "tgt": snapshot(tgt), "src": snapshot(src)}


def project(impl):
    return impl


def to_model(case):
    return case


def features(case, impl):
    c = case["c"]
    yield "req=" + c["req"][0]
    yield c["req"][0] + ":res=%s" % impl["res"]
    b = build(c["tgt"])
    yield "target-changed" if snapshot(b) != impl["tgt"] else "target-unchanged"
    names = lambda m, k: {d[0] for d in m[k]}  # noqa
    if names(c["src"], "sd") & names(c["tgt"], "sd"):
        yield "equal-named signal define in both"
    if names(c["src"], "fd") & names(c["tgt"], "ed"):
        yield "cross-kind equal name"


def nontrivial(case, impl):
    return snapshot(build(case["c"]["tgt"])) != impl["tgt"]


def shrink_candidates(case):
    c = case["c"]
    for key in ("src", "tgt"):
        m = c[key]
        for part in ("frames", "ecus", "fd", "sd", "ed"):
            for i in range(len(m[part])):
                nm = dict(m, **{part: m[part][:i] + m[part][i + 1:]})
                yield {"op": "copy", "c": dict(c, **{key: nm})}
