import CanVerif.Model.Codec
import CanVerif.Spec.Bits
import CanVerif.Proofs.Bits
/-! helper lemmas linking the string-slicing codec model to the bit-address specification -/
namespace CanVerif

theorem byteBits_len (b : Nat) : (byteBits b).length = 8 := by simp [byteBits]

theorem bigBits_len (p : List Nat) : (bigBits p).length = 8 * p.length := by
  induction p with
  | nil => simp [bigBits]
  | cons a t ih => simp [bigBits, List.flatMap_cons, byteBits_len] at *; omega

theorem littleBits_len (p : List Nat) : (littleBits p).length = 8 * p.length := by
  simp [littleBits, bigBits_len]

theorem bigBits_get (p : List Nat) (j : Nat) (h : j < 8 * p.length) :
    (bigBits p).getD j false = payloadBit p (flipN j) := by
  unfold flipN
  induction p generalizing j with
  | nil => simp at h
  | cons a t ih =>
    simp only [bigBits, List.flatMap_cons]
    have hl : (byteBits a).length = 8 := byteBits_len a
    by_cases hj : j < 8
    · rw [List.getD_eq_getElem?_getD, List.getElem?_append_left (by omega)]
      have h1 : (8 * (j / 8) + 7 - j % 8) / 8 = 0 := by omega
      have h2 : (8 * (j / 8) + 7 - j % 8) % 8 = 7 - j := by omega
      simp [payloadBit, h1, h2, byteBits, hj]
    · rw [List.getD_eq_getElem?_getD, List.getElem?_append_right (by omega), hl]
      have := ih (j - 8) (by simp at h; omega)
      simp only [bigBits, List.getD_eq_getElem?_getD] at this
      rw [this]
      have e1 : (8 * ((j - 8) / 8) + 7 - (j - 8) % 8) / 8 + 1 = (8 * (j / 8) + 7 - j % 8) / 8 := by omega
      have e2 : (8 * ((j - 8) / 8) + 7 - (j - 8) % 8) % 8 = (8 * (j / 8) + 7 - j % 8) % 8 := by omega
      simp [payloadBit, ← e1, e2]

theorem payloadBit_reverse (p : List Nat) (k : Nat) (h : k < 8 * p.length) :
    payloadBit p.reverse k = payloadBit p (8 * (p.length - 1 - k / 8) + k % 8) := by
  unfold payloadBit
  have h1 : (8 * (p.length - 1 - k / 8) + k % 8) / 8 = p.length - 1 - k / 8 := by omega
  have h2 : (8 * (p.length - 1 - k / 8) + k % 8) % 8 = k % 8 := by omega
  rw [h1, h2]
  have hk : k / 8 < p.length := by omega
  simp [List.getD_eq_getElem?_getD, List.getElem?_reverse hk]

theorem littleBits_get (p : List Nat) (j : Nat) (h : j < 8 * p.length) :
    (littleBits p).getD j false = payloadBit p (8 * p.length - 1 - j) := by
  unfold littleBits
  rw [bigBits_get _ _ (by simpa using h)]
  have hf : flipN j < 8 * p.length := by unfold flipN; omega
  rw [payloadBit_reverse _ _ hf]
  congr 1
  unfold flipN; omega

theorem bitsToNat_append (l : List Bool) (b : Bool) : bitsToNat (l ++ [b]) = 2 * bitsToNat l + b.toNat := by
  simp [bitsToNat, List.foldl_append]

/-- bits MSB-first: value = Σ_{i<len} l[len-1-i]·2^i -/
theorem bitsToNat_spec (l : List Bool) :
    bitsToNat l = specSum (fun i => l.getD (l.length - 1 - i) false) l.length := by
  generalize hn : l.length = n
  induction n generalizing l with
  | zero => have : l = [] := List.eq_nil_of_length_eq_zero hn
            subst this; simp [bitsToNat, specSum]
  | succ k ihk =>
    rcases List.eq_nil_or_concat l with h0 | ⟨l', b, hl⟩
    · subst h0; simp at hn
    rw [List.concat_eq_append] at hl
    subst hl
    have hk : l'.length = k := by simp at hn; exact hn
    have ih : bitsToNat l' = specSum (fun i => l'.getD (l'.length - 1 - i) false) l'.length := by
      rw [hk]; exact ihk l' hk
    rw [← hn]
    clear ihk hn hk
    revert ih
    generalize l' = l
    intro ih
    rw [bitsToNat_append, ih]
    simp only [List.length_append, List.length_singleton]
    have shift : ∀ n, n ≤ l.length →
        specSum (fun i => (l ++ [b]).getD (l.length + 1 - 1 - i) false) (n + 1)
        = 2 * specSum (fun i => l.getD (l.length - 1 - i) false) n + b.toNat := by
      intro n hn
      induction n with
      | zero => simp [specSum, List.getD_eq_getElem?_getD]
      | succ m ihm =>
        rw [specSum, ihm (by omega), specSum]
        have : (l ++ [b]).getD (l.length + 1 - 1 - (m + 1)) false = l.getD (l.length - 1 - m) false := by
          simp only [List.getD_eq_getElem?_getD]
          rw [List.getElem?_append_left (by omega)]
          congr 2; omega
        rw [this, Nat.pow_succ]
        generalize (l.getD (l.length - 1 - m) false).toNat = x
        generalize specSum (fun i => l.getD (l.length - 1 - i) false) m = y
        generalize 2 ^ m = z
        rw [Nat.mul_add, Nat.add_right_comm, Nat.mul_comm 2 (x*z), Nat.mul_assoc, Nat.mul_comm z 2]
    exact (shift l.length (Nat.le_refl _)).symm

theorem specSum_congr (f g : Nat → Bool) (n : Nat) (h : ∀ i, i < n → f i = g i) : specSum f n = specSum g n := by
  induction n with
  | zero => rfl
  | succ m ih => simp [specSum, ih (fun i hi => h i (by omega)), h m (by omega)]

theorem specSum_lt (f : Nat → Bool) (n : Nat) : specSum f n < 2 ^ n := by
  induction n with
  | zero => simp [specSum]
  | succ m ih =>
    simp only [specSum, Nat.pow_succ]
    have : (f m).toNat ≤ 1 := by cases f m <;> simp
    have : (f m).toNat * 2 ^ m ≤ 2 ^ m := by
      calc (f m).toNat * 2 ^ m ≤ 1 * 2 ^ m := Nat.mul_le_mul_right _ this
        _ = 2 ^ m := by simp
    omega

/-- binary digits are unique: equal sums have equal digits -/
theorem specSum_inj (f g : Nat → Bool) (n : Nat) (h : specSum f n = specSum g n) :
    ∀ i, i < n → f i = g i := by
  induction n with
  | zero => intro i hi; omega
  | succ m ih =>
    simp only [specSum] at h
    have hf := specSum_lt f m
    have hg := specSum_lt g m
    have hp : 0 < 2 ^ m := Nat.two_pow_pos m
    have hm : f m = g m := by
      cases hfm : f m <;> cases hgm : g m <;> simp [hfm, hgm] at h ⊢ <;> omega
    have h' : specSum f m = specSum g m := by rw [hm] at h; omega
    intro i hi
    by_cases him : i = m
    · subst him; exact hm
    · exact ih h' i (by omega)

theorem pySlice_len (l : List α) (a b : Nat) (hb : b ≤ l.length) (hab : a ≤ b) : (pySlice l a b).length = b - a := by
  simp [pySlice]; omega

theorem pySlice_getD (l : List Bool) (a b t : Nat) (_hb : b ≤ l.length) (ht : t < b - a) :
    (pySlice l a b).getD t false = l.getD (a + t) false := by
  simp [pySlice, List.getD_eq_getElem?_getD, ht]

/-- in-frame placement -/
def inFrame (s : Sig) (nbytes : Nat) : Prop := s.start + s.size ≤ 8 * nbytes ∧ 1 ≤ s.size

theorem sliceBits_len (s : Sig) (p : List Nat) (h : inFrame s p.length) :
    (sliceBits s (bigBits p) (littleBits p) (8 * p.length)).length = s.size := by
  obtain ⟨h1, _⟩ := h
  unfold sliceBits
  split
  · rw [pySlice_len _ _ _ (by rw [littleBits_len]; omega) (by omega)]; omega
  · rw [pySlice_len _ _ _ (by rw [bigBits_len]; omega) (by omega)]; omega

/-- bit `t` (MSB first) of the slice is the payload bit at the spec address of significance `size-1-t` -/
theorem sliceBits_getD (s : Sig) (p : List Nat) (h : inFrame s p.length) (t : Nat) (ht : t < s.size) :
    (sliceBits s (bigBits p) (littleBits p) (8 * p.length)).getD t false
      = payloadBit p (sigAddr s.little s.start s.size (s.size - 1 - t)) := by
  obtain ⟨h1, _⟩ := h
  unfold sliceBits sigAddr
  split
  · rw [pySlice_getD _ _ _ _ (by rw [littleBits_len]; omega) (by omega), littleBits_get _ _ (by omega)]
    congr 1; omega
  · rw [pySlice_getD _ _ _ _ (by rw [bigBits_len]; omega) (by omega), bigBits_get _ _ (by omega)]
    congr 2; omega

theorem rawUnsigned_eq_spec (s : Sig) (p : List Nat) (h : inFrame s p.length) :
    bitsToNat (sliceBits s (bigBits p) (littleBits p) (8 * p.length)) = specRaw p s.little s.start s.size := by
  rw [bitsToNat_spec, sliceBits_len s p h]
  unfold specRaw
  apply specSum_congr
  intro i hi
  rw [sliceBits_getD s p h _ (by omega)]
  congr 2; omega

end CanVerif
