import CanVerif.Model.Codec
import CanVerif.Spec.Bits
import CanVerif.Proofs.Codec
/-!
# C01 — decoding reads exactly the convention's bits; wrong-length payloads are refused

All theorems are for an arbitrary frame length (`p.length` bytes, not only ≤ 64), any in-frame
placement `inFrame s p.length := s.start + s.size ≤ 8·len ∧ 1 ≤ s.size`, any payload.
-/
namespace CanVerif.C01
open CanVerif

/-- Intel: the start bit is the least significant bit, significance grows with the address. -/
theorem decode_intel_eq_spec (s : Sig) (p : List Nat) (h : inFrame s p.length)
    (hl : s.little = true) (hf : s.isFloat = false) (hs : s.signed = false) :
    rawOf s p = (specSum (fun i => payloadBit p (s.start + i)) s.size : Int) := by
  unfold rawOf unpackBits
  simp only [hf, hs, Bool.false_and, Bool.false_eq_true, if_false]
  rw [rawUnsigned_eq_spec s p h]
  simp [specRaw, sigAddr, hl]

/-- Motorola: bits run from the most significant bit (at the DBC start bit `flipN s.start`)
downwards inside a byte and continue at bit 7 of the next byte (`sawWalk`). -/
theorem decode_motorola_eq_spec (s : Sig) (p : List Nat) (h : inFrame s p.length)
    (hl : s.little = false) (hf : s.isFloat = false) (hs : s.signed = false) :
    rawOf s p = (specSum (fun i => payloadBit p (sawWalk (s.size - 1 - i) (flipN s.start))) s.size : Int) := by
  unfold rawOf unpackBits
  simp only [hf, hs, Bool.false_and, Bool.false_eq_true, if_false]
  rw [rawUnsigned_eq_spec s p h]
  unfold specRaw
  congr 1
  apply specSum_congr
  intro i hi
  simp only [sigAddr, hl, Bool.false_eq_true, if_false, sawWalk_flipN]
  congr 2
  have := h.1; omega

/-- The address of significance `i` of a Motorola signal is reached by walking the sawtooth from
the most significant bit (links `sigAddr`, used by every other theorem, to the convention). -/
theorem motorola_sigAddr_sawtooth (start size i : Nat) (hi : i < size) :
    sigAddr false start size i = sawWalk (size - 1 - i) (flipN start) := by
  simp only [sigAddr, Bool.false_eq_true, if_false, sawWalk_flipN]; congr 1; omega

/-- The value read, as a function of the `size`-bit pattern. -/
theorem rawOf_eq (s : Sig) (p : List Nat) (h : inFrame s p.length) :
    rawOf s p = unpackBits s.isFloat s.signed
      (sliceBits s (bigBits p) (littleBits p) (8 * p.length)) := rfl

theorem head_of_slice (l : List Bool) (hl : 1 ≤ l.length) :
    (l.head? == some true) = decide (bitsToNat l ≥ 2 ^ (l.length - 1)) := by
  cases l with
  | nil => simp at hl
  | cons b t =>
    have hspec := bitsToNat_spec (b :: t)
    have hrest := bitsToNat_spec t
    -- value = b·2^(len t) + value(t)
    have key : bitsToNat (b :: t) = b.toNat * 2 ^ t.length + bitsToNat t := by
      have : ∀ (acc : Nat) (l : List Bool),
          List.foldl (fun acc b => 2 * acc + b.toNat) acc l = acc * 2 ^ l.length + bitsToNat l := by
        intro acc l
        induction l generalizing acc with
        | nil => simp [bitsToNat]
        | cons c cs ih =>
          simp only [List.foldl_cons, bitsToNat, List.length_cons]
          rw [ih, ih (2 * 0 + c.toNat)]
          rw [Nat.pow_succ]
          have e1 : (2 * acc + c.toNat) * 2 ^ cs.length
              = acc * (2 ^ cs.length * 2) + c.toNat * 2 ^ cs.length := by
            rw [Nat.add_mul, Nat.mul_comm 2 acc, Nat.mul_assoc, Nat.mul_comm 2 (2 ^ cs.length)]
          have e2 : (2 * 0 + c.toNat) * 2 ^ cs.length = c.toNat * 2 ^ cs.length := by simp
          omega
      simp only [bitsToNat, List.foldl_cons]
      rw [this]
      simp [bitsToNat]
    have hlt : bitsToNat t < 2 ^ t.length := by rw [hrest]; exact specSum_lt _ _
    simp only [List.length_cons, Nat.add_sub_cancel, List.head?_cons]
    cases b <;> simp [key] <;> omega

/-- Signed signals are two's complement. -/
theorem decode_signed_twos_complement (s : Sig) (p : List Nat) (h : inFrame s p.length)
    (hf : s.isFloat = false) (hs : s.signed = true) :
    rawOf s p = specSigned (specRaw p s.little s.start s.size) s.size := by
  unfold rawOf unpackBits
  have hlen := sliceBits_len s p h
  have hraw := rawUnsigned_eq_spec s p h
  simp only [hf, hs, Bool.true_and, Bool.false_eq_true, if_false]
  rw [head_of_slice _ (by rw [hlen]; exact h.2), hlen, hraw]
  unfold specSigned
  have h2 := h.2
  by_cases hc : specRaw p s.little s.start s.size ≥ 2 ^ (s.size - 1)
  · simp [hc, h2]
  · simp [hc]

/-- Unsigned integer signals: the plain number formed by the bits. -/
theorem decode_unsigned (s : Sig) (p : List Nat) (h : inFrame s p.length)
    (hf : s.isFloat = false) (hs : s.signed = false) :
    rawOf s p = (specRaw p s.little s.start s.size : Int) := by
  unfold rawOf unpackBits
  simp only [hf, hs, Bool.false_and, Bool.false_eq_true, if_false]
  rw [rawUnsigned_eq_spec s p h]

/-- Float signals: the value handed to IEEE-754 conversion is exactly the pattern of those bits
(`struct.unpack` itself is trusted, see DESIGN §3). -/
theorem decode_float_pattern (s : Sig) (p : List Nat) (h : inFrame s p.length) (hf : s.isFloat = true) :
    rawOf s p = (specRaw p s.little s.start s.size : Int) := by
  unfold rawOf unpackBits
  simp only [hf, if_true]
  rw [rawUnsigned_eq_spec s p h]

/-- No other payload bit influences the value: payloads of equal length that agree on the
signal's addresses decode the signal equally. -/
theorem decode_only_sigAddrs (s : Sig) (p q : List Nat) (hlen : p.length = q.length)
    (h : inFrame s p.length)
    (hagree : ∀ i, i < s.size → payloadBit p (sigAddr s.little s.start s.size i)
                               = payloadBit q (sigAddr s.little s.start s.size i)) :
    rawOf s p = rawOf s q := by
  have hq : inFrame s q.length := by rw [← hlen]; exact h
  unfold rawOf
  have e : bitsToNat (sliceBits s (bigBits p) (littleBits p) (8 * p.length))
         = bitsToNat (sliceBits s (bigBits q) (littleBits q) (8 * q.length)) := by
    rw [rawUnsigned_eq_spec s p h, rawUnsigned_eq_spec s q hq]
    exact specSum_congr _ _ _ hagree
  have l1 := sliceBits_len s p h
  have l2 := sliceBits_len s q hq
  unfold unpackBits
  rw [head_of_slice _ (by rw [l1]; exact h.2), head_of_slice _ (by rw [l2]; exact h.2), l1, l2, e]

/-- Every one of the signal's bits matters: equal decoded values force equal bits at every
address of the signal ("exactly": no bit of the signal is ignored). -/
theorem decode_each_sigAddr (s : Sig) (p q : List Nat) (hlen : p.length = q.length)
    (h : inFrame s p.length) (heq : rawOf s p = rawOf s q) :
    ∀ i, i < s.size → payloadBit p (sigAddr s.little s.start s.size i)
                     = payloadBit q (sigAddr s.little s.start s.size i) := by
  have hq : inFrame s q.length := by rw [← hlen]; exact h
  have l1 := sliceBits_len s p h
  have l2 := sliceBits_len s q hq
  have r1 := rawUnsigned_eq_spec s p h
  have r2 := rawUnsigned_eq_spec s q hq
  have b1 : specRaw p s.little s.start s.size < 2 ^ s.size := specSum_lt _ _
  have b2 : specRaw q s.little s.start s.size < 2 ^ s.size := specSum_lt _ _
  have hs2 := h.2
  have hpow : (2:Int) ^ s.size = ((2 ^ s.size : Nat) : Int) := by simp
  have hpow1 : 2 ^ s.size = 2 * 2 ^ (s.size - 1) := by
    have : s.size = (s.size - 1) + 1 := by omega
    rw [this, Nat.pow_succ]; simp; omega
  have e : specRaw p s.little s.start s.size = specRaw q s.little s.start s.size := by
    unfold rawOf unpackBits at heq
    rw [head_of_slice _ (by rw [l1]; exact hs2), head_of_slice _ (by rw [l2]; exact hs2), l1, l2, r1, r2] at heq
    generalize specRaw p s.little s.start s.size = a at *
    generalize specRaw q s.little s.start s.size = b at *
    generalize 2 ^ (s.size - 1) = m at *
    rw [hpow] at heq
    generalize 2 ^ s.size = M at *
    by_cases hfl : s.isFloat = true
    · simp only [hfl, if_true] at heq; exact_mod_cast heq
    · simp only [hfl, Bool.false_eq_true, if_false] at heq
      by_cases hsg : s.signed = true
      · by_cases c1 : a ≥ m <;> by_cases c2 : b ≥ m <;> simp [hsg, c1, c2] at heq <;> omega
      · simp [hsg] at heq; exact_mod_cast heq
  exact specSum_inj _ _ _ e

/-! ## the length rule -/

theorem length_rule_equal (size : Nat) (data : List Nat) (at_ ae : Bool) (h : data.length = size) :
    fitLength size data at_ ae = .ok data := by simp [fitLength, h]

theorem length_rule_short (size : Nat) (data : List Nat) (ae : Bool) (h : data.length < size) :
    fitLength size data true ae = .ok (data ++ List.replicate (size - data.length) 0xFF) ∧
    fitLength size data false ae = .error .frameLength := by
  unfold fitLength
  have hne : (data.length != size) = true := by simp; omega
  have hlen : (data ++ List.replicate (size - data.length) 0xFF).length = size := by simp; omega
  have htake : (data ++ List.replicate (size - data.length) 0xFF).take size
      = data ++ List.replicate (size - data.length) 0xFF := List.take_of_length_le (by omega)
  have htake2 : (data.take size).length = data.length := by simp; omega
  cases ae
  · simp only [hne, if_true, Bool.false_eq_true, if_false, hlen, bne_self_eq_false]
    simp [hne]
  · simp only [hne, if_true, htake, hlen, bne_self_eq_false, Bool.false_eq_true, if_false, htake2]
    simp [hne]

theorem length_rule_long (size : Nat) (data : List Nat) (at_ : Bool) (h : data.length > size) :
    fitLength size data at_ true = .ok (data.take size) ∧
    fitLength size data at_ false = .error .frameLength := by
  unfold fitLength
  have hne : (data.length != size) = true := by simp; omega
  have hz : size - data.length = 0 := by omega
  cases at_ <;> simp [hne, hz] <;> omega

/-- With the opt-in a short payload is read exactly as if padded with 0xFF bytes. -/
theorem truncated_equiv_padded (f : Frame) (data : List Nat) (ae : Bool) (h : data.length < f.size) :
    f.unpack data true ae = f.unpack (data ++ List.replicate (f.size - data.length) 0xFF) false false := by
  unfold Frame.unpack
  rw [(length_rule_short f.size data ae h).1]
  rw [length_rule_equal f.size _ false false (by simp; omega)]

/-- With the opt-in a long payload is read exactly as if cut to the declared length. -/
theorem exceeded_equiv_cut (f : Frame) (data : List Nat) (at_ : Bool) (h : data.length > f.size) :
    f.unpack data at_ true = f.unpack (data.take f.size) false false := by
  unfold Frame.unpack
  rw [(length_rule_long f.size data at_ h).1]
  rw [length_rule_equal f.size _ false false (by simp; omega)]

/-- A payload of the wrong length is refused by `decode` with the length error before anything is
read - for plain, multiplexed, extended-multiplexed and PDU-container frames alike. -/
theorem length_check_first (f : Frame) (data : List Nat) (h : data.length ≠ f.size) :
    f.decode data = .error .frameLength := by
  unfold Frame.decode Frame.unpack fitLength
  have hne : (data.length != f.size) = true := by simp [h]
  simp [hne]

/-- the same for `unpack` without opt-in -/
theorem unpack_refuses_wrong_length (f : Frame) (data : List Nat) (h : data.length ≠ f.size) :
    f.unpack data false false = .error .frameLength := by
  unfold Frame.unpack fitLength
  have hne : (data.length != f.size) = true := by simp [h]
  simp [hne]

/-! ## the per-frame driver -/

theorem dictSet_fold_nodup (sigs : List Sig) (g : Sig → Int) (acc : List (String × Int))
    (hnd : (sigs.map (·.name)).Nodup) (hdis : ∀ s ∈ sigs, ∀ kv ∈ acc, kv.1 ≠ s.name) :
    sigs.foldl (fun a s => dictSet a s.name (g s)) acc = acc ++ sigs.map (fun s => (s.name, g s)) := by
  induction sigs generalizing acc with
  | nil => simp
  | cons s t ih =>
    simp only [List.foldl_cons, List.map_cons]
    have hnot : acc.any (fun kv => kv.1 == s.name) = false := by
      simp only [List.any_eq_false, beq_iff_eq]
      intro kv hkv; exact hdis s (by simp) kv hkv
    have hstep : dictSet acc s.name (g s) = acc ++ [(s.name, g s)] := by
      simp only [dictSet, hnot, Bool.false_eq_true, if_false]
    rw [hstep]
    simp only [List.map_cons, List.nodup_cons] at hnd
    rw [ih _ hnd.2]
    · simp
    · intro s' hs' kv hkv
      simp only [List.mem_append, List.mem_singleton] at hkv
      rcases hkv with hkv | hkv
      · exact hdis s' (by simp [hs']) kv hkv
      · subst hkv
        intro heq
        exact hnd.1 (by simp only [List.mem_map]; exact ⟨s', hs', heq.symm⟩)

/-- Decoding a plain frame with a payload of the declared length yields, for every signal, the
value of its own bit field (signal names unique within the frame). -/
theorem decode_plain (f : Frame) (data : List Nat) (hlen : data.length = f.size)
    (hplain : f.complexMux = false ∧ f.isMultiplexed = false ∧ f.isContainer = false)
    (hnd : (f.sigs.map (·.name)).Nodup) :
    f.decode data = .ok (f.sigs.map fun s => (s.name, rawOf s data)) := by
  obtain ⟨h1, h2, h3⟩ := hplain
  unfold Frame.decode Frame.unpack
  rw [length_rule_equal _ _ _ _ hlen]
  simp only [h1, h2, h3]
  have := dictSet_fold_nodup f.sigs (fun s => rawOf s data) [] hnd (by simp)
  simp only [List.nil_append] at this
  simp [this]

/-! ## non-vacuity: the test-suite's A1..A8 frame with a 12-bit Motorola signal crossing a byte -/
def exSig : Sig := { name := "s", start := 4, size := 12, little := false }
example : inFrame exSig 8 := by unfold inFrame exSig; decide
example : rawOf exSig [0xA1, 0xA2, 0xA3, 0xA4, 0xA5, 0xA6, 0xA7, 0xA8] = 0x1A2 := by decide
example : rawOf { exSig with little := true } [0xA1, 0xA2, 0xA3, 0xA4, 0xA5, 0xA6, 0xA7, 0xA8] = 0xA2A := by decide
example : rawOf { exSig with signed := true, size := 8, start := 0 } [0xA1, 0xA2] = -95 := by decide

end CanVerif.C01
