import CanVerif.Model.DbcText
import CanVerif.Spec.DbcRT
import CanVerif.Proofs.DbcText
import CanVerif.Proofs.DbcLex
import CanVerif.Props.C04
import CanVerif.Proofs.DecDiv
/-!
# C15 - readers recover what a well-formed file describes, whoever wrote it: the lexical freedom of DBC statements and
the renderings of a number

The `SG_` / `BO_` statement readers of Model/DbcText.lean (compared with the real reader line by line) accept every
admissible spacing of a statement - any number of blanks (at least one where the grammar separates two words) before the
keyword, between the tokens, around the punctuation, after the commas of the receiver list - and every number text
`Decimal` understands, and return the described signal / frame in all of them.  A number text
`[sign] digits [. digits] [E|e [sign] digits]` is read as the value it denotes, so `1E-3`, `0.001`, `1e-03`, `0.0010`
give equal values.  (The canonical spacing and `format_float` renderings of C05 are one instance.)
-/
namespace CanVerif.C15
open CanVerif CanVerif.Dbc

/-! ## numbers -/

/-- a well-formed number text is read as the decimal it denotes -/
theorem number_text_value (n : NumText) (h : n.wf = true) :
    ∃ d, n.denotes = some d ∧ strToDec n.render = some d := by
  exact number_text_value' n h

/-- ... so two texts that denote equal values are read as equal values -/
theorem number_renderings_equal (a b : NumText) (ha : a.wf = true) (hb : b.wf = true) (da db : Dec)
    (hda : a.denotes = some da) (hdb : b.denotes = some db) (heq : SpecRT.decEq da db = true) :
    ∃ ra rb, strToDec a.render = some ra ∧ strToDec b.render = some rb ∧ SpecRT.decEq ra rb = true := by
  obtain ⟨d, h1, h2⟩ := number_text_value' a ha
  obtain ⟨d', h1', h2'⟩ := number_text_value' b hb
  rw [hda] at h1; rw [hdb] at h1'
  cases h1; cases h1'
  exact ⟨da, db, h2, h2', heq⟩

/-- every character of a well-formed number text is accepted by the statement patterns (`[0-9.+\-eE]`) -/
theorem number_text_valid (n : NumText) (h : n.wf = true) : validNum n.render = true := by
  exact number_text_valid' n h

/-! ## statements in any admissible spacing -/

/-- an `SG_` line in any admissible spacing and with any admissible number texts is read as the described signal -/
theorem sg_lex_roundtrip (lx : SgLex) (nm : SgNums) (s : SgLine) (h : wfSg s = true) (hl : lexOk lx nm s.tag = true) :
    parseSg (stripWs (renderSgLex lx nm s)) = some (withNums nm s) := by
  exact parseSg_renderSgLex lx nm s h hl

/-- the spacing does not matter: two spacings of the same statement are read alike -/
theorem sg_spacing_irrelevant (lx lx' : SgLex) (nm : SgNums) (s : SgLine) (h : wfSg s = true)
    (hl : lexOk lx nm s.tag = true) (hl' : lexOk lx' nm s.tag = true) :
    parseSg (stripWs (renderSgLex lx nm s)) = parseSg (stripWs (renderSgLex lx' nm s)) := by
  rw [parseSg_renderSgLex lx nm s h hl, parseSg_renderSgLex lx' nm s h hl']

/-- a `BO_` line in any admissible spacing is read as the described frame -/
theorem bo_lex_roundtrip (lx : BoLex) (b : BoLine) (h : wfBo b = true) (hl : boLexOk lx = true) :
    parseBo (stripWs (renderBoLex lx b)) = some b := by
  exact parseBo_renderBoLex lx b h hl

/-- the writer's own rendering is one of the spacings -/
theorem renderSg_is_lex (s : SgLine) :
    renderSg s = renderSgLex {} ⟨formatFloat s.factor, formatFloat s.offset, formatFloat s.min, formatFloat s.max⟩ s := by
  exact renderSg_lex_default s

/-! ## ARXML: rational coefficients with a denominator (`decode_compu_method`: factor = n₁ / d, offset = n₀ / d in `Decimal`) -/

/-- When the quotient is a finite decimal of at most 28 digits (`a · 10^j = b · q`), `Decimal` division is exact:
`a / b` has exactly the value `±q · 10^(a.exp − b.exp − j)`.  So a COMPU-RATIONAL-COEFFS entry with numerators (n₀, n₁) and a
denominator d ≠ 1 (2, 4, 5, 8, 10, 0.5 …) is read as the same factor and offset as the equivalent entry with denominator 1. -/
theorem compu_rational_exact (a b : Dec) (q j : Nat) (hb : b.coeff ≠ 0)
    (ha : nd a.coeff ≤ PREC) (hbn : nd b.coeff ≤ PREC) (hq : a.coeff * 10 ^ j = b.coeff * q) (hqn : nd q ≤ PREC) :
    Spec.Ex.eqv (C04.exOf (Dec.div a b)) ⟨(if a.neg != b.neg then -(q : Int) else (q : Int)), a.exp - b.exp - (j : Int)⟩ = true := by
  exact div_exact_eqv a b q j hb ha hq hqn

example : Dec.div ⟨true, 80, 0⟩ ⟨false, 2, 0⟩ = ⟨true, 40, 0⟩ := by decide +kernel
example : Dec.div ⟨false, 1, 0⟩ ⟨false, 4, 0⟩ = ⟨false, 25, -2⟩ := by decide +kernel

/-! ## non-vacuity -/

def exNum1 : NumText := { ip := "1".toList, exp := some (false, true, "3".toList) }
def exNum2 : NumText := { ip := "0".toList, fp := some "0010".toList }

example : String.ofList exNum1.render = "1E-3" ∧ String.ofList exNum2.render = "0.0010" := by decide
example : exNum1.wf = true ∧ exNum2.wf = true := by decide
example : exNum1.denotes = some ⟨false, 1, -3⟩ ∧ exNum2.denotes = some ⟨false, 10, -4⟩ := by decide
example : SpecRT.decEq ⟨false, 1, -3⟩ ⟨false, 10, -4⟩ = true := by decide

end CanVerif.C15
