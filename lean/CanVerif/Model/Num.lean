import CanVerif.Model.Dec
/-!
# Model of number rendering and parsing (C05, C07, C15)

`str(Decimal)` (scientific-string rule of the General Decimal Arithmetic specification),
`format_float` of formats/dbc.py and formats/sym.py (upper case, `.0` stripped, exponent padded to
three digits) and the `Decimal(str)` constructor for plain and exponent notation.
Strings are `List Char`.
-/
namespace CanVerif

/-- decimal digits of a natural number, most significant first (`str(n)`) -/
def natDigitsAux : Nat → Nat → List Char → List Char
  | 0, _, acc => acc
  | fuel + 1, n, acc =>
    let c := Char.ofNat (48 + n % 10)
    if n < 10 then c :: acc else natDigitsAux fuel (n / 10) (c :: acc)

def natDigits (n : Nat) : List Char := natDigitsAux (n + 1) n []

/-- `str(Decimal)` -/
def decToStr (d : Dec) : List Char :=
  let digits := natDigits d.coeff
  let len : Int := digits.length
  let leftdigits : Int := d.exp + len
  let dotplace : Int := if d.exp ≤ 0 ∧ leftdigits > -6 then leftdigits else 1
  let body : List Char :=
    if dotplace ≤ 0 then '0' :: '.' :: (List.replicate (-dotplace).toNat '0' ++ digits)
    else if dotplace ≥ len then digits ++ List.replicate (dotplace - len).toNat '0'
    else digits.take dotplace.toNat ++ '.' :: digits.drop dotplace.toNat
  let e : Int := leftdigits - dotplace
  let expPart : List Char :=
    if e = 0 then [] else 'E' :: (if e < 0 then '-' else '+') :: natDigits e.natAbs
  (if d.neg then ['-'] else []) ++ body ++ expPart

/-- `format_float` (dbc.py / sym.py): `.0` stripped, exponent digits right-justified to width 3 -/
def formatFloat (d : Dec) : List Char :=
  let s := decToStr d
  let s1 := if s.length ≥ 2 ∧ s.drop (s.length - 2) = ['.', '0'] then s.take (s.length - 2) else s
  match s1.span (· != 'E') with
  | (m, 'E' :: sg :: ds) => m ++ 'E' :: sg :: (List.replicate (3 - ds.length) '0' ++ ds)
  | _ => s1

def digitVal (c : Char) : Option Nat := if '0' ≤ c ∧ c ≤ '9' then some (c.toNat - 48) else none

def digitsToNat (cs : List Char) : Option Nat :=
  cs.foldlM (fun acc c => (digitVal c).map (acc * 10 + ·)) 0

/-- `Decimal(str)` for `[sign] digits [. digits] [E [sign] digits]` (no blanks, no NaN/Inf) -/
def strToDec (s : List Char) : Option Dec :=
  let (neg, r) := match s with
    | '-' :: t => (true, t)
    | '+' :: t => (false, t)
    | t => (false, t)
  let (mant, expo) := r.span (fun c => c != 'E' && c != 'e')
  let (ip, fp0) := mant.span (· != '.')
  let fp := fp0.drop 1
  if ip.isEmpty && fp.isEmpty then none else
  match digitsToNat (ip ++ fp) with
  | none => none
  | some c =>
    let e? : Option Int := match expo with
      | [] => some 0
      | _ :: '-' :: ds => if ds.isEmpty then none else (digitsToNat ds).map fun n => -(n : Int)
      | _ :: '+' :: ds => if ds.isEmpty then none else (digitsToNat ds).map fun n => (n : Int)
      | _ :: ds => if ds.isEmpty then none else (digitsToNat ds).map fun n => (n : Int)
    e?.map fun e => { neg := neg, coeff := c, exp := e - (fp.length : Int) }

end CanVerif
