import CanVerif.Model.Glob
/-!
# Model of the ECU reference maintenance of `CanMatrix` (C11)

canmatrix.py: `rename_ecu` (~2180), `add_ecu` (~2201), `del_ecu` (~2213), `update_ecu_list` (~2230),
`delete_obsolete_ecus` (~1937), `Frame.update_receiver` (~1320), `add_transmitter/del_transmitter`,
`Signal.add_receiver/del_receiver`, `add_signal_receiver/del_signal_receiver` (~2304).
ECUs are represented by their names (an `Ecu` carries comment/attributes too; equality of
name-only ECUs is equality of names).  Python `list.remove` removes the first occurrence
(`List.erase`), "append if absent" is `addIfAbsent`.
-/
namespace CanVerif

structure ESig where
  name : String
  receivers : List String
  deriving Repr, DecidableEq, Inhabited

structure EFrame where
  name : String
  transmitters : List String
  receivers : List String
  sigs : List ESig
  deriving Repr, DecidableEq, Inhabited

structure EMat where
  ecus : List String
  frames : List EFrame
  freeSigs : List ESig := []     -- db.signals (signals without frame)
  deriving Repr, DecidableEq, Inhabited

def addIfAbsent (l : List String) (x : String) : List String := if l.contains x then l else l ++ [x]

/-- `Frame.update_receiver` -/
def EFrame.updateReceiver (f : EFrame) : EFrame :=
  { f with receivers := f.sigs.foldl (fun acc s => s.receivers.foldl addIfAbsent acc) [] }

/-- `list.remove(old)` if present, then add `new` if absent -/
def replaceRef (l : List String) (old new : String) : List String :=
  if l.contains old then addIfAbsent (l.erase old) new else l

/-- `rename_ecu(name, new_name)` -/
def EMat.renameEcu (m : EMat) (old new : String) : EMat :=
  if !m.ecus.contains old then m
  else
    -- `ecu_by_name` returns the first ECU of that name; its name is changed in place
    let ecus := match m.ecus.idxOf? old with
      | some i => m.ecus.set i new
      | none => m.ecus
    { m with ecus := ecus,
             frames := m.frames.map fun f =>
               ({ f with transmitters := replaceRef f.transmitters old new,
                         sigs := f.sigs.map fun s => { s with receivers := replaceRef s.receivers old new } } : EFrame).updateReceiver }

/-- `add_ecu` (`bu.name.strip() == ecu.name`; names here carry no surrounding blanks) -/
def EMat.addEcu (m : EMat) (name : String) : EMat :=
  if m.ecus.contains name then m else { m with ecus := m.ecus ++ [name] }

/-- body of `del_ecu` for one matched ECU -/
def EMat.delOne (m : EMat) (name : String) : EMat :=
  if !m.ecus.contains name then m
  else
    { m with ecus := m.ecus.erase name,
             frames := m.frames.map fun f =>
               ({ f with transmitters := f.transmitters.erase name,
                         sigs := f.sigs.map fun s => { s with receivers := s.receivers.erase name } } : EFrame).updateReceiver }

/-- `del_ecu(glob)`: the list of matching ECUs is computed first -/
def EMat.delEcuGlob (m : EMat) (pattern : String) : EMat :=
  (m.ecus.filter (globMatch pattern)).foldl EMat.delOne m

/-- `del_ecu(ecu_instance)` -/
def EMat.delEcu (m : EMat) (name : String) : EMat := m.delOne name

/-- `update_ecu_list` -/
def EMat.updateEcuList (m : EMat) : EMat :=
  m.frames.foldl (fun (acc : EMat × List EFrame) f =>
      let a1 := f.transmitters.foldl EMat.addEcu acc.1
      let f' := f.updateReceiver
      let a2 := f'.sigs.foldl (fun a s => s.receivers.foldl EMat.addEcu a) a1
      (a2, acc.2 ++ [f'])) (m, [])
    |> fun (acc : EMat × List EFrame) => { acc.1 with frames := acc.2 }

/-- `delete_obsolete_ecus` (each unused name is handed to `del_ecu` as a glob pattern) -/
def EMat.deleteObsoleteEcus (m : EMat) : EMat :=
  let used := m.frames.flatMap (·.transmitters) ++ m.frames.flatMap (·.receivers) ++
              m.frames.flatMap (fun f => f.sigs.flatMap (·.receivers)) ++ m.freeSigs.flatMap (·.receivers)
  (m.ecus.filter fun e => !used.contains e).foldl EMat.delEcuGlob m

/-- `add_signal_receiver(globFrame, globSignal, ecu)` -/
def EMat.addSignalReceiver (m : EMat) (gf gs ecu : String) : EMat :=
  { m with frames := m.frames.map fun f =>
      if globMatch gf f.name then
        ({ f with sigs := f.sigs.map fun s =>
            if globMatch gs s.name then { s with receivers := addIfAbsent s.receivers ecu } else s } : EFrame).updateReceiver
      else f }

/-- `del_signal_receiver(globFrame, globSignal, ecu)` -/
def EMat.delSignalReceiver (m : EMat) (gf gs ecu : String) : EMat :=
  { m with frames := m.frames.map fun f =>
      if globMatch gf f.name then
        ({ f with sigs := f.sigs.map fun s =>
            if globMatch gs s.name then { s with receivers := s.receivers.erase ecu } else s } : EFrame).updateReceiver
      else f }

inductive EOp
  | rename (old new : String)
  | delGlob (pattern : String)
  | delInst (name : String)
  | update
  | obsolete
  | addRecv (gf gs ecu : String)
  | delRecv (gf gs ecu : String)
  deriving Repr, Inhabited

def EMat.apply (m : EMat) : EOp → EMat
  | .rename o n => m.renameEcu o n
  | .delGlob p => m.delEcuGlob p
  | .delInst n => m.delEcu n
  | .update => m.updateEcuList
  | .obsolete => m.deleteObsoleteEcus
  | .addRecv a b c => m.addSignalReceiver a b c
  | .delRecv a b c => m.delSignalReceiver a b c

end CanVerif
