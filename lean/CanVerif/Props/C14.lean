import CanVerif.Model.Export
/-!
# C14 — exporting never changes the matrix and is deterministic

This is the property where a theorem carries least (DESIGN §6, C14): whether a writer mutates its
argument is a fact about object aliasing in the Python code, which the model records as
`copiesFirst`/`normalise`; that this record is complete is checked only by the correspondence check
(normal form of the argument before/after every writer, all ordered writer pairs, several hash
seeds).  What is proved: with the recorded footprint the argument is unchanged for every writer and
every matrix, hence a later export sees the same matrix; the three pre-fix writers did change it
(witnesses); and the order in which sym writes its multiplex groups does not depend on the order in
which the set of values is iterated.
-/
namespace CanVerif.C14
open CanVerif

/-- Exporting leaves the caller's matrix unchanged, for every writer and every matrix. -/
theorem touch_identity (w : Writer) (m : EMat) (h : copiesFirst w = true ∨ normalise w = id) :
    (exportEffect w m).1 = m := by
  unfold exportEffect
  rcases h with h | h
  · simp [h]
  · by_cases hc : copiesFirst w = true <;> simp [hc, h]

/-- every writer satisfies the side condition: it copies first or does not normalise at all -/
theorem every_writer_safe (w : Writer) : copiesFirst w = true ∨ normalise w = id := by
  cases w <;> simp [copiesFirst, normalise]

/-- A later export - to the same or any other format - works from exactly the matrix it would have
seen without the earlier export. -/
theorem second_export_same (w1 w2 : Writer) (m : EMat) :
    (exportEffect w2 (exportEffect w1 m).1).2 = (exportEffect w2 m).2 := by
  rw [touch_identity w1 m (every_writer_safe w1)]

/-- the file is written from the normalised matrix whether or not a copy is taken: copying changes
what the caller sees, not what is written -/
theorem written_matrix_same (w : Writer) (m : EMat) : (exportEffect w m).2 = (exportEffectPreFix w m).2 := by
  unfold exportEffect exportEffectPreFix; split <;> rfl

/-! pre-fix witnesses: the three writers changed their argument -/
def exRx : EMat := { ecus := ["A"], frames := [{ name := "F", transmitters := [], receivers := [], sigs := [{ name := "s", receivers := ["A"] }] }] }
theorem arxml_prefix_witness : (exportEffectPreFix .arxml exRx).1 ≠ exRx := by decide
def exDup : EMat := { ecus := [], frames := [{ name := "F", transmitters := ["A"], receivers := [], sigs := [] },
                                              { name := "F", transmitters := ["B"], receivers := [], sigs := [] }] }
theorem fibex_prefix_witness : (exportEffectPreFix .fibex exDup).1 ≠ exDup := by decide
theorem kcd_prefix_witness : (exportEffectPreFix .kcd exDup).1 ≠ exDup := by decide
example : (exportEffect .kcd exDup).1 = exDup := by decide

/-! ## determinism across hash seeds: sorted order does not depend on the iteration order -/

theorem insertSorted_perm (x : Int) (l : List Int) : (insertSorted x l).Perm (x :: l) := by
  induction l with
  | nil => simp [insertSorted]
  | cons y t ih =>
    simp only [insertSorted]
    split
    · exact List.Perm.refl _
    · exact (List.Perm.cons y ih).trans (List.Perm.swap x y t)

theorem sortInts_perm (l : List Int) : (sortInts l).Perm l := by
  induction l with
  | nil => simp [sortInts]
  | cons x t ih => simp only [sortInts, List.foldr_cons]; exact (insertSorted_perm x _).trans (List.Perm.cons x ih)

theorem insertSorted_sorted (x : Int) (l : List Int) (h : l.Pairwise (· ≤ ·)) : (insertSorted x l).Pairwise (· ≤ ·) := by
  induction l with
  | nil => simp [insertSorted]
  | cons y t ih =>
    simp only [insertSorted]
    split
    · rename_i hxy
      rw [List.pairwise_cons] at h ⊢
      refine ⟨?_, List.pairwise_cons.2 h⟩
      intro z hz
      rcases List.mem_cons.1 hz with rfl | hz
      · exact hxy
      · exact Int.le_trans hxy (h.1 z hz)
    · rename_i hxy
      rw [List.pairwise_cons] at h ⊢
      refine ⟨?_, ih h.2⟩
      intro z hz
      have := (insertSorted_perm x t).subset hz
      rcases List.mem_cons.1 this with rfl | hz'
      · omega
      · exact h.1 z hz'

theorem sortInts_sorted (l : List Int) : (sortInts l).Pairwise (· ≤ ·) := by
  induction l with
  | nil => simp [sortInts]
  | cons x t ih => simp only [sortInts, List.foldr_cons]; exact insertSorted_sorted x _ ih

/-- two sorted lists with the same elements (as multisets) are equal -/
theorem sorted_perm_eq : ∀ (a b : List Int), a.Pairwise (· ≤ ·) → b.Pairwise (· ≤ ·) → a.Perm b → a = b
  | [], b, _, _, h => by simpa using h.symm.eq_nil
  | x :: a, [], _, _, h => by simpa using h.eq_nil
  | x :: a, y :: b, ha, hb, h => by
    rw [List.pairwise_cons] at ha hb
    have hx : x ∈ y :: b := h.subset (List.mem_cons_self)
    have hy : y ∈ x :: a := h.symm.subset (List.mem_cons_self)
    have hxy : x = y := by
      rcases List.mem_cons.1 hx with e | hx'
      · exact e
      · rcases List.mem_cons.1 hy with e | hy'
        · exact e.symm
        · have h1 := hb.1 x hx'
          have h2 := ha.1 y hy'
          omega
    subst hxy
    have := sorted_perm_eq a b ha.2 hb.2 (List.Perm.cons_inv h)
    rw [this]

/-- The order in which sym writes the multiplex groups is the same for every order in which the
set of multiplexer values is iterated (every value of the interpreter's hash seed). -/
theorem order_independent_sym (iter1 iter2 : List Int) (h : iter1.Perm iter2) :
    symGroupOrder iter1 = symGroupOrder iter2 :=
  sorted_perm_eq _ _ (sortInts_sorted _) (sortInts_sorted _)
    ((sortInts_perm iter1).trans (h.trans (sortInts_perm iter2).symm))

/-- pre-fix witness: the written order followed the iteration order -/
theorem sym_prefix_witness : symGroupOrderPreFix [1, 2] ≠ symGroupOrderPreFix [2, 1] := by decide

end CanVerif.C14
