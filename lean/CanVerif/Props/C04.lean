import CanVerif.Model.Dec
import CanVerif.Spec.Scaling
import CanVerif.Proofs.Dec
/-!
# C04 — physical scaling is exact decimal arithmetic and invertible

A raw value's physical value is exactly raw × factor + offset in decimal arithmetic, and converting
that physical value back gives the original raw value; a value-table label converts to its raw key,
named decoding returns the label for raw values that have one and the scaled number otherwise; when
no limits are given the physical minimum and maximum are the physical images of the raw range bounds.

Domain: the exact product and the exact sum have at most 28 digits (the library's precision).
`*_exact` theorems are stated for "the exact coefficient, as aligned by the operation, has at most 28
digits" (no rounding step is taken at all); `fix_exact_of_dvd` extends this to coefficients that
exceed 28 digits only by trailing zeros.
-/
namespace CanVerif.C04
open CanVerif

/-- the exact number a model decimal denotes -/
def exOf (d : Dec) : Spec.Ex := ⟨if d.neg then -(d.coeff : Int) else (d.coeff : Int), d.exp⟩

theorem exOf_eq (d : Dec) : exOf d = ⟨Dec.smant d, d.exp⟩ := rfl

theorem exOf_add (a b : Dec) :
    Spec.Ex.add (exOf a) (exOf b) =
      ⟨Dec.aligned a (min a.exp b.exp) + Dec.aligned b (min a.exp b.exp), min a.exp b.exp⟩ := by
  simp only [Spec.Ex.add, exOf_eq, Dec.aligned_eq]

theorem exOf_ofInt (i : Int) : exOf (Dec.ofInt i) = Spec.Ex.ofInt i := by
  simp only [exOf, Dec.ofInt, Spec.Ex.ofInt]
  congr 1
  by_cases h : i < 0 <;> simp [h] <;> omega

theorem exOf_negate (o : Dec) : Spec.Ex.neg (exOf o) = exOf { o with neg := !o.neg } := by
  simp only [Spec.Ex.neg, exOf]
  cases o.neg <;> simp

/-! ## the rounding step is the identity inside the precision -/

theorem fix_exact (neg : Bool) (c : Nat) (e : Int) (h : nd c ≤ PREC) : Dec.fix neg c e = ⟨neg, c, e⟩ := by
  exact Dec.fix_of_nd_le neg c e h

/-- a coefficient longer than 28 digits whose excess digits are zeros keeps its value -/
theorem fix_exact_of_dvd (neg : Bool) (c : Nat) (e : Int) (hc : c ≠ 0) (hlong : PREC < nd c)
    (hdvd : 10 ^ (nd c - PREC) ∣ c) :
    Dec.fix neg c e = ⟨neg, c / 10 ^ (nd c - PREC), e + ((nd c - PREC : Nat) : Int)⟩ := by
  exact Dec.fix_of_dvd neg c e hc hlong hdvd

/-- multiplication is exact when the product of the coefficients has at most 28 digits -/
theorem mul_exact (a b : Dec) (h : nd (a.coeff * b.coeff) ≤ PREC) :
    exOf (Dec.mul a b) = Spec.Ex.mul (exOf a) (exOf b) := by
  unfold Dec.mul
  rw [Dec.fix_of_nd_le _ _ _ h]
  simp only [exOf, Spec.Ex.mul]
  cases a.neg <;> cases b.neg <;> simp [Int.natCast_mul, Int.neg_mul, Int.mul_neg]

/-- addition is exact when the aligned sum has at most 28 digits -/
theorem add_exact (a b : Dec) (h : nd (Spec.Ex.add (exOf a) (exOf b)).m.natAbs ≤ PREC) :
    exOf (Dec.add a b) = Spec.Ex.add (exOf a) (exOf b) := by
  rw [exOf_add] at h ⊢
  obtain ⟨h1, h2, _⟩ := Dec.add_spec a b h
  rw [exOf_eq, h1, h2]

theorem add_comm (a b : Dec) : Dec.add a b = Dec.add b a := by
  unfold Dec.add
  simp only []
  rw [Int.min_comm a.exp b.exp, Int.add_comm (Dec.aligned a _), Bool.and_comm]

/-- rounding an integer-valued decimal to an integer returns that integer -/
theorem roundInt_ofInt (i : Int) : (Dec.ofInt i).roundInt = i := by
  unfold Dec.roundInt Dec.ofInt
  simp
  split <;> omega

/-! ## scaling -/

/-- A raw value's physical value is exactly raw × factor + offset (inside the precision). -/
theorem raw2phys_exact (s : ScaleSig) (raw : Int)
    (hmul : nd (raw.natAbs * s.factor.coeff) ≤ PREC)
    (hsum : nd (Spec.physOf raw (exOf s.factor) (exOf s.offset)).m.natAbs ≤ PREC) :
    exOf (s.raw2phys raw) = Spec.physOf raw (exOf s.factor) (exOf s.offset) := by
  unfold ScaleSig.raw2phys Spec.physOf
  have hm := mul_exact (Dec.ofInt raw) s.factor hmul
  rw [exOf_ofInt] at hm
  rw [add_exact _ _ (by rw [hm]; exact hsum), hm]

/-- Converting the physical value back gives the original raw value (non-zero factor, inside the precision). -/
theorem phys2raw_raw2phys (s : ScaleSig) (raw : Int) (hf : s.factor.coeff ≠ 0)
    (hmul : nd (raw.natAbs * s.factor.coeff) ≤ PREC)
    (hsum : nd (Spec.physOf raw (exOf s.factor) (exOf s.offset)).m.natAbs ≤ PREC)
    (hoff : nd s.offset.coeff ≤ PREC)
    (hback : nd (Spec.Ex.add (Spec.physOf raw (exOf s.factor) (exOf s.offset)) (Spec.Ex.neg (exOf s.offset))).m.natAbs ≤ PREC) :
    s.phys2raw (s.raw2phys raw) = raw := by
  have _ := hoff  -- not needed: the offset only enters through `hsum` and `hback`
  have hme := mul_exact (Dec.ofInt raw) s.factor hmul
  rw [exOf_ofInt] at hme
  have hPm : Dec.smant (Dec.mul (Dec.ofInt raw) s.factor) = raw * Dec.smant s.factor := congrArg Spec.Ex.m hme
  have hPe : (Dec.mul (Dec.ofInt raw) s.factor).exp = s.factor.exp := by
    have := congrArg Spec.Ex.e hme
    simpa [exOf, Spec.Ex.mul, Spec.Ex.ofInt] using this
  unfold ScaleSig.phys2raw ScaleSig.raw2phys Dec.sub
  unfold Spec.physOf at hsum hback
  rw [← hme] at hsum hback
  generalize Dec.mul (Dec.ofInt raw) s.factor = P at *
  have hp := add_exact P s.offset hsum
  rw [← hp, exOf_negate, exOf_add] at hback
  rw [exOf_add] at hsum
  simp only [] at hsum hback
  obtain ⟨pe, pm, _⟩ := Dec.add_spec P s.offset hsum
  obtain ⟨de, dm, dc⟩ := Dec.add_spec (Dec.add P s.offset) { s.offset with neg := !s.offset.neg } hback
  have he2 : min (min s.factor.exp s.offset.exp) s.offset.exp = min s.factor.exp s.offset.exp := by omega
  apply Dec.roundInt_div_exact _ s.factor raw (s.factor.exp - min s.factor.exp s.offset.exp).toNat hf
  · rw [dm]
    simp only [pe, hPe, he2, Dec.aligned_eq, pm, hPm, Dec.smant_negate]
    simp only [Int.sub_self, Int.toNat_zero, Int.pow_zero, Int.mul_one, Int.neg_mul]
    omega
  · rw [de]
    simp only [pe, hPe, he2]
    omega
  · rw [dc]; exact hback

/-- the raw range of an integer signal of width 1..128 -/
theorem raw_range (s : ScaleSig) (h1 : 1 ≤ s.size) (h2 : s.size ≤ 128) : s.rawRange = Spec.rawRange s.size s.signed := by
  have _ := h1
  unfold ScaleSig.rawRange Spec.rawRange
  simp only [h2, if_true]
  cases s.signed <;> simp

/-- Default limits are the physical images of the bounds of the raw range. -/
theorem default_min_max (s : ScaleSig) :
    s.calcMin = s.raw2phys s.rawRange.1 ∧ s.calcMax = s.raw2phys s.rawRange.2 := by
  unfold ScaleSig.calcMin ScaleSig.calcMax ScaleSig.raw2phys
  exact ⟨add_comm _ _, add_comm _ _⟩

/-- A value-table label converts to a raw key carrying that label (the first one, in table order). -/
theorem label_to_key (s : ScaleSig) (l : String) :
    (∀ k, s.labelToRaw l = some k → (k, l) ∈ s.values) ∧
    (s.labelToRaw l = none ↔ ∀ kv ∈ s.values, kv.2 ≠ l) := by
  unfold ScaleSig.labelToRaw
  constructor
  · intro k hk
    cases hfind : s.values.find? (·.2 == l) with
    | none => rw [hfind] at hk; simp at hk
    | some kv =>
      rw [hfind] at hk
      simp at hk
      have hmem := List.mem_of_find?_eq_some hfind
      have hp := List.find?_some hfind
      simp at hp
      subst hk; subst hp
      exact hmem
  · simp [List.find?_eq_none]

/-- Named decoding returns the label for raw values that have one … -/
theorem named_value_label (s : ScaleSig) (raw : Int) (h : ∃ l, (raw, l) ∈ s.values) :
    ∃ l, s.namedValue raw = .inl l ∧ (raw, l) ∈ s.values := by
  obtain ⟨l, hl⟩ := h
  unfold ScaleSig.namedValue
  cases hfind : s.values.find? (·.1 == raw) with
  | none =>
    rw [List.find?_eq_none] at hfind
    have := hfind _ hl
    simp at this
  | some kv =>
    have hmem := List.mem_of_find?_eq_some hfind
    have hp := List.find?_some hfind
    simp at hp
    subst hp
    exact ⟨kv.2, rfl, hmem⟩

/-- … and the scaled number otherwise. -/
theorem named_value_number (s : ScaleSig) (raw : Int) (h : ∀ kv ∈ s.values, kv.1 ≠ raw) :
    s.namedValue raw = .inr (s.raw2phys raw) := by
  unfold ScaleSig.namedValue
  have : s.values.find? (·.1 == raw) = none := by
    rw [List.find?_eq_none]
    intro kv hkv
    simpa using h kv hkv
  rw [this]

/-- a factor of 0 is normalised to 1 -/
theorem factor_zero_is_one (f : Dec) (h : f.coeff = 0) : normFactor f = ⟨false, 1, 0⟩ := by
  unfold normFactor; rw [if_pos h]

/-! non-vacuity: factor 0.1, offset -40, raw 1234 (a temperature signal) -/
def exSig : ScaleSig := { size := 16, signed := false, factor := ⟨false, 1, -1⟩, offset := ⟨true, 40, 0⟩ }
example : exSig.raw2phys 1234 = ⟨false, 834, -1⟩ := by decide
example : exSig.phys2raw ⟨false, 834, -1⟩ = 1234 := by decide
example : nd (1234 * exSig.factor.coeff) ≤ PREC := by decide

end CanVerif.C04
