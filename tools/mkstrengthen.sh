#!/bin/bash
# tools/mkstrengthen.sh <Cxx> "<missed ids>" : write /root/strengthen/Cxx.txt from tools/strengthen_prompt.txt
mkdir -p /root/strengthen
pid="$1"; pidl=$(echo "$pid" | tr 'C' 'c')
python3 - "$pid" "$pidl" "$2" <<'PY'
import sys
pid,pidl,missed=sys.argv[1:4]
t=open('/verif/tools/strengthen_prompt.txt').read().format(pid=pid,pidl=pidl,missed=missed)
open('/root/strengthen/%s.txt'%pid,'w').write(t)
PY
