"""C03 - multiplexed frames: exactly the active signals are decoded and encoded."""
import io
import contextlib

import canmatrix.canmatrix as cm
import canmatrix.formats
from lib import frames as F

PID = "C03"
RULE = ("case = (frame 2..16 bytes; a forest of signals: static signals, a root multiplexer (width 1..8 simple, 2..4 extended; like "
        "the nested ones declared signed in a third of the frames, so that selector bit patterns with the top bit set are negative "
        "values; API frames then also have groups with negative numbers, encode requests negative selector values), "
        "bound signals with 1..3 inclusive selector ranges, nested multiplexers with pairwise disjoint ranges per parent, "
        "nesting depth 1..3 (thorough: 4); shuffled signal order; built through the DBC reader (SG_ M/m<n>/m<n>M tags + SG_MUL_VAL_) "
        "or through the API for simple frames; payload random or steered along a random root-to-leaf path; for simple frames "
        "additionally an encode request: selector value (incl. unused ones) + a subset of all signals with in-range values). "
        "Every decode/encode is observed on objects with a history: the first use of a frame is made with its signals somewhere else "
        "(then moved into place by assignment), each call is repeated, and once more after another detour; an encode request is also "
        "made with one values dict used for several selector values. A result that depends on that history is a failure. "
        "A third of the frames has signal names that are related to each other (differing only in upper/lower case, one a prefix "
        "or suffix of another, with underscores and digits), and a third has signals that carry what is no business of the group "
        "selection: non-zero start values (initial_value / GenSigStartValue), declared limits (also ones that exclude the start "
        "value), value tables, units, comments, receivers. "
        "Non-trivial = distinct case with at least one bound signal.")
PARTIAL = ["the DBC text -> bookkeeping step is modelled only for the multiplex indicators and SG_MUL_VAL_ (the full line model is C05's)",
           "encoding of extended-multiplexed frames raises EncodingComplexMultiplexed by design and is not part of the property"]
ASSUMPTIONS = ["well-formed trees: acyclic, one root, nested multiplexers of one parent have disjoint ranges",
               "for encode: static signals, the multiplexer and each single group are pairwise non-overlapping"]
TRUSTED = ["regular expressions of the DBC reader for SG_ / SG_MUL_VAL_ lines (validated by this correspondence)"]
CORRESPONDENCE = "DBC reader bookkeeping + Frame.decode/encode == CanVerif.dbcMuxFrame + Frame.decode/encode"


def place(rng, nbytes, size, used, tries=30):
    for _ in range(tries):
        little = rng.random() < 0.5
        start = rng.randint(0, 8 * nbytes - size)
        a = set(F.sig_addrs(little, start, size))
        if not (a & used):
            return little, start, a
    return None


def gen_tree(rng, simple, depth_max):
    nbytes = rng.choice([2, 3, 4, 8, 8, 12, 16])
    nodes = []
    mulvals = []
    used_fixed = set()   # static + multiplexers: never overlapped by anything we need to read for selection

    def add(name, size, is_mux, parent, ranges, tag, used_extra=None, signed=None):
        used = set(used_fixed) | (used_extra if used_extra is not None else set())
        pl = place(rng, nbytes, size, used)
        if pl is None:
            return None
        little, start, a = pl
        if is_mux or parent is None:
            used_fixed.update(a)
        if used_extra is not None:
            used_extra.update(a)
        sg = F.sigdesc(name, start, size, little, (rng.random() < 0.4) if signed is None else signed, False)[:6]
        nodes.append({"s": sg, "mux": is_mux, "parent": parent, "ranges": ranges, "tag": tag})
        return nodes[-1]

    w = rng.randint(1, 8) if simple else rng.randint(2, 4)
    w = min(w, 8 * nbytes)
    # a multiplexer is a signal like any other: it may be declared signed ('-' in the SG_ line, is_signed=True - the default of
    # Signal() - through the API).  Its selector values with the top bit set are negative then and match no group m<N>.
    root = add("mx0", w, True, None, [], "M", signed=rng.random() < 0.35)
    for k in range(rng.randint(0, 3)):
        add("st%d" % k, rng.randint(1, 12), False, None, [], None)
    counter = [0]

    def rand_ranges(width, n):
        rs = []
        for _ in range(n):
            a = rng.randrange(0, 1 << width)
            b = a if (simple or rng.random() < 0.5) else min((1 << width) - 1, a + rng.randint(0, 3))
            rs.append([a, b])
        return rs

    def children(parent, pw, depth):
        group_used = {}
        nleaf = rng.randint(1, 6 if simple else 4)
        for _ in range(nleaf):
            counter[0] += 1
            rs = rand_ranges(pw, 1 if simple else rng.randint(1, 3))
            key = rs[0][0]
            gu = group_used.setdefault(key, set())
            nd = add("g%d" % counter[0], rng.randint(1, 10), False, parent["s"][0], rs, ["m", rs[0][0]], used_extra=gu)
            if nd is not None and not simple:
                mulvals.append([nd["s"][0], parent["s"][0], rs])
        if not simple and depth < depth_max:
            # nested multiplexers with pairwise disjoint ranges
            vals = list(range(1 << pw))
            rng.shuffle(vals)
            for _ in range(rng.randint(0, 2)):
                if not vals:
                    break
                v = vals.pop()
                rs = [[v, v]]
                if v + 1 in vals and rng.random() < 0.4:
                    vals.remove(v + 1)
                    rs = [[v, v + 1]]
                counter[0] += 1
                cw = rng.randint(2, 3)
                nd = add("mx%d" % counter[0], cw, True, parent["s"][0], rs, ["mM", rs[0][0]], signed=rng.random() < 0.35)
                if nd is not None:
                    mulvals.append([nd["s"][0], parent["s"][0], rs])
                    children(nd, cw, depth + 1)

    if root is not None:
        children(root, w, 1)
    # shuffle signal order (root may end up anywhere: all bindings are explicit through SG_MUL_VAL_ in extended frames;
    # in simple frames there is one multiplexer only)
    rng.shuffle(nodes)
    rng.shuffle(mulvals)
    return nbytes, nodes, mulvals


def steer_payload(rng, nbytes, nodes):
    data = F.rand_payload(rng, nbytes)
    if rng.random() < 0.6:
        # walk a random path and write the selector values needed for it
        bound = [n for n in nodes if n["parent"] is not None]
        if bound:
            n = rng.choice(bound)
            byname = {x["s"][0]: x for x in nodes}
            chain = []
            while n["parent"] is not None:
                r = rng.choice(n["ranges"])
                chain.append((byname[n["parent"]], rng.randint(r[0], r[1])))
                n = byname[n["parent"]]
            for m, v in chain:
                name, start, size, little = m["s"][:4]
                for i, a in enumerate(F.sig_addrs(little, start, size)):
                    if (v >> i) & 1:
                        data[a // 8] |= 1 << (a % 8)
                    else:
                        data[a // 8] &= ~(1 << (a % 8))
    return data


STEMS = ["temp", "mode", "sub", "val", "sig", "mux", "abc", "st", "g", "mx", "m", "sg"]


def related_names(rng, n):
    """n pairwise different names that are close to each other: the same letters in other case, one name the beginning or the end
    of another, underscores and digits (identifiers of a DBC file are case sensitive, and nothing is found by its beginning)"""
    stems = list(STEMS)
    rng.shuffle(stems)
    pool = []
    k = 0
    while len(pool) < n + 2:
        st = stems[k % len(stems)] + ("" if k < len(stems) else str(k))
        k += 1
        cap = st.capitalize()
        for v in (st, st.upper(), cap, cap.swapcase(), st + "_", "_" + st, st + st.upper(), st + "1", st.upper() + "1",
                  st + "_1", st.upper() + "_1", st + "10", "x" + st, "X" + st.upper()):
            if v not in pool:
                pool.append(v)
    # a window of the pool, so that the names of one frame share few stems
    first = rng.randrange(0, len(pool) - n + 1)
    names = pool[first:first + n]
    rng.shuffle(names)
    return names


def rename(c, mapping):
    f = lambda x: mapping.get(x, x)
    nodes = [dict(n, s=[f(n["s"][0])] + list(n["s"][1:]), parent=(None if n["parent"] is None else f(n["parent"]))) for n in c["nodes"]]
    mulvals = [[f(a), f(b), rs] for a, b, rs in c["mulvals"]]
    d = None if c["d"] is None else [[f(k), v] for k, v in c["d"]]
    return dict(c, nodes=nodes, mulvals=mulvals, d=d)


def dress(rng, c):
    """what the selection of groups must not depend on: how the signals are called, and what else they carry"""
    if rng.random() < 0.35:
        old = [n["s"][0] for n in c["nodes"]]
        c = rename(c, dict(zip(old, related_names(rng, len(old)))))
    if rng.random() < 0.35:
        deco = {}
        for n in c["nodes"]:
            if rng.random() < 0.6:
                lo, hi = F.raw_range(n["s"])
                dd = {}
                k = rng.random()
                if k < 0.7:
                    # start value as raw number (never 0: that is what every signal has anyway)
                    iv = rng.choice([lo, hi, 1, hi // 2 + 1, rng.randint(lo, hi), rng.randint(lo, hi)])
                    dd["iv"] = iv if iv != 0 else hi
                k = rng.random()
                if k < 0.3:
                    dd["lim"] = [lo, hi]                      # the limits of the raw range, declared
                elif k < 0.45 and hi - lo >= 3:
                    dd["lim"] = [lo + 1, hi - 1]              # narrower (a start value at the border is outside)
                if rng.random() < 0.3:
                    dd["vt"] = sorted({max(0, lo), rng.randint(max(0, lo), hi), hi})
                if rng.random() < 0.3:
                    dd["unit"] = rng.choice(["m/s", "V", "%", "rpm"])
                if rng.random() < 0.3:
                    dd["cm"] = "about %s" % n["s"][0]
                if rng.random() < 0.3:
                    dd["rx"] = rng.choice([["E1"], ["E1", "E2"]])
                if dd:
                    deco[n["s"][0]] = dd
        if deco:
            c = dict(c, deco=deco)
    return c


def negative_groups(rng, nodes):
    """frames built through the API: Signal(multiplex=<int>) binds a signal to any integer.  Under a signed multiplexer the group
    numbers at and above 2**(width-1) are never selected by a payload; half of such frames get them as the negative number with
    the same bit pattern instead (a group that IS selected, by a negative selector value)."""
    mux = [n for n in nodes if n["mux"]]
    if len(mux) != 1 or not mux[0]["s"][4] or rng.random() < 0.5:
        return
    w = mux[0]["s"][2]
    for n in nodes:
        if n["parent"] is not None and n["ranges"][0][0] >= 1 << (w - 1):
            v = n["ranges"][0][0] - (1 << w)
            n["ranges"] = [[v, v]]
            n["tag"] = ["m", v]


def phys(scaled, raw):
    return 2 * raw + 1 if scaled else raw


def gen(rng, tier, shard, nshards):
    total = {"quick": 6000, "thorough": 100000}[tier]
    dmax = 3 if tier == "quick" else 4
    for _ in range(total // nshards):
        simple = rng.random() < 0.45
        nbytes, nodes, mulvals = gen_tree(rng, simple, rng.randint(1, dmax))
        src = "api" if (simple and rng.random() < 0.4) else "dbc"
        if src == "api":
            negative_groups(rng, nodes)
        d = None
        if simple and rng.random() < 0.6:
            mux = [n for n in nodes if n["mux"]][0]
            w = mux["s"][2]
            used_vals = [n["ranges"][0][0] for n in nodes if n["parent"] is not None]
            sel = rng.choice(used_vals) if (used_vals and rng.random() < 0.7) else rng.randrange(0, 1 << w)
            if mux["s"][4] and sel >= 1 << (w - 1):
                # a signed multiplexer: the selector values a request can ask for are those of its raw range; the bit pattern
                # of a group number beyond it is a negative value (and selects no group of that number)
                sel -= 1 << w
            d = [[mux["s"][0], sel]]
            for n in nodes:
                if not n["mux"] and rng.random() < 0.7:
                    d.append([n["s"][0], F.rand_raw(rng, n["s"])])
            rng.shuffle(d)
        pre = [steer_payload(rng, nbytes, nodes) for _ in range(rng.choice([0, 0, 1, 2, 3]))]
        c = {"size": nbytes, "nodes": nodes, "mulvals": mulvals, "src": src, "data": steer_payload(rng, nbytes, nodes), "d": d, "pre": pre}
        yield {"op": "mux", "c": dress(rng, c)}


def neighbours(case, rng, shard, nshards):
    c = case["c"]
    for _ in range(300 // nshards + 1):
        yield {"op": "mux", "c": dict(c, data=steer_payload(rng, c["size"], c["nodes"]))}


def dbc_text(c):
    deco = c.get("deco") or {}
    present = {n["s"][0] for n in c["nodes"]}
    deco = {k: v for k, v in deco.items() if k in present}
    ecus = sorted({e for dd in deco.values() for e in dd.get("rx", [])})
    scaled = bool((c["size"] + len(c["nodes"])) % 2)
    lines = ['VERSION ""', "", "NS_ :", "", "BS_:", "", "BU_: " + " ".join(ecus), "", "BO_ 291 F: %d Vector__XXX" % c["size"]]
    for n in c["nodes"]:
        name, start, size, little, signed = n["s"][:5]
        tag = n["tag"]
        t = "" if tag is None else ("M" if tag == "M" else ("m%d" % tag[1] + ("M" if tag[0] == "mM" else "")))
        dstart = start if little else (8 * (start // 8) + 7 - start % 8)
        # (every other frame has scaled signals, the multiplexers too: the selector is the raw value)
        scale = "(2,1)" if scaled else "(1,0)"
        dd = deco.get(name, {})
        lim = "[%d|%d]" % (phys(scaled, dd["lim"][0]), phys(scaled, dd["lim"][1])) if "lim" in dd else "[0|0]"
        lines.append(' SG_ %s %s: %d|%d@%d%s %s %s "%s" %s' % (
            name, t + " " if t else "", dstart, size, 1 if little else 0, "-" if signed else "+", scale, lim,
            dd.get("unit", ""), ",".join(dd["rx"]) if "rx" in dd else "Vector__XXX"))
    lines.append("")
    for name, dd in deco.items():
        if "cm" in dd:
            lines.append('CM_ SG_ 291 %s "%s";' % (name, dd["cm"]))
    if any("iv" in dd for dd in deco.values()):
        lines.append('BA_DEF_ SG_  "GenSigStartValue" FLOAT 0 100000000000;')
        lines.append('BA_DEF_DEF_  "GenSigStartValue" 0;')
        for name, dd in deco.items():
            if "iv" in dd:
                lines.append('BA_ "GenSigStartValue" SG_ 291 %s %d;' % (name, dd["iv"]))
    for name, dd in deco.items():
        if "vt" in dd:
            lines.append("VAL_ 291 %s %s ;" % (name, " ".join('%d "v%d"' % (k, k) for k in reversed(dd["vt"]))))
    for k, (sg, mx, rs) in enumerate(c["mulvals"]):
        # (the blank behind the comma of a range list is optional)
        lines.append("SG_MUL_VAL_ 291 %s %s %s;" % (sg, mx, (", " if k % 2 else ",").join("%d-%d" % (a, b) for a, b in rs)))
    lines.append("")
    return "\n".join(lines)


def build(c):
    if c["src"] == "dbc":
        buf = io.StringIO()
        with contextlib.redirect_stdout(buf):
            db = canmatrix.formats.loads_flat(dbc_text(c).encode("utf-8"), "dbc", dbcImportEncoding="utf8")
        fr = db.frames[0]
        return fr, buf.getvalue()
    fr = cm.Frame("F", arbitration_id=cm.ArbitrationId(291, False), size=c["size"])
    for n in c["nodes"]:
        name, start, size, little, signed = n["s"][:5]
        mp = "Multiplexor" if n["mux"] else (n["ranges"][0][0] if n["parent"] is not None else None)
        if signed and (start + size) % 2:
            # is_signed=True is the default of Signal()
            sg_ = cm.Signal(name, start_bit=start, size=size, is_little_endian=little, multiplex=mp)
        else:
            sg_ = cm.Signal(name, start_bit=start, size=size, is_little_endian=little, is_signed=signed, multiplex=mp)
        scaled = bool((c["size"] + len(c["nodes"])) % 2)
        if scaled:
            sg_.factor, sg_.offset = 2, 1
        dd = (c.get("deco") or {}).get(name, {})
        if "lim" in dd:
            sg_.min, sg_.max = phys(scaled, dd["lim"][0]), phys(scaled, dd["lim"][1])
        if "iv" in dd:
            sg_.initial_value = phys(scaled, dd["iv"])
        for k in dd.get("vt", []):
            sg_.add_values(k, "v%d" % k)
        if "unit" in dd:
            sg_.unit = dd["unit"]
        if "cm" in dd:
            sg_.add_comment(dd["cm"])
        for e in dd.get("rx", []):
            sg_.add_receiver(e)
        fr.add_signal(sg_)
    fr.multiplex_signals()
    return fr, ""


def observe(case):
    c = case["c"]
    fr, out = build(c)
    fdesc = {"sigs": [[s.name, s.start_bit, s.size, bool(s.is_little_endian), bool(s.is_signed), bool(s.is_float),
                       bool(s.is_multiplexer), s.mux_val, [list(r) for r in s.mux_val_grp], s.muxer_for_signal]
                      for s in fr.signals],
             "cx": bool(fr.is_complex_multiplexed)}
    # decoding must not depend on what the same Frame object decoded before (other selector values first)
    for pre in c.get("pre", []):
        F.observe_decode(fr, pre)
    r = {"f": fdesc, "dec": F.observe_decode(fr, c["data"]), "enc": None, "encdec": None}
    if "error with line" in out:
        r["readerr"] = out[:200]
    if c["d"] is not None:
        e = F.observe_encode(fr, c["d"])
        r["enc"] = e
        if "ok" in e:
            r["encdec"] = F.observe_decode(fr, e["ok"])
    return r


def project(impl):
    return {k: impl.get(k) for k in ("f", "dec", "enc", "encdec")}


def features(case, impl):
    c = case["c"]
    yield "src=" + c["src"]
    ext = bool(c["mulvals"])
    yield "kind=" + ("extended" if ext else "simple")
    nm = sum(1 for n in c["nodes"] if n["mux"])
    yield "multiplexers=%d" % nm
    muxes = [n for n in c["nodes"] if n["mux"]]
    roots = [n for n in muxes if n["parent"] is None]
    if any(n["s"][4] for n in roots):
        yield "root-multiplexer-signed"
        if "ok" in impl["dec"] and any(impl["dec"]["ok"].get(n["s"][0], 0) < 0 for n in roots):
            yield "root-multiplexer-signed-and-negative-in-the-payload"
        if c["d"] is not None and any(k == roots[0]["s"][0] and v < 0 for k, v in c["d"]):
            yield "encode-request-with-negative-selector"
    if any(n["s"][4] for n in muxes if n["parent"] is not None):
        yield "nested-multiplexer-signed"
    if any(r[0] < 0 for n in c["nodes"] for r in n["ranges"]):
        yield "groups-with-negative-number"
    names = [n["s"][0] for n in c["nodes"]]
    if len({x.casefold() for x in names}) < len(names):
        yield "names-differing-only-in-case"
    if any(a != b and (b.startswith(a) or b.endswith(a)) for a in names for b in names):
        yield "a-name-is-the-beginning-or-end-of-another"
    deco = c.get("deco") or {}
    if any("iv" in dd for dd in deco.values()):
        yield "signals-with-start-value"
        if c["d"] is not None:
            yield "encode-request-with-start-values-in-the-frame"
    if any(k in dd for dd in deco.values() for k in ("lim", "vt", "unit", "cm", "rx")):
        yield "signals-with-limits-tables-units-comments-receivers"
    yield "encode-request" if c["d"] is not None else "decode-only"
    yield "earlier-decodes-on-the-same-frame=%d" % len(c.get("pre", []))
    if "ok" in impl["dec"]:
        yield "decoded-keys=%s" % ("few" if len(impl["dec"]["ok"]) <= 3 else "many")
        act_mux = sum(1 for n in c["nodes"] if n["mux"] and n["s"][0] in impl["dec"]["ok"])
        yield "active-multiplexers=%d" % act_mux
    else:
        yield "decode-error=" + impl["dec"].get("err", "?")


def nontrivial(case, impl):
    return any(n["parent"] is not None for n in case["c"]["nodes"])


def shrink_candidates(case):
    c = case["c"]
    leaves = [n for n in c["nodes"] if not n["mux"]]
    for n in leaves:
        if len(c["nodes"]) > 2:
            nn = [x for x in c["nodes"] if x is not n]
            mv = [m for m in c["mulvals"] if m[0] != n["s"][0]]
            d = None if c["d"] is None else [kv for kv in c["d"] if kv[0] != n["s"][0]]
            yield {"op": "mux", "c": dict(c, nodes=nn, mulvals=mv, d=d)}
    deco = c.get("deco") or {}
    for name in deco:
        yield {"op": "mux", "c": dict(c, deco={k: v for k, v in deco.items() if k != name})}
    for name, dd in deco.items():
        for key in dd:
            if len(dd) > 1:
                yield {"op": "mux", "c": dict(c, deco=dict(deco, **{name: {k: v for k, v in dd.items() if k != key}}))}
