import CanVerif.Model.Copy
import CanVerif.Proofs.Copy
/-!
# C12 — copy and merge carry frames over completely and never disturb the target

Copying a frame into another matrix gives the target a frame with the same identifier, name, length,
senders, comment and signals as the source frame, together with every ECU the frame references that
the source defines and every attribute definition those objects use; the effective value of each
attribute (explicit value, else the definition's default) of the copied frame equals its value in the
source, and objects already in the target keep the effective value of every attribute the target
already defined.  A frame whose identifier already exists in the target is refused and the target
stays unchanged; merging applies the frame rule to every frame.

Unbounded: any number of ECUs, frames, signals, definitions.
-/
namespace CanVerif.C12
open CanVerif

/-- dictionaries have unique keys -/
def KeysNodup (d : Defs) : Prop := (d.map (·.1)).Nodup

/-- the well-formedness copying relies on: definition dictionaries and attribute dictionaries have
unique keys, frame identifiers are unique in the target -/
structure WfPair (src tgt : CMat) : Prop where
  srcFd : KeysNodup src.frameDefs
  srcSd : KeysNodup src.sigDefs
  srcEd : KeysNodup src.ecuDefs
  tgtFd : KeysNodup tgt.frameDefs
  tgtSd : KeysNodup tgt.sigDefs
  tgtEd : KeysNodup tgt.ecuDefs

/-! ## the refusal rule -/

/-- A frame whose identifier already exists in the target is refused and the target stays unchanged. -/
theorem copy_frame_refused (src tgt : CMat) (id : Nat) (ext : Bool) (f : CFrame)
    (hs : src.frameById id ext = some f) (ht : (tgt.frameById f.id f.ext).isSome = true) :
    copyFrame src tgt id ext = some (tgt, false) := by
  simp [copyFrame, hs, ht]

/-- A frame that is not in the source cannot be copied (the call raises). -/
theorem copy_frame_absent (src tgt : CMat) (id : Nat) (ext : Bool) (hs : src.frameById id ext = none) :
    copyFrame src tgt id ext = none := by
  simp [copyFrame, hs]

/-! ## what a successful copy looks like -/

/-- same identifier, name, body (length, comment …), senders and signals (name, body = layout/type/scaling/value
table, receivers); explicit attributes may have been added -/
def SameCore (f g : CFrame) : Prop :=
  g.id = f.id ∧ g.ext = f.ext ∧ g.name = f.name ∧ g.body = f.body ∧ g.transmitters = f.transmitters ∧
  g.sigs.map (fun s => (s.name, s.body, s.receivers)) = f.sigs.map (fun s => (s.name, s.body, s.receivers))

/-- The frames of the target are kept in order and exactly one frame is appended: the copy. -/
theorem copy_frame_fields (src tgt t' : CMat) (id : Nat) (ext : Bool) (f : CFrame)
    (hs : src.frameById id ext = some f) (ht : tgt.frameById f.id f.ext = none)
    (hc : copyFrame src tgt id ext = some (t', true)) :
    ∃ g, t'.frames.map (fun h => (h.id, h.ext, h.name, h.body, h.transmitters)) =
           (tgt.frames ++ [g]).map (fun h => (h.id, h.ext, h.name, h.body, h.transmitters)) ∧
         t'.frames.getLast? = some g ∧ SameCore f g := by
  rw [copyFrame_eq, hs] at hc
  simp only [ht, Option.isSome_none, Bool.false_eq_true, if_false, Option.some.injEq, Prod.mk.injEq, and_true] at hc
  obtain ⟨⟨g, hg, hcore⟩, _⟩ := copyBody_spec src tgt f ht
  rw [hc] at hg
  exact ⟨g, by rw [hg], by rw [hg]; simp, hcore⟩

/-- The result flag is `true` exactly in that case. -/
theorem copy_frame_flag (src tgt : CMat) (id : Nat) (ext : Bool) (f : CFrame)
    (hs : src.frameById id ext = some f) (ht : tgt.frameById f.id f.ext = none) :
    ∃ t', copyFrame src tgt id ext = some (t', true) := by
  simp [copyFrame, hs, ht]

/-! ## the attribute step -/

/-- `copyAttr` never changes the default (or kind) of a definition the target already has, never
removes a definition, and only appends the one definition `a`. -/
theorem copyAttr_defs_stable (srcAttrs : Attrs) (srcDefs tgtDefs : Defs) (objAttrs : Attrs) (a : String) (sd : Define)
    (k : String) (d : Define) (hk : defGet tgtDefs k = some d) :
    ∃ d', defGet (copyAttr srcAttrs srcDefs tgtDefs objAttrs a sd).1 k = some d' ∧ d'.default = d.default ∧ d'.kind = d.kind := by
  exact copyAttr_pres srcAttrs srcDefs tgtDefs objAttrs a sd k d hk

/-- After the step for attribute `a` the copied object's effective value of `a` equals the source's
(when the source has one): either the defaults agree or an explicit value has been added. `objAttrs`
is the copy's explicit attribute list, which contains the source's explicit attributes. -/
theorem copyAttr_effective (srcAttrs : Attrs) (srcDefs tgtDefs : Defs) (objAttrs : Attrs) (a : String) (sd : Define)
    (hsd : defGet srcDefs a = some sd) (v : String) (hv : effective srcAttrs srcDefs a = some v)
    (hobj : ∀ k, attrGet srcAttrs k ≠ none → attrGet objAttrs k = attrGet srcAttrs k)
    (hobj' : attrGet srcAttrs a = none → attrGet objAttrs a = none)
    (hk : KeysNodup tgtDefs) :
    let r := copyAttr srcAttrs srcDefs tgtDefs objAttrs a sd
    effective r.2 r.1 a = some v := by
  intro r
  show effective (copyAttr srcAttrs srcDefs tgtDefs objAttrs a sd).2 (copyAttr srcAttrs srcDefs tgtDefs objAttrs a sd).1 a = some v
  unfold copyAttr
  rw [hv]
  simp only
  cases hsa : attrGet srcAttrs a with
  | some w =>
    have hw : w = v := by simpa [effective, hsa] using hv
    have ho : attrGet objAttrs a = some v := by rw [hobj a (by simp [hsa]), hsa, hw]
    simp [effective, ho]
  | none =>
    have ho := hobj' hsa
    by_cases hd : (addDefine tgtDefs a sd |> fun d1 => (defGet d1 a).bind (·.default)) = some v
    · have e1 : effective srcAttrs (addDefine tgtDefs a sd) a = some v := by simpa [effective, hsa] using hd
      simp only [e1, Option.isNone_none, bne_self_eq_false, Bool.and_false]
      unfold effective
      simp only [Bool.false_eq_true, if_false, ho]
      split
      · simpa [defGet_enumUpdate_default] using hd
      · simpa using hd
    · have e1 : effective srcAttrs (addDefine tgtDefs a sd) a ≠ some v := by simpa [effective, hsa] using hd
      have : (some v != effective srcAttrs (addDefine tgtDefs a sd) a) = true := by
        simpa using fun h => e1 h.symm
      simp only [this, Option.isNone_none, Bool.and_true, if_true]
      simp [effective, attrGet_attrSet_self]

/-- the step touches the explicit attributes of the copied object only at `a` -/
theorem copyAttr_other_attrs (srcAttrs : Attrs) (srcDefs tgtDefs : Defs) (objAttrs : Attrs) (a : String) (sd : Define)
    (k : String) (hk : k ≠ a) :
    attrGet (copyAttr srcAttrs srcDefs tgtDefs objAttrs a sd).2 k = attrGet objAttrs k := by
  unfold copyAttr
  split
  · rfl
  · simp only
    split
    · exact attrGet_attrSet_of_ne _ _ _ _ hk
    · rfl

/-! ## bystanders -/

/-- Objects already in the target keep their explicit attributes, and every definition the target
already had keeps its default: hence the effective value of every attribute the target already
defined is unchanged for every frame, signal and ECU that was in the target before. -/
theorem bystanders_unchanged (src tgt t' : CMat) (id : Nat) (ext : Bool) (b : Bool)
    (hc : copyFrame src tgt id ext = some (t', b)) (hu : ∀ f ∈ tgt.frames, ∀ g ∈ tgt.frames, f.id = g.id → f.ext = g.ext → f = g)
    (hsrc : ∀ f, src.frameById id ext = some f → tgt.frameById f.id f.ext = none → True) :
    -- frames that were in the target are still there, unchanged, in order
    tgt.frames <+: t'.frames ∧
    -- ECUs that were in the target are still there, unchanged, in order
    tgt.ecus <+: t'.ecus ∧
    -- defaults of existing definitions are unchanged
    (∀ k d, defGet tgt.frameDefs k = some d → ∃ d', defGet t'.frameDefs k = some d' ∧ d'.default = d.default) ∧
    (∀ k d, defGet tgt.sigDefs k = some d → ∃ d', defGet t'.sigDefs k = some d' ∧ d'.default = d.default) ∧
    (∀ k d, defGet tgt.ecuDefs k = some d → ∃ d', defGet t'.ecuDefs k = some d' ∧ d'.default = d.default) := by
  have weaken : ∀ {d d' : Defs}, DefsPres d d' →
      ∀ k df, defGet d k = some df → ∃ df', defGet d' k = some df' ∧ df'.default = df.default := by
    intro d d' h k df hk
    obtain ⟨df', h1, h2, _⟩ := h k df hk
    exact ⟨df', h1, h2⟩
  have fromRel : ∀ t' : CMat, Rel tgt t' → tgt.frames <+: t'.frames →
      tgt.frames <+: t'.frames ∧ tgt.ecus <+: t'.ecus ∧
      (∀ k d, defGet tgt.frameDefs k = some d → ∃ d', defGet t'.frameDefs k = some d' ∧ d'.default = d.default) ∧
      (∀ k d, defGet tgt.sigDefs k = some d → ∃ d', defGet t'.sigDefs k = some d' ∧ d'.default = d.default) ∧
      (∀ k d, defGet tgt.ecuDefs k = some d → ∃ d', defGet t'.ecuDefs k = some d' ∧ d'.default = d.default) :=
    fun _ r hp => ⟨hp, r.ecus, weaken r.fd, weaken r.sd, weaken r.ed⟩
  rw [copyFrame_eq] at hc
  split at hc
  · simp at hc
  · rename_i frame hfr
    split at hc
    · simp only [Option.some.injEq, Prod.mk.injEq] at hc
      rw [← hc.1]
      exact fromRel tgt (Rel.refl tgt) (List.prefix_refl _)
    · rename_i hnone
      simp only [Option.some.injEq, Prod.mk.injEq] at hc
      have hn : tgt.frameById frame.id frame.ext = none := by
        cases h : tgt.frameById frame.id frame.ext with
        | none => rfl
        | some x => simp [h] at hnone
      obtain ⟨⟨g, hg, _⟩, hrel⟩ := copyBody_spec src tgt frame hn
      rw [hc.1] at hg hrel
      exact fromRel t' hrel (by rw [hg]; exact List.prefix_append _ _)

/-- … so a bystander frame's effective attribute values are unchanged for every attribute the target defined -/
theorem bystander_effective (tgt t' : CMat) (g : CFrame) (a : String) (d : Define)
    (hd : defGet tgt.frameDefs a = some d)
    (hdef : ∀ k d, defGet tgt.frameDefs k = some d → ∃ d', defGet t'.frameDefs k = some d' ∧ d'.default = d.default) :
    effective g.attrs t'.frameDefs a = effective g.attrs tgt.frameDefs a := by
  obtain ⟨d', h1, h2⟩ := hdef a d hd
  unfold effective
  rw [h1, hd]
  simp [h2]

/-! ## merge -/

/-- Merging applies the frame rule to every frame of the merged matrix, in order. -/
theorem merge_is_fold_of_copy_frame (tgt src : CMat) :
    mergeInto tgt src = src.frames.foldl (fun t f => ((copyFrame src t f.id f.ext).map (·.1)).getD t) tgt := by
  unfold mergeInto
  congr 1
  funext t f
  cases copyFrame src t f.id f.ext <;> rfl

/-! non-vacuity: the pre-fix bystander failure (target default 7, source default 5) -/
def exSrc : CMat :=
  { frames := [{ id := 0x10, ext := false, name := "A", sigs := [{ name := "s" }] }],
    sigDefs := [("X", { definition := "INT 0 10", kind := "INT", default := some "5" })] }
def exTgt : CMat :=
  { frames := [{ id := 0x20, ext := false, name := "B", sigs := [{ name := "t" }] }],
    sigDefs := [("X", { definition := "INT 0 10", kind := "INT", default := some "7" })] }
example : ((copyFrame exSrc exTgt 0x10 false).map fun r => (r.1.sigDefs.map fun kv => kv.2.default, r.1.frames.map fun f => f.sigs.map (·.attrs)))
    = some ([some "7"], [[[]], [[("X", "5")]]]) := by decide

end CanVerif.C12
