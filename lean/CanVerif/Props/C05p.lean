import CanVerif.Model.DbcPost
import CanVerif.Props.C05i
import CanVerif.Props.C05o
/-!
# C05 — names longer than 32 characters come back (post-processing on top of the file round trip)

`dump` writes a frame or signal whose name is longer than 32 characters under its first 32 characters and gives it the attribute
`SystemMessageLongSymbol` / `SystemSignalLongSymbol` with the whole name as a text; `load` restores the name in its post-processing
(Model/DbcPost.lean, compared with the matrix `dbc.load` returns on every generated file: op `post`).  Here: the names of frames and
signals after the post-processing for every state of the line loop, and - on top of `dbc_file_roundtrip_line_for_line` - for every
written frame that carries the long-name attribute: the frame the reader returns at that place has that identifier and the long name.
-/
namespace CanVerif.C05p
open CanVerif CanVerif.Dbc CanVerif.Dbc.FileProofs

theorem splitDummy_none (fs : List PFrame) (h : ∀ f ∈ fs, isDummyFrame f = false) : splitDummy fs = (fs, []) := by
  unfold splitDummy
  have : fs.find? isDummyFrame = none := by
    rw [List.find?_eq_none]
    intro f hf
    simp [h f hf]
  rw [this]

/-- identifier and name of every frame after the post-processing, when no frame is the pseudo frame of the signals without frame -/
theorem post_frame_names (m : RMatrix)
    (hnd : ∀ f ∈ m.frames, (longName "SystemMessageLongSymbol" f.name f.attrs).1 ≠ "VECTOR__INDEPENDENT_SIG_MSG".toList) :
    (postProcess m).frames.map (fun f => (f.key, f.name)) =
      m.frames.map fun f => (f.key, (longName "SystemMessageLongSymbol" f.name f.attrs).1) := by
  have hsplit : splitDummy (postFrames3 m) = (postFrames3 m, []) := by
    apply splitDummy_none
    intro f hf
    simp only [postFrames3, postFrames2, postFrames1, List.mem_map] at hf
    obtain ⟨f2, ⟨f1, ⟨f0, hf0, rfl⟩, rfl⟩, rfl⟩ := hf
    simp only [isDummyFrame]
    have := hnd f0 hf0
    simpa using this
  unfold postProcess
  simp only [hsplit]
  simp only [postFrames3, postFrames2, postFrames1, List.map_map]
  apply List.map_congr_left
  intro f _
  rfl

/-- the names of the signals of every frame after the post-processing -/
theorem post_signal_names (m : RMatrix)
    (hnd : ∀ f ∈ m.frames, (longName "SystemMessageLongSymbol" f.name f.attrs).1 ≠ "VECTOR__INDEPENDENT_SIG_MSG".toList) :
    (postProcess m).frames.map (fun f => f.sigs.map (·.name)) =
      m.frames.map fun f => f.sigs.map fun s => (longName "SystemSignalLongSymbol" s.sg.name s.attrs).1 := by
  have hsplit : splitDummy (postFrames3 m) = (postFrames3 m, []) := by
    apply splitDummy_none
    intro f hf
    simp only [postFrames3, postFrames2, postFrames1, List.mem_map] at hf
    obtain ⟨f2, ⟨f1, ⟨f0, hf0, rfl⟩, rfl⟩, rfl⟩ := hf
    simp only [isDummyFrame]
    have := hnd f0 hf0
    simpa using this
  unfold postProcess
  simp only [hsplit]
  simp only [postFrames3, postFrames2, postFrames1, List.map_map]
  apply List.map_congr_left
  intro f _
  simp only [Function.comp_apply, List.map_map]
  apply List.map_congr_left
  intro s _
  rfl

/-- **a long frame name survives the round trip**: the frame written under its first characters with the long-name attribute comes back,
at its place and with its identifier, under the long name -/
theorem long_frame_name_survives (es : List WEcu) (hes : wfEcus es = true) (ts : List WTable) (hts : wfTables ts = true)
    (ds : List DefLine) (hds : wfDefs ds = true) (dds : List DefDefLine) (hdds : wfDefaults ds dds = true)
    (ga : List (Str × Str)) (hga : wfAttrs (expectDefs ds dds) .global .global ga = true)
    (hea : ∀ e ∈ es, wfAttrs (expectDefs ds dds) .ecu (.ecu e.name) e.attrs = true)
    (ps : List (WFrame × (Nat × Bool))) (hwf : ∀ p ∈ ps, p.1.wf p.2 = true) (hdist : ps.Pairwise fun p q => p.2 ≠ q.2)
    (hfa : ∀ p ∈ ps, p.1.wfA (expectDefs ds dds) = true)
    (hnd : ∀ p ∈ ps, (longName "SystemMessageLongSymbol" p.1.bo.name (attrsOf p.1.attrs)).1 ≠ "VECTOR__INDEPENDENT_SIG_MSG".toList)
    (i : Nat) (p : WFrame × (Nat × Bool)) (hp : ps[i]? = some p) (long : Str)
    (hlong : lookupAttr (attrsOf p.1.attrs) "SystemMessageLongSymbol".toList = some ('"' :: long ++ ['"'])) :
    ∃ f : PFrame, (postProcess (readFile (writeDbc es ts ds dds ga (ps.map (·.1))))).frames[i]? = some f ∧ f.key = p.2 ∧ f.name = long := by
  have hfr := (C05o.dbc_file_roundtrip_line_for_line es hes ts hts ds hds dds hdds ga hga hea ps hwf hdist hfa).2.2.2.1
  have hnames := post_frame_names (readFile (writeDbc es ts ds dds ga (ps.map (·.1)))) (by
    rw [hfr]
    intro f hf
    obtain ⟨q, hq, rfl⟩ := List.mem_map.mp hf
    exact hnd q hq)
  rw [hfr, List.map_map] at hnames
  have hi := congrArg (fun l => l[i]?) hnames
  simp only [List.getElem?_map, hp, Option.map_some, Function.comp_apply] at hi
  cases hget : (postProcess (readFile (writeDbc es ts ds dds ga (ps.map (·.1))))).frames[i]? with
  | none => rw [hget] at hi; simp at hi
  | some f =>
    rw [hget] at hi
    simp only [Option.map_some, Option.some.injEq, Prod.mk.injEq] at hi
    refine ⟨f, rfl, hi.1, ?_⟩
    rw [hi.2]
    exact (CanVerif.C05i.long_name_restored "SystemMessageLongSymbol" _ _ long hlong).1

/-- **frames keep identifier and name** through the file and the post-processing when no frame carries a long-name attribute (names of at
most 32 characters) and none is the pseudo frame of the signals without frame -/
theorem dbc_file_keeps_frame_names (es : List WEcu) (hes : wfEcus es = true) (ts : List WTable) (hts : wfTables ts = true)
    (ds : List DefLine) (hds : wfDefs ds = true) (dds : List DefDefLine) (hdds : wfDefaults ds dds = true)
    (ga : List (Str × Str)) (hga : wfAttrs (expectDefs ds dds) .global .global ga = true)
    (hea : ∀ e ∈ es, wfAttrs (expectDefs ds dds) .ecu (.ecu e.name) e.attrs = true)
    (ps : List (WFrame × (Nat × Bool))) (hwf : ∀ p ∈ ps, p.1.wf p.2 = true) (hdist : ps.Pairwise fun p q => p.2 ≠ q.2)
    (hfa : ∀ p ∈ ps, p.1.wfA (expectDefs ds dds) = true)
    (hnolong : ∀ p ∈ ps, lookupAttr (attrsOf p.1.attrs) "SystemMessageLongSymbol".toList = none)
    (hnd : ∀ p ∈ ps, p.1.bo.name ≠ "VECTOR__INDEPENDENT_SIG_MSG".toList) :
    (postProcess (readFile (writeDbc es ts ds dds ga (ps.map (·.1))))).frames.map (fun f => (f.key, f.name)) =
      ps.map fun p => (p.2, p.1.bo.name) := by
  have hfr := (C05o.dbc_file_roundtrip_line_for_line es hes ts hts ds hds dds hdds ga hga hea ps hwf hdist hfa).2.2.2.1
  have hname : ∀ p ∈ ps, (longName "SystemMessageLongSymbol" (p.1.expectA p.2).name (p.1.expectA p.2).attrs).1 = p.1.bo.name := by
    intro p hp
    have := CanVerif.C05i.no_long_name "SystemMessageLongSymbol" p.1.bo.name (attrsOf p.1.attrs) (hnolong p hp)
    simp only [WFrame.expectA, WFrame.expect]
    rw [this]
  rw [post_frame_names _ (by
    rw [hfr]
    intro f hf
    obtain ⟨q, hq, rfl⟩ := List.mem_map.mp hf
    rw [hname q hq]
    exact hnd q hq)]
  rw [hfr, List.map_map]
  apply List.map_congr_left
  intro p hp
  simp only [Function.comp_apply, hname p hp]
  rfl

/-! ## non-vacuity -/

def exLong : List (WFrame × (Nat × Bool)) :=
  [({ bo := ⟨291, "A_frame_name_that_is_longer_than".toList, 8, "ECU_A".toList⟩, sigs := [{ sg := CanVerif.C05h.exSg "Speed" 0 }],
      attrs := [("SystemMessageLongSymbol".toList, "\"A_frame_name_that_is_longer_than_32_characters\"".toList)] }, (291, false))]
def exLongDefs : List DefLine := [⟨.frame, "SystemMessageLongSymbol".toList, "STRING".toList⟩]

example : exLong.all (fun p => p.1.wf p.2 && p.1.wfA (expectDefs exLongDefs [])) = true := by decide +kernel
example : (postProcess (readFile (writeDbc CanVerif.C05k.exEcusA [] exLongDefs [] [] (exLong.map (·.1))))).frames.map (fun f => (f.key, f.name)) =
    [((291, false), "A_frame_name_that_is_longer_than_32_characters".toList)] := by decide +kernel

end CanVerif.C05p
