"""C15: abstract network descriptions (plain JSON), independent of canmatrix objects, and what a reader must make of them.

A signal is described by the payload bits it occupies: `lsb`/`msb` are bit addresses in the numbering where bit i of byte j has
address 8*j+i (bit 0 = least significant bit of the byte).  An Intel signal of n bits occupies lsb..lsb+n-1; a Motorola signal
starts at its most significant bit and runs towards lower bits, continuing at bit 7 of the next byte."""
import decimal

from lib import frames as F

D = decimal.Decimal
ECUS = ["ECU_A", "ECU_B", "Gw", "Body", "Diag"]
UNITS = ["", "V", "km/h", "rpm", "degC", "%", "\u00b0C"]
TEXTS = ["plain text", "two words, comma", "100%", "a/b (c)", "x=1; y=2", "Gr\u00f6\u00dfe \u00fcber 5 \u00b5m"]
# further lines of a text over several lines (formats whose definition lets a text run over several lines): an empty line, blanks at
# either end of a line, text outside ASCII, punctuation of the statement grammar (a quote is written escaped; no line ends in quote + semicolon)
MORE_LINES = ["second line", "", " line with a blank in front", "line with a blank behind ", "   ", "\u00e4\u00f6\u00fc \u00b5m", "x=1; y=2;",
              'said "no" twice', "a, b; c", "CM_ is no keyword here", "last line"]


def gen_text(rng, multiline, p_two=0.3):
    """a comment text: one line out of TEXTS; where the format allows it also two lines (as before) and three to five lines"""
    text = rng.choice(TEXTS)
    if not multiline:
        return text
    r = rng.random()
    if r < p_two:
        return text + "\nsecond line"
    if r < p_two + 0.3:
        return text + "".join("\n" + rng.choice(MORE_LINES) for _ in range(rng.randint(2, 4)))
    return text
# one number, several admissible renderings: (value as Decimal string, [renderings])
NUMBERS = [("1", ["1", "1.0", "1E0", "1e+00", "+1", "1.000"]), ("0.5", ["0.5", "5E-1", "5e-01", "0.50"]),
           ("0.001", ["0.001", "1E-3", "1e-03", "1.0E-3", "0.0010"]), ("0.125", ["0.125", "1.25E-1", "125e-3"]),
           ("2", ["2", "2.0", "2E0", "0.2E1", "20E-1"]), ("10", ["10", "1E1", "1e+1", "10.0", "1.0E+1"]),
           ("100", ["100", "1E2", "1e+02", "100.0"]), ("0.01", ["0.01", "1E-2", "1e-2", "0.010"]),
           ("1.5", ["1.5", "15E-1", "1.50", "0.15E1"]), ("0.25", ["0.25", "2.5E-1", "25e-2"]), ("3", ["3", "3.0", "3E0"]),
           ("0.0001", ["0.0001", "1E-4", "1e-04", "1.0e-4"])]
OFFSETS = [("0", ["0", "0.0", "0E0", "+0"]), ("-40", ["-40", "-40.0", "-4E1", "-4e+1", "-4.0E+01"]),
           ("1.5", ["1.5", "15E-1", "+1.5"]), ("100", ["100", "1E2", "1.0E+2"]), ("-0.5", ["-0.5", "-5E-1", "-5e-01", "-0.50"]),
           ("-273.15", ["-273.15", "-2.7315E2", "-27315e-2"])]


def addrs(little, anchor, size):
    """payload bit addresses from the least significant signal bit to the most significant one"""
    if little:
        return [anchor + i for i in range(size)]
    out = []
    byte, bit = divmod(anchor, 8)
    for _ in range(size):
        out.append(8 * byte + bit)
        if bit == 0:
            byte, bit = byte + 1, 7
        else:
            bit -= 1
    return out[::-1]


def internal_start(sig):
    """canmatrix's own start_bit for the signal (what the normal form of a read matrix shows): Intel = address of the least
    significant bit; Motorola = position of the most significant bit counted from the most significant bit of byte 0"""
    if sig["little"]:
        return sig["anchor"]
    byte, bit = divmod(sig["anchor"], 8)
    return 8 * byte + (7 - bit)


def lsb_addr(sig):
    return addrs(sig["little"], sig["anchor"], sig["size"])[0]


def gen_signal(rng, name, nbytes, used, o):
    for _ in range(15):
        size = F.rand_size(rng, min(8 * nbytes, o.get("maxwidth", 64)))
        force_float = False
        if o.get("floats", True) and o.get("maxwidth", 64) >= 32 and nbytes >= 4 and rng.random() < 0.12:
            # float32 / float64 signals are rare among random widths: ask for them explicitly
            size = 64 if (nbytes >= 8 and rng.random() < 0.5) else 32
            force_float = True
        little = rng.random() < 0.5
        if o.get("intel_only"):
            little = True
        anchor = rng.randrange(0, 8 * nbytes)
        a = addrs(little, anchor, size)
        if any(x < 0 or x >= 8 * nbytes for x in a) or set(a) & used:
            continue
        used |= set(a)
        is_float = o.get("floats", True) and size in (32, 64) and (force_float or rng.random() < 0.4)
        signed = (not is_float) and rng.random() < 0.4
        fac = rng.choice(NUMBERS)
        off = rng.choice(OFFSETS)
        s = {"name": name, "anchor": anchor, "size": size, "little": little, "signed": signed, "float": is_float,
             "factor": fac[0], "offset": off[0], "min": None, "max": None, "unit": rng.choice(UNITS),
             "receivers": sorted(rng.sample(o["ecus"], min(len(o["ecus"]), rng.choice([0, 1, 1, 2])))), "mux": None, "values": {}, "comment": ""}
        if rng.random() < 0.3:
            s["comment"] = gen_text(rng, o.get("multiline", True))
        if not is_float and rng.random() < 0.35:
            lo, hi = (-(1 << (size - 1)), (1 << (size - 1)) - 1) if signed else (0, (1 << size) - 1)
            keys = sorted({k for k in (0, 1, 2, hi, lo) if lo <= k <= hi})[:rng.randint(1, 4)]
            s["values"] = {str(k): rng.choice(["On", "Off", "Error state", "Init", "SNA", "ge\u00f6ffnet"]) + str(i) for i, k in enumerate(keys)}
        if not is_float and rng.random() < 0.4:
            lo, hi = (-(1 << (size - 1)), (1 << (size - 1)) - 1) if signed else (0, (1 << size) - 1)
            # limits at the ends of the raw range and at raw 0 as well as inside (a limit of 0 is a limit like any other)
            a_, b_ = sorted([rng.choice([lo, hi, 0, rng.randint(lo, hi), rng.randint(lo, hi)]), rng.choice([lo, hi, 0, rng.randint(lo, hi), rng.randint(lo, hi)])])
            f_, o_ = D(fac[0]), D(off[0])
            s["min"], s["max"] = str(a_ * f_ + o_), str(b_ * f_ + o_)
        return s
    return None


def gen_net(rng, opts=None):
    o = dict(opts or {})
    ecus = rng.sample(ECUS, rng.randint(2, 5))
    o["ecus"] = ecus
    frames = []
    ids = set()
    ids2 = set()
    signo = 0
    for k in range(rng.randint(1, o.get("maxframes", 3))):
        ext = o.get("ext", True) and rng.random() < 0.35
        while True:
            arbid = rng.randrange(0, 1 << 29) if ext else rng.randrange(0, 1 << 11)
            if rng.random() < 0.06:
                arbid = rng.choice([0, 0, (1 << 29) - 1 if ext else (1 << 11) - 1])     # boundary identifiers
            if frames and o.get("same_number_both_formats") and rng.random() < 0.2 and frames[0]["id"] < 0x800 and frames[0]["ext"] == ext:
                # the same identifier number as standard and as extended frame
                arbid, ext = frames[0]["id"], not ext
                if (arbid, ext) not in ids2:
                    ids2.add((arbid, ext))
                    break
                continue
            if arbid not in ids:
                ids.add(arbid)
                ids2.add((arbid, ext))
                break
        nbytes = rng.choice(o.get("lengths", [1, 2, 4, 8, 8, 8]))
        used = set()
        sigs = []
        if o.get("mux", True) and rng.random() < 0.3 and nbytes >= 2:
            mx = gen_signal(rng, "mx%d" % k, nbytes, used, dict(o, maxwidth=rng.randint(1, 4), floats=False, intel_only=bool(o.get("arxml"))))
            if mx:
                mx.update({"signed": False, "float": False, "mux": "M", "factor": "1", "offset": "0", "values": {}, "min": None, "max": None, "unit": ""})
                sigs.append(mx)
                base = set(used)
                for g in sorted(rng.sample(range(1 << mx["size"]), min(rng.randint(1, 3), 1 << mx["size"]))):
                    gu = set(base)
                    for j in range(rng.randint(1, 2)):
                        s = gen_signal(rng, "g%d_%d_%d" % (k, g, j), nbytes, gu, o)
                        if s:
                            s["mux"] = g
                            sigs.append(s)
                    used |= gu
                if not any(isinstance(s["mux"], int) for s in sigs):
                    mx["mux"] = None
                elif o.get("arxml"):
                    # the selector field of a MULTIPLEXED-I-PDU has no name (readers call it Multiplexor); Intel, no receivers
                    mx.update({"name": "Multiplexor", "comment": "", "receivers": []})
                elif o.get("sym"):
                    # SYM: the multiplexer has no name of its own (readers call it <frame>_MUX); each group has a name
                    mx["name"] = "Frame%d_MUX" % k
                    mx["values_names"] = {str(g): "grp%d_%d" % (k, g) for g in sorted({s["mux"] for s in sigs if isinstance(s["mux"], int)})}
                    mx["values"] = dict(mx["values_names"])
                    mx["comment"] = ""
        if o.get("floats", True) and not sigs and nbytes >= 8 and rng.random() < 0.15:
            # a float64 needs eight whole bytes: place it first
            little = rng.random() < 0.5 or bool(o.get("intel_only"))
            s64 = gen_signal(rng, "dbl%d" % k, nbytes, used, dict(o, maxwidth=1))
            if s64:
                used.clear()
                s64.update({"size": 64, "little": little, "anchor": 0 if little else 7, "float": True, "signed": False, "values": {}, "min": None, "max": None})
                used |= set(addrs(little, s64["anchor"], 64))
                sigs.append(s64)
        if o.get("extmux") and not sigs and nbytes >= 2 and rng.random() < 0.3:
            # extended multiplexing: mxa selects {mxb (itself a multiplexer), ...}; mxb selects the x signals by value ranges
            mxa = gen_signal(rng, "mxa%d" % k, nbytes, used, dict(o, maxwidth=3, floats=False))
            mxb = gen_signal(rng, "mxb%d" % k, nbytes, used, dict(o, maxwidth=3, floats=False)) if mxa else None
            if mxa and mxb:
                for m in (mxa, mxb):
                    m.update({"signed": False, "float": False, "factor": "1", "offset": "0", "values": {}, "min": None, "max": None, "unit": ""})
                g0 = rng.randrange(1 << mxa["size"])
                mxa["mux"] = "M"
                mxb.update({"mux": "M", "muxval": g0, "muxer_for": mxa["name"], "grp": [[g0, g0]]})
                sigs.extend([mxa, mxb])
                base = set(used)
                for j in range(rng.randint(1, 3)):
                    gu = set(base)
                    s = gen_signal(rng, "x%d_%d" % (k, j), nbytes, gu, o)
                    if s:
                        lo = rng.randrange(1 << mxb["size"])
                        hi = rng.randint(lo, (1 << mxb["size"]) - 1)
                        s.update({"mux": lo, "muxer_for": mxb["name"], "grp": [[lo, hi]] + ([[hi + 2, hi + 3]] if rng.random() < 0.3 else [])})
                        sigs.append(s)
                    used |= gu
                if len(sigs) == 2:
                    del sigs[:]
                    used.clear()
        for j in range(rng.randint(1, o.get("maxsigs", 4))):
            s = gen_signal(rng, "s%d_%d" % (k, signo), nbytes, used, o)
            signo += 1
            if s:
                sigs.append(s)
        tx = rng.sample(ecus, min(len(ecus), rng.choice([0, 1, 1, 2]))) if o.get("multi_tx", True) else rng.sample(ecus, 1)
        if o.get("arxml"):
            # one port direction per frame and ECU: a sender is not also a receiver of the frame's signals
            for s in sigs:
                s["receivers"] = [r for r in s["receivers"] if r not in tx]
        frames.append({"name": "Frame%d" % k, "id": arbid, "ext": ext, "size": nbytes,
                       "tx": tx,
                       "comment": rng.choice(["", "", "frame comment", "first line\nsecond line", gen_text(rng, True, 0.0)]) if o.get("multiline", True) else rng.choice(["", "frame comment"]),
                       "cycle": rng.choice([None, None, 10, 100]), "signals": sigs})
    net = {"ecus": ecus, "frames": frames, "defs": {"frame": [], "signal": [], "ecu": [], "global": []}, "gattrs": {}, "ecu_attrs": {}, "ecu_comments": {},
           "value_tables": {}, "groups": []}
    if o.get("attributes", True):
        for lvl, pre in (("frame", "Fr"), ("signal", "Sg"), ("ecu", "Ec"), ("global", "Gl")):
            for kind in rng.sample(["INT", "HEX", "FLOAT", "STRING", "ENUM"], rng.randint(0, 3)):
                name = pre + kind.capitalize()
                if kind in ("INT", "HEX"):
                    net["defs"][lvl].append([name, kind, ["0", "1000"], rng.choice([None, "0", "7"])])
                elif kind == "FLOAT":
                    net["defs"][lvl].append([name, kind, ["0", "100"], rng.choice([None, "0", "1.5"])])
                elif kind == "STRING":
                    net["defs"][lvl].append([name, kind, [], rng.choice([None, "", "dflt", "two words"])])
                else:
                    net["defs"][lvl].append([name, kind, ["Off", "On", "Auto"], rng.choice([None, "Off", "Auto"])])

        def values(lvl):
            out = {}
            for name, kind, par, _ in net["defs"][lvl]:
                if rng.random() < 0.5:
                    out[name] = {"INT": rng.choice(["0", "5", "1000"]), "HEX": rng.choice(["0", "255"]), "FLOAT": rng.choice(["0.5", "12.25", "100"]),
                                 "STRING": rng.choice(["abc", "x y", "", "Miller, Smith and Sons"]), "ENUM": rng.choice(["Off", "On", "Auto"])}[kind]
            return out
        net["gattrs"] = values("global")
        for e in ecus:
            net["ecu_attrs"][e] = values("ecu")
        for f in frames:
            f["attrs"] = values("frame")
            for s in f["signals"]:
                s["attrs"] = values("signal")
    for e in ecus:
        if rng.random() < 0.3:
            net["ecu_comments"][e] = gen_text(rng, o.get("multiline", True) and o.get("multiline_ecu", True))
    if rng.random() < 0.3:
        net["value_tables"]["Tab0"] = {"0": "Off", "1": "On", "3": "two words"}
    for f in frames:
        f.setdefault("attrs", {})
        for s in f["signals"]:
            s.setdefault("attrs", {})
        if len(f["signals"]) >= 2 and rng.random() < 0.3:
            f["group"] = ["Grp_" + f["name"], rng.choice([1, 2]), [s["name"] for s in rng.sample(f["signals"], 2)]]
    return net


def dec_norm(x):
    if x is None:
        return None
    t = D(x).normalize(decimal.Context(prec=60)).as_tuple()
    return [int(t.sign) if int("".join(map(str, t.digits))) != 0 else 0, "".join(map(str, t.digits)), int(t.exponent)]


def expected_frame(f):
    """normal form a reader must produce for the described frame"""
    muxer = next((s["name"] for s in f["signals"] if s["mux"] == "M" and "muxval" not in s), None)
    f = dict(f, signals=[dict(s, muxer_for=s.get("muxer_for") or (muxer if isinstance(s["mux"], int) else None)) for s in f["signals"]])
    return {"id": f["id"], "ext": f["ext"], "name": f["name"], "size": f["size"], "transmitters": list(f["tx"]), "comment": f["comment"] or "",
            "cycle": f.get("cycle") or 0, "attrs": dict(f.get("attrs", {})), "group": f.get("group"),
            "signals": [{"name": s["name"], "attrs": dict(s.get("attrs", {})), "start": internal_start(s), "size": s["size"], "little": s["little"], "signed": s["signed"],
                         "float": s["float"], "factor": dec_norm(s["factor"]), "offset": dec_norm(s["offset"]),
                         "min": dec_norm(s["min"]), "max": dec_norm(s["max"]), "unit": s["unit"], "receivers": sorted(s["receivers"]),
                         "mux": ("Multiplexor" if s["mux"] == "M" else s["mux"]), "values": dict(s["values"]), "comment": s["comment"] or "",
                         "muxval": s.get("muxval", s["mux"] if isinstance(s["mux"], int) else None), "grp": [list(x) for x in s.get("grp", [])],
                         "muxer_for": s.get("muxer_for")}
                        for s in f["signals"]]}


def got_frame(fr):
    """the same normal form from a canmatrix Frame"""
    return {"id": int(fr.arbitration_id.id), "ext": bool(fr.arbitration_id.extended), "name": fr.name, "size": int(fr.size),
            "transmitters": list(fr.transmitters), "comment": fr.comment or "",
            "cycle": int(fr.cycle_time), "attrs": {k: str(v) for k, v in fr.attributes.items() if not k.startswith("Gen")},
            "group": ([fr.signalGroups[0].name, int(fr.signalGroups[0].id), [x.name for x in fr.signalGroups[0].signals]] if fr.signalGroups else None),
            "signals": [{"name": s.name, "attrs": {k: str(v) for k, v in s.attributes.items() if not k.startswith("Gen")}, "start": int(s.start_bit), "size": int(s.size), "little": bool(s.is_little_endian), "signed": bool(s.is_signed),
                         "float": bool(s.is_float), "factor": dec_norm(s.factor), "offset": dec_norm(s.offset), "min": dec_norm(s.min), "max": dec_norm(s.max),
                         "unit": s.unit or "", "receivers": sorted(s.receivers), "mux": ("Multiplexor" if s.is_multiplexer else s.mux_val),
                         "values": {str(k): v for k, v in sorted(s.values.items(), key=lambda kv: int(kv[0]))}, "comment": s.comment or "",
                         "muxval": s.mux_val, "grp": [list(map(int, x)) for x in s.mux_val_grp], "muxer_for": s.muxer_for_signal}
                        for s in fr.signals]}
