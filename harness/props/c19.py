"""C19 - one-way exports (Scapy, Wireshark, FIBEX, CSV, Canard) describe the same layout."""
import contextlib
import csv as pycsv
import io
import json
import re
import decimal

import lxml.etree
import canmatrix.canmatrix as cm
import canmatrix.formats
from lib import frames as F

PID = "C19"
RULE = ("case 'rec' = (frame of 1..64 bytes with standard or extended id, 1..4 in-frame signals Intel/Motorola at any placement, "
        "signed/unsigned/float, optional simple multiplexing; one of its signals; a probe payload). The matrix is written by the "
        "Scapy, Wireshark, FIBEX, CSV (three Motorola notations) and Canard-JSON writers; independent mini-parsers (regular "
        "expressions on the .py/.lua text, lxml on FIBEX, csv, json) extract the recorded numbers. case 'frame' = the frame-level "
        "records (identifier, format, length) and the recorded scaling (Scapy scaling/offset, Canard factor/offset, FIBEX "
        "COMPU-RATIONAL-COEFFS, the CSV factor column; factors and offsets with up to 12 significant digits). In 40 % of the cases the "
        "matrix holds a second frame with signals of the same names at the same start bits (one bit wide, factor 7, value tables) and "
        "30 % of the matrices define the launch attributes GenMsgSendType / GenMsgDelayTime (the frame has a value for none, one or both); the matrix was exported once before with the signals of the frame somewhere else. Frames longer than 8 bytes are flagged as CAN FD. signals of the frame under test carry value tables. Non-trivial = distinct case with a signal wider than one bit.")
PARTIAL = ["the target tools are not installed: their reading conventions are the trusted Spec/Exports.lean",
           "FIBEX dynamic/static segment positions of multiplexed PDUs are not compared; compared are SIGNAL-INSTANCE and SWITCH "
           "position/byte order, CODING bit length and base data type (signedness), frame length and identifier",
           "recorded factor/offset are compared numerically in the harness, not through the Lean model"]
ASSUMPTIONS = ["frames are not extended-multiplexed; identifier numbers unique across standard/extended (CSV keys rows by the number)"]
TRUSTED = ["lxml, csv, json, re used by the mini-parsers"]
CORRESPONDENCE = "records written by formats/scapy, wireshark, fibex, csv, json(canard) == Model/Exports.lean"

_cache = {}


class NamedBytes(io.BytesIO):
    name = "x.xml"


def build(fd, arbid, ext):
    db = cm.CanMatrix()
    fr = F.mkframe(fd, name="Fr", arbid=arbid, extended=ext)
    for s, d in zip(fr.signals, fd["sigs"]):
        if len(d) > 10:
            s.factor = decimal.Decimal(d[10])
            s.offset = decimal.Decimal(d[11])
        if len(d) > 12:
            for k, v in d[12]:
                s.add_values(k, v)
    fr.add_transmitter("E1")
    if fd["size"] > 8:
        fr.is_fd = True          # (a CAN FD frame; its declared length need not be one of the DLC steps)
    if fd.get("decoy"):
        # another frame of the matrix with signals of the same names at the same start bits, but one bit wide and scaled by 7:
        # what is recorded for a frame is that frame's business
        if fd["decoy"] == "otherfmt":
            # the other frame has the other identifier format (and another number: CSV keys its rows by the number)
            dext = not ext
            did = (arbid + 1) if dext else ((arbid % 0x7FE) + 1 if (arbid % 0x7FE) + 1 != arbid else 1)
        else:
            dext = ext
            did = arbid - 1 if (fd["decoy"] == "below" and arbid > 1) else arbid + 1 if arbid + 1 < (1 << (29 if ext else 11)) else arbid - 1
        dec = F.mkframe({"size": fd["size"], "sigs": [F.sigdesc(d[0], d[1], 1, d[3]) for d in fd["sigs"] if not d[6]]}, name="Decoy",
                        arbid=did, extended=dext)
        for s in dec.signals:
            s.factor = decimal.Decimal(7)
            s.add_values(0, "a")
            s.add_values(1, "b")
        db.add_frame(dec)
    db.add_frame(fr)
    db.add_ecu(cm.Ecu("E1"))
    if fd.get("launch"):
        # the matrix defines the launch type / launch parameter attributes; the frame has a value for neither, one or both
        db.add_frame_defines("GenMsgSendType", 'ENUM "cyclic","spontaneous"')
        db.add_frame_defines("GenMsgDelayTime", "INT 0 1000")
        if fd["launch"] in ("type", "both"):
            fr.add_attribute("GenMsgSendType", "cyclic")
        if fd["launch"] == "both":
            fr.add_attribute("GenMsgDelayTime", "10")
    return db


def export(db, fmt, **opts):
    b = NamedBytes()
    with contextlib.redirect_stdout(io.StringIO()):
        canmatrix.formats.dump(db, b, fmt, **opts)
    return b.getvalue()


def records(fd, arbid, ext):
    key = json.dumps([fd, arbid, ext], sort_keys=True)
    if key in _cache:
        return _cache[key]
    db = build(fd, arbid, ext)
    # the matrix was exported before, with the signals of the frame somewhere else; they were moved into place by assignment
    # afterwards (an export describes the matrix as it is now)
    fr0 = db.frame_by_name("Fr")
    if fr0 is not None:
        with F.edited_in_place(fr0):
            for fmt0, o0 in (("scapy", {}), ("wireshark", {}), ("fibex", {}), ("csv", {}), ("json", {"jsonExportCanard": True})):
                try:
                    export(db, fmt0, **o0)
                except Exception:  # noqa
                    pass
    out = {"sig": {}, "frame": {}}
    names = [d[0] for d in fd["sigs"]]
    for n in names:
        out["sig"][n] = {}
    # scapy
    txt = export(db, "scapy").decode()
    cls = txt[txt.find("class Fr(SignalPacket)"):]
    cls = cls[:cls.find("\n\n")] if "\n\n" in cls else cls
    for m in re.finditer(r'SignalField\("(\w+)", default=0, start=(\d+), size=(\d+), scaling=([^,]+), offset=([^,]+), unit="([^"]*)", fmt="(..)"\)', cls):
        out["sig"][m.group(1)]["scapy"] = [int(m.group(2)), int(m.group(3)), m.group(7)]
        out["sig"][m.group(1)]["scapy_scale"] = [m.group(4), m.group(5)]
    m = re.search(r"bind_layers\(SignalHeader, Fr, identifier  = (0x[0-9a-f]+)(, flags = \"extended\")?\)", txt)
    out["frame"]["scapy"] = [int(m.group(1), 16), m.group(2) is not None] if m else None
    # wireshark
    txt = export(db, "wireshark").decode()
    b0 = txt.find("local my_frame_tree = framesubtree:add(Fr,")
    b0 = txt.rfind("if can_id ==", 0, b0) if b0 >= 0 else -1
    txt = txt[b0:txt.find("\n  end\n", b0)] if b0 >= 0 else ""
    m = re.search(r"if can_id == (\d+) then", txt)
    out["frame"]["ws"] = [int(m.group(1))] if m else None
    for n in names:
        m2 = re.search(r"is_signed =  (\w+):bitfield\((\d+),1\)\n\s+if is_signed == 1 then\n\s+my_frame_tree:add\(Fr_%s, (\w+):bitfield\((\d+),(\d+)\) - (\d+)\)" % re.escape(n), txt)
        if m2:
            out["sig"][n]["ws"] = [m2.group(3), int(m2.group(4)), int(m2.group(5)), int(m2.group(6)), m2.group(1), int(m2.group(2))]
            continue
        m3 = re.search(r"my_frame_tree:add\(Fr_%s, (\w+):bitfield\((\d+),(\d+)\)\)" % re.escape(n), txt)
        if m3:
            out["sig"][n]["ws"] = [m3.group(1), int(m3.group(2)), int(m3.group(3)), None, None, None]
            continue
        d = [x for x in fd["sigs"] if x[0] == n][0]
        m4 = re.search(r"local muxer = (\w+):bitfield\((\d+),(\d+)\)", txt)
        if m4 and d[6]:
            # the multiplexer is read into `muxer` (unsigned by construction: it is compared with the selector values)
            sf = (1 << d[2]) if (d[4] and not d[5]) else None
            out["sig"][n]["ws"] = [m4.group(1), int(m4.group(2)), int(m4.group(3)), sf, m4.group(1) if sf else None, int(m4.group(2)) if sf else None]
    # fibex
    root = lxml.etree.fromstring(export(db, "fibex"))
    ns = {"fx": "http://www.asam.net/xml/fbx", "ho": "http://www.asam.net/xml"}
    bitlen = {}
    basetype = {}
    for coding in root.iter("{%s}CODING" % ns["fx"]):
        cid = coding.get("ID")
        bl = coding.find(".//{%s}BIT-LENGTH" % ns["ho"])
        if bl is not None:
            bitlen[cid] = int(bl.text)
        ct = coding.find("{%s}CODED-TYPE" % ns["ho"])
        basetype[cid] = ct.get("{%s}BASE-DATA-TYPE" % ns["ho"]) if ct is not None else None
    compu = {}
    for coding in root.iter("{%s}CODING" % ns["fx"]):
        num = coding.find(".//{%s}COMPU-NUMERATOR" % ns["ho"])
        den = coding.find(".//{%s}COMPU-DENOMINATOR" % ns["ho"])
        if num is not None:
            compu[coding.get("ID")] = [[v.text for v in num], [v.text for v in den] if den is not None else ["1"]]
    sig2coding = {}
    for sg in root.iter("{%s}SIGNAL" % ns["fx"]):
        ref = sg.find("{%s}CODING-REF" % ns["fx"])
        if ref is not None:
            sig2coding[sg.get("ID")] = ref.get("ID-REF")
    for inst in root.iter("{%s}SIGNAL-INSTANCE" % ns["fx"]):
        ref = inst.find("{%s}SIGNAL-REF" % ns["fx"]).get("ID-REF")
        if not ref.startswith("SIG_Fr."):
            continue
        n = ref[len("SIG_Fr."):]
        n = re.sub(r"_\d+$", "", n) if n not in out["sig"] else n
        pos = int(inst.find("{%s}BIT-POSITION" % ns["fx"]).text)
        hl = inst.find("{%s}IS-HIGH-LOW-BYTE-ORDER" % ns["fx"]).text == "true"
        if n in out["sig"]:
            out["sig"][n]["fibex"] = [pos, hl, bitlen.get(sig2coding.get(ref)), basetype.get(sig2coding.get(ref))]
            if sig2coding.get(ref) in compu:
                out["sig"][n]["fibex_scale"] = compu[sig2coding.get(ref)]
    for sw in root.iter("{%s}SWITCH" % ns["fx"]):
        n = sw.find("{%s}SHORT-NAME" % ns["ho"]).text
        if n in out["sig"]:
            cid = "CODING_Fr." + n
            out["sig"][n]["fibex"] = [int(sw.find("{%s}BIT-POSITION" % ns["fx"]).text),
                                      sw.find("{%s}IS-HIGH-LOW-BYTE-ORDER" % ns["fx"]).text == "true",
                                      int(sw.find("{%s}BIT-LENGTH" % ns["ho"]).text), basetype.get(cid)]
    idv = None
    for ft in root.iter("{%s}FRAME-TRIGGERING" % ns["fx"]):
        fref = ft.find("{%s}FRAME-REF" % ns["fx"])
        if fref is not None and fref.get("ID-REF") == "FRAME_Fr":
            idv = ft.find(".//{%s}IDENTIFIER-VALUE" % ns["fx"])
    fl = [f for f in root.iter("{%s}FRAME" % ns["fx"]) if f.get("ID") == "FRAME_Fr"]
    out["frame"]["fibex"] = [int(idv.text) if idv is not None else None,
                             int(fl[0].find("{%s}BYTE-LENGTH" % ns["fx"]).text) if fl else None]
    # csv in three notations
    for n in names:
        out["sig"][n]["csv"] = {}
    for fmt in ("msb", "msbreverse", "lsb"):
        rows = list(pycsv.reader(io.StringIO(export(db, "csv", xlsMotorolaBitFormat=fmt).decode("utf-8"))))
        for r in rows[1:]:
            if r[1] == "Fr" and r[7] in out["sig"]:
                out["sig"][r[7]]["csv"][fmt] = [int(r[5]), int(r[6]), r[12], r[13]]
                out["sig"][r[7]]["csv_len"] = int(r[9])
                out["sig"][r[7]]["csv_factor"] = r[16]
                out["frame"]["csv"] = [r[0].strip()]
    # canard json
    # (the Canard key is the position of the least significant bit whatever the Motorola notation option of the other JSON flavours says)
    for fmt in ("lsb", "msb", "msbreverse"):
        js = json.loads(export(db, "json", jsonExportCanard=True, jsonMotorolaBitFormat=fmt).decode())
        msg = [x for x in js["messages"] if x["name"] == "Fr"][0]
        out["frame"]["canard"] = [msg["id"]]
        for k, v in msg["signals"].items():
            if v["name"] in out["sig"]:
                rec = [int(k), v["bit_length"]]
                if fmt != "lsb" and out["sig"][v["name"]].get("canard") == rec:
                    continue            # same as with the default option; a differing record replaces it and fails the comparison
                out["sig"][v["name"]]["canard"] = rec
                out["sig"][v["name"]]["canard_scale"] = [v["factor"], v["offset"]]
    if len(_cache) > 64:
        _cache.clear()
    _cache[key] = out
    return out


def gen_frame(rng):
    n = rng.choice(F.ALL_LENGTHS)
    sigs = []
    for k in range(rng.randint(1, 4)):
        d = F.rand_sig(rng, "s%d" % k, n, allow_float=True)
        d += [rng.choice(["1", "0.5", "0.125", "2", "10", "0.01", "0.0009765625", "0.123456789012", "1E-7", "1234.5678"]),
              rng.choice(["0", "-40", "1.5", "100", "-1234567.5", "0.000123456789"])]
        sigs.append(d)
    fd = {"size": n, "sigs": sigs}
    if rng.random() < 0.25:
        w = rng.randint(1, min(8, 8 * n))
        mux = F.sigdesc("mx", rng.randint(0, 8 * n - w), w, rng.random() < 0.5, False, False, True) + ["1", "0"]
        for d in sigs:
            if rng.random() < 0.5:
                d[7] = rng.randrange(1 << w)
                d[5] = False
        fd["sigs"] = [mux] + sigs
    # the Canard writer keys signals by their LSB position (a format limitation): keep those distinct
    seen = set()
    keep = []
    for d in fd["sigs"]:
        lsb = F.sig_addrs(d[3], d[1], d[2])[0]
        if lsb not in seen:
            seen.add(lsb)
            keep.append(d)
    fd["sigs"] = keep
    if rng.random() < 0.4:
        fd["decoy"] = rng.choice(["below", "above", "otherfmt"])
    if rng.random() < 0.3:
        fd["launch"] = rng.choice(["none", "type", "both"])
    if rng.random() < 0.4:
        for d in fd["sigs"]:
            if not d[5] and not d[6] and rng.random() < 0.7:
                d.append([[0, "x"], [1, "y"]])
    return fd


def gen(rng, tier, shard, nshards):
    total = {"quick": 2500, "thorough": 40000}[tier] // nshards
    k = 0
    while k < total:
        fd = gen_frame(rng)
        ext = rng.random() < 0.4
        arbid = rng.randrange(1, 1 << 29) if ext else rng.randrange(1, 1 << 11)
        yield {"op": "frame", "c": {"f": fd, "id": arbid, "ext": ext}}
        for j in range(len(fd["sigs"])):
            k += 1
            yield {"op": "rec", "c": {"size": fd["size"], "sig": fd["sigs"][j][:10], "probe": F.rand_payload(rng, fd["size"]),
                                      "f": fd, "id": arbid, "ext": ext, "j": j}}


def neighbours(case, rng, shard, nshards):
    for _ in range(60 // nshards + 1):
        fd = gen_frame(rng)
        for j in range(len(fd["sigs"])):
            yield {"op": "rec", "c": {"size": fd["size"], "sig": fd["sigs"][j][:10], "probe": F.rand_payload(rng, fd["size"]),
                                      "f": fd, "id": 0x123, "ext": False, "j": j}}


def observe(case):
    c = case["c"]
    if case["op"] == "frame":
        fd = c["f"]
        rec = records(fd, c["id"], c["ext"])
        # scaling recorded by scapy / canard equals the matrix's, numerically
        scale_ok = True
        why = []
        for d in fd["sigs"]:
            r = rec["sig"][d[0]]
            for key in ("scapy_scale", "canard_scale"):
                if key in r:
                    scale_ok = scale_ok and decimal.Decimal(str(r[key][0])) == decimal.Decimal(d[10]) and decimal.Decimal(str(r[key][1])) == decimal.Decimal(d[11])
            if "csv_len" in r:
                scale_ok = scale_ok and r["csv_len"] == d[2]
            if "fibex_scale" in r:
                # phys = (offset + factor * raw) / denominator
                nums, dens = r["fibex_scale"]
                try:
                    den = decimal.Decimal(dens[0])
                    ok = len(nums) == 2 and decimal.Decimal(nums[0]) / den == decimal.Decimal(d[11]) and decimal.Decimal(nums[1]) / den == decimal.Decimal(d[10])
                except (decimal.InvalidOperation, ZeroDivisionError):
                    ok = False
                if not ok:
                    scale_ok = False
                    why.append("FIBEX COMPU-RATIONAL-COEFFS of %s record %s / %s, the signal has factor %s and offset %s" % (d[0], nums, dens, d[10], d[11]))
            if "csv_factor" in r:
                # column 'Function / Increment Unit': "<factor>  <unit>" or "<factor> -", or only the unit when the factor is 1
                text = r["csv_factor"].strip()
                first = text.split(" ")[0] if text else ""
                try:
                    rec_factor = decimal.Decimal(first)
                except decimal.InvalidOperation:
                    rec_factor = decimal.Decimal(1)
                if rec_factor != decimal.Decimal(d[10]):
                    scale_ok = False
                    why.append("CSV records the factor %r of %s, the signal has %s" % (text, d[0], d[10]))
        return {"frame": rec["frame"], "scale_ok": scale_ok, "why": why[:3]}
    rec = records(c["f"], c["id"], c["ext"])["sig"][c["sig"][0]]
    return {k: rec.get(k) for k in ("scapy", "fibex", "canard", "csv", "ws")}


def project(impl):
    return {k: v for k, v in impl.items() if k != "why"}


def features(case, impl):
    yield "op=" + case["op"]
    if case["op"] == "rec":
        d = case["c"]["sig"]
        yield "sig:%s%s" % ("intel" if d[3] else "motorola", "/float" if d[5] else "/signed" if d[4] else "/unsigned")
        yield "frame-len=%s" % (case["c"]["size"] if case["c"]["size"] in (1, 8, 64) else "other")
        for k in ("scapy", "fibex", "canard", "csv", "ws"):
            if impl.get(k) is None:
                yield "missing-record:" + k
    else:
        yield "ext" if case["c"]["ext"] else "std"


def nontrivial(case, impl):
    return case["op"] == "rec" and case["c"]["sig"][2] > 1
