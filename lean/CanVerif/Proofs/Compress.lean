import CanVerif.Model.Layout
import CanVerif.Proofs.Layout
/-! helper lemmas for C16: `Frame.compress` on Motorola frames (no overlap, no gap, order, termination) -/
namespace CanVerif

/-- position `j` (0 = most significant bit of byte 0) belongs to the Motorola signal `s` -/
def Occ (s : Sig) (j : Nat) : Prop := s.start ≤ j ∧ j < s.start + s.size

/-- Motorola signals only, own names, at least one bit, inside the frame, pairwise disjoint -/
def CBig (f : Frame) : Prop :=
  (∀ s ∈ f.sigs, s.little = false ∧ 1 ≤ s.size ∧ s.start + s.size ≤ 8 * f.size) ∧ (f.sigs.map (·.name)).Nodup ∧
  (∀ a ∈ f.sigs, ∀ b ∈ f.sigs, a.name ≠ b.name → ∀ j, ¬ (Occ a j ∧ Occ b j))

/-! ## the scan of `compressBigStep` -/

abbrev ScanAcc := Option Nat × Option (String × Nat)

def scanStep (acc : ScanAcc) (p : Nat × List String) : ScanAcc :=
  match acc.2 with
  | some _ => acc
  | none =>
    match p.2 with
    | [] => (match acc.1 with | none => (some p.1, none) | some _ => acc)
    | nm :: _ => (match acc.1 with | some fs => (acc.1, some (nm, fs)) | none => acc)

def scan (lay : List (List String)) : ScanAcc :=
  (List.zip (List.range lay.length) lay).foldl scanStep (none, none)

theorem compressBigStep_eq (f : Frame) :
    compressBigStep f = match (scan f.layout).2 with
      | some (nm, fs) => some { f with sigs := setStartOf f.sigs nm (fun _ => fs) }
      | none => none := rfl

/-- loop invariant of the scan after the cells `0 … k-1` -/
structure SInv (lay : List (List String)) (k : Nat) (acc : ScanAcc) : Prop where
  h0 : acc.1 = none → acc.2 = none ∧ ∀ i, i < k → lay.getD i [] ≠ []
  h1 : ∀ fs, acc.1 = some fs → fs < k ∧ lay.getD fs [] = [] ∧ ∀ i, i < fs → lay.getD i [] ≠ []
  h2n : acc.2 = none → ∀ fs, acc.1 = some fs → ∀ i, fs ≤ i → i < k → lay.getD i [] = []
  h2s : ∀ nm fs, acc.2 = some (nm, fs) → acc.1 = some fs ∧ ∃ p, fs < p ∧ p < k ∧
    (∀ i, fs ≤ i → i < p → lay.getD i [] = []) ∧ ∃ rest, lay.getD p [] = nm :: rest

theorem scanStep_inv (lay : List (List String)) (k : Nat) (acc : ScanAcc) (c : List String)
    (hc : lay.getD k [] = c) (h : SInv lay k acc) : SInv lay (k + 1) (scanStep acc (k, c)) := by
  obtain ⟨h0, h1, h2n, h2s⟩ := h
  rcases acc with ⟨a1, a2⟩
  simp only at h0 h1 h2n h2s
  cases a2 with
  | some q =>
    have e : scanStep (a1, some q) (k, c) = (a1, some q) := rfl
    rw [e]
    refine ⟨?_, ?_, ?_, ?_⟩
    · intro ha; exact absurd (h0 ha).1 (by simp)
    · intro fs ha; obtain ⟨x, y, z⟩ := h1 fs ha; exact ⟨by omega, y, z⟩
    · intro ha; simp at ha
    · intro nm fs hq
      obtain ⟨x, p, hp1, hp2, hp3, hp4⟩ := h2s nm fs hq
      exact ⟨x, p, hp1, by omega, hp3, hp4⟩
  | none =>
    cases a1 with
    | none =>
      rcases c with _ | ⟨x, xs⟩
      · have e : scanStep (none, none) (k, []) = (some k, none) := rfl
        rw [e]
        refine ⟨by simp, ?_, ?_, by simp⟩
        · intro fs ha
          simp only [Option.some.injEq] at ha
          subst ha
          exact ⟨by omega, hc, (h0 rfl).2⟩
        · intro _ fs ha i hi1 hi2
          simp only [Option.some.injEq] at ha
          subst ha
          have : i = k := by omega
          rw [this, hc]
      · have e : scanStep (none, none) (k, x :: xs) = (none, none) := rfl
        rw [e]
        refine ⟨?_, by simp, by simp, by simp⟩
        intro _
        refine ⟨rfl, fun i hi => ?_⟩
        by_cases hik : i < k
        · exact (h0 rfl).2 i hik
        · have : i = k := by omega
          rw [this, hc]; simp
    | some fs =>
      obtain ⟨hf1, hf2, hf3⟩ := h1 fs rfl
      rcases c with _ | ⟨x, xs⟩
      · have e : scanStep (some fs, none) (k, []) = (some fs, none) := rfl
        rw [e]
        refine ⟨by simp, ?_, ?_, by simp⟩
        · intro fs' ha
          simp only [Option.some.injEq] at ha
          subst ha
          exact ⟨by omega, hf2, hf3⟩
        · intro _ fs' ha i hi1 hi2
          simp only [Option.some.injEq] at ha
          subst ha
          by_cases hik : i < k
          · exact h2n rfl _ rfl i hi1 hik
          · have : i = k := by omega
            rw [this, hc]
      · have e : scanStep (some fs, none) (k, x :: xs) = (some fs, some (x, fs)) := rfl
        rw [e]
        refine ⟨by simp, ?_, by simp, ?_⟩
        · intro fs' ha
          simp only [Option.some.injEq] at ha
          subst ha
          exact ⟨by omega, hf2, hf3⟩
        · intro nm fs' hq
          simp only [Option.some.injEq, Prod.mk.injEq] at hq
          obtain ⟨rfl, rfl⟩ := hq
          refine ⟨rfl, k, ?_, by omega, fun i hi1 hi2 => h2n rfl _ rfl i hi1 hi2, xs, hc⟩
          exact hf1

theorem scan_inv (lay : List (List String)) (k : Nat) (hk : k ≤ lay.length) :
    SInv lay k (((List.zip (List.range lay.length) lay).take k).foldl scanStep (none, none)) := by
  induction k with
  | zero => exact ⟨by simp, by simp, by simp, by simp⟩
  | succ k ih =>
    have hlen : k < (List.zip (List.range lay.length) lay).length := by
      rw [List.length_zip, List.length_range]; omega
    rw [List.take_succ_eq_append_getElem hlen, List.foldl_append]
    simp only [List.foldl_cons, List.foldl_nil, List.getElem_zip, List.getElem_range]
    have hkl : k < lay.length := by omega
    exact scanStep_inv lay k _ _ (by simp [List.getD_eq_getElem?_getD, hkl]) (ih (by omega))

theorem scan_final (lay : List (List String)) : SInv lay lay.length (scan lay) := by
  have h := scan_inv lay lay.length (Nat.le_refl _)
  have hl : (List.zip (List.range lay.length) lay).length ≤ lay.length := by simp
  rw [List.take_of_length_le hl] at h
  exact h

/-- the scan found something: `fs` is the first unused position, `p` the first used one after it, `nm` the first name there -/
theorem scan_some (lay : List (List String)) (nm : String) (fs : Nat) (h : (scan lay).2 = some (nm, fs)) :
    ∃ p, fs < p ∧ p < lay.length ∧ (∀ i, i < fs → lay.getD i [] ≠ []) ∧
      (∀ i, fs ≤ i → i < p → lay.getD i [] = []) ∧ ∃ rest, lay.getD p [] = nm :: rest := by
  obtain ⟨_, h1, _, h2s⟩ := scan_final lay
  obtain ⟨ha, p, hp1, hp2, hp3, hp4⟩ := h2s nm fs h
  exact ⟨p, hp1, hp2, (h1 fs ha).2.2, hp3, hp4⟩

/-- the scan found nothing: no used position after an unused one -/
theorem scan_none (lay : List (List String)) (h : (scan lay).2 = none) (i p : Nat) (hip : i < p) (hp : p < lay.length)
    (hi : lay.getD i [] = []) : lay.getD p [] = [] := by
  obtain ⟨h0, h1, h2n, _⟩ := scan_final lay
  cases ha : (scan lay).1 with
  | none => exact absurd hi ((h0 ha).2 i (by omega))
  | some fs =>
    have hfi : fs ≤ i := by
      apply Classical.byContradiction; intro hlt
      exact (h1 fs ha).2.2 i (by omega) hi
    exact h2n h fs ha p (by omega) hp

/-! ## the usage map of a Motorola frame -/

theorem layout_mem_big (f : Frame) (hbig : ∀ s ∈ f.sigs, s.little = false) (j : Nat) (hj : j < 8 * f.size) (x : String) :
    x ∈ f.layout.getD j [] ↔ ∃ s ∈ f.sigs, s.name = x ∧ Occ s j := by
  rw [layout_mem f j hj]
  constructor
  · rintro (⟨s, hs, hl, _⟩ | ⟨s, hs, _, hn, h1, h2⟩)
    · rw [hbig s hs] at hl; cases hl
    · exact ⟨s, hs, hn, h1, h2⟩
  · rintro ⟨s, hs, hn, h1, h2⟩
    exact Or.inr ⟨s, hs, hbig s hs, hn, h1, h2⟩

theorem layout_nil_big (f : Frame) (hbig : ∀ s ∈ f.sigs, s.little = false) (j : Nat) (hj : j < 8 * f.size) :
    f.layout.getD j [] = [] ↔ ∀ s ∈ f.sigs, ¬ Occ s j := by
  rw [List.eq_nil_iff_forall_not_mem]
  constructor
  · intro h s hs ho
    exact h s.name ((layout_mem_big f hbig j hj _).2 ⟨s, hs, rfl, ho⟩)
  · intro h x hx
    obtain ⟨s, hs, _, ho⟩ := (layout_mem_big f hbig j hj x).1 hx
    exact h s hs ho

/-! ## `setStartOf` when names are unique -/

/-- move the signal named `nm` to `v` -/
def mv (nm : String) (v : Nat) (t : Sig) : Sig := if t.name = nm then { t with start := v } else t

theorem mv_name (nm : String) (v : Nat) (t : Sig) : (mv nm v t).name = t.name := by
  unfold mv; split <;> rfl

theorem mv_size (nm : String) (v : Nat) (t : Sig) : (mv nm v t).size = t.size := by
  unfold mv; split <;> rfl

theorem mv_little (nm : String) (v : Nat) (t : Sig) : (mv nm v t).little = t.little := by
  unfold mv; split <;> rfl

theorem mv_start (nm : String) (v : Nat) (t : Sig) : (mv nm v t).start = if t.name = nm then v else t.start := by
  unfold mv; split <;> rfl

theorem map_mv_of_not_mem (nm : String) (v : Nat) (t : List Sig) (h : nm ∉ t.map (·.name)) : t.map (mv nm v) = t := by
  induction t with
  | nil => rfl
  | cons a l ih =>
    simp only [List.map_cons, List.mem_cons, not_or] at h
    rw [List.map_cons, ih h.2]
    have : mv nm v a = a := by
      unfold mv; rw [if_neg (fun e => h.1 e.symm)]
    rw [this]

theorem setStartOf_eq_map (sigs : List Sig) (hnd : (sigs.map (·.name)).Nodup) (nm : String) (v : Nat) :
    setStartOf sigs nm (fun _ => v) = sigs.map (mv nm v) := by
  induction sigs with
  | nil => rfl
  | cons a l ih =>
    simp only [List.map_cons, List.nodup_cons] at hnd
    unfold setStartOf
    by_cases h : a.name = nm
    · have hb : (a.name == nm) = true := by simpa using h
      rw [if_pos hb, List.map_cons, map_mv_of_not_mem nm v l (h ▸ hnd.1)]
      unfold mv; rw [if_pos h]
    · have hb : ¬ (a.name == nm) = true := by simpa using h
      rw [if_neg hb, List.map_cons, ih hnd.2]
      unfold mv; rw [if_neg h]

def startSum (sigs : List Sig) : Nat := (sigs.map (·.start)).sum

theorem startSum_map_mv (sigs : List Sig) (hnd : (sigs.map (·.name)).Nodup) (s : Sig) (hs : s ∈ sigs) (v : Nat) :
    startSum (sigs.map (mv s.name v)) + s.start = startSum sigs + v := by
  induction sigs with
  | nil => simp at hs
  | cons a l ih =>
    simp only [List.map_cons, List.nodup_cons] at hnd
    rcases List.mem_cons.1 hs with rfl | hs'
    · rw [List.map_cons, map_mv_of_not_mem _ v l hnd.1]
      simp only [startSum, List.map_cons, List.sum_cons, mv_start, if_true]
      omega
    · have hne : a.name ≠ s.name := by
        intro e
        exact hnd.1 (e ▸ List.mem_map.2 ⟨s, hs', rfl⟩)
      have := ih hnd.2 hs'
      simp only [startSum, List.map_cons, List.sum_cons, mv_start, if_neg hne] at this ⊢
      omega

theorem startSum_le (sigs : List Sig) (N : Nat) (h : ∀ s ∈ sigs, s.start ≤ N) : startSum sigs ≤ N * sigs.length := by
  induction sigs with
  | nil => simp [startSum]
  | cons a l ih =>
    have h1 := h a (by simp)
    have h2 := ih (fun s hs => h s (by simp [hs]))
    simp only [startSum, List.map_cons, List.sum_cons, List.length_cons, Nat.mul_succ] at h2 ⊢
    omega

/-! ## one round -/

/-- what one successful round does: the signal `s` starting at the first used position after the first
unused position `fs` is moved down to `fs` -/
theorem step_facts (f f' : Frame) (hf : CBig f) (h : compressBigStep f = some f') :
    ∃ s fs, s ∈ f.sigs ∧ fs < s.start ∧ (∀ i, i < fs → ∃ t ∈ f.sigs, Occ t i) ∧
      (∀ i, fs ≤ i → i < s.start → ∀ t ∈ f.sigs, ¬ Occ t i) ∧
      f' = { f with sigs := f.sigs.map (mv s.name fs) } := by
  obtain ⟨hin, hnd, hov⟩ := hf
  have hbig : ∀ s ∈ f.sigs, s.little = false := fun s hs => (hin s hs).1
  rw [compressBigStep_eq] at h
  split at h
  · rename_i nm fs hsc
    obtain ⟨p, hp1, hp2, hp3, hp4, rest, hp5⟩ := scan_some _ nm fs hsc
    rw [layout_length'] at hp2
    have hmem : nm ∈ f.layout.getD p [] := by rw [hp5]; simp
    obtain ⟨s, hs, hn, ho1, ho2⟩ := (layout_mem_big f hbig p hp2 nm).1 hmem
    have hfree : ∀ i, fs ≤ i → i < p → ∀ t ∈ f.sigs, ¬ Occ t i := fun i h1 h2 =>
      (layout_nil_big f hbig i (by omega)).1 (hp4 i h1 h2)
    have hstart : s.start = p := by
      apply Classical.byContradiction; intro hne
      have hlt : s.start < p := by omega
      by_cases hc : fs ≤ s.start
      · exact hfree s.start hc hlt s hs ⟨Nat.le_refl _, by omega⟩
      · exact hfree fs (Nat.le_refl _) hp1 s hs ⟨by omega, by omega⟩
    subst hstart
    subst hn
    refine ⟨s, fs, hs, hp1, ?_, hfree, ?_⟩
    · intro i hi
      have hne := hp3 i hi
      obtain ⟨x, xs, hx⟩ := List.exists_cons_of_ne_nil hne
      have hxm : x ∈ f.layout.getD i [] := by rw [hx]; simp
      obtain ⟨t, ht, _, hto⟩ := (layout_mem_big f hbig i (by omega) x).1 hxm
      exact ⟨t, ht, hto⟩
    · simp only [Option.some.injEq] at h
      rw [← h, setStartOf_eq_map _ hnd]
  · cases h

/-- relative order of `f`'s signals is kept in `g` -/
def OrdKept (f g : Frame) : Prop :=
  ∀ a ∈ f.sigs, ∀ b ∈ f.sigs, a.start < b.start →
    ∀ a' ∈ g.sigs, ∀ b' ∈ g.sigs, a'.name = a.name → b'.name = b.name → a'.start < b'.start

theorem OrdKept.refl (f : Frame) (hnd : (f.sigs.map (·.name)).Nodup) : OrdKept f f := by
  intro a ha b hb hab a' ha' b' hb' hna hnb
  rw [eq_of_name_eq hnd ha' ha hna, eq_of_name_eq hnd hb' hb hnb]
  exact hab

theorem OrdKept.trans {f m g : Frame} (h1 : OrdKept f m) (h2 : OrdKept m g)
    (hn : m.sigs.map (·.name) = f.sigs.map (·.name)) : OrdKept f g := by
  intro a ha b hb hab a' ha' b' hb' hna hnb
  have hma : a.name ∈ m.sigs.map (·.name) := by rw [hn]; exact List.mem_map.2 ⟨a, ha, rfl⟩
  have hmb : b.name ∈ m.sigs.map (·.name) := by rw [hn]; exact List.mem_map.2 ⟨b, hb, rfl⟩
  obtain ⟨a2, ha2, hna2⟩ := List.mem_map.1 hma
  obtain ⟨b2, hb2, hnb2⟩ := List.mem_map.1 hmb
  have := h1 a ha b hb hab a2 ha2 b2 hb2 hna2 hnb2
  exact h2 a2 ha2 b2 hb2 this a' ha' b' hb' (hna.trans hna2.symm) (hnb.trans hnb2.symm)

theorem map_name_map_mv (sigs : List Sig) (nm : String) (v : Nat) :
    (sigs.map (mv nm v)).map (·.name) = sigs.map (·.name) := by
  rw [List.map_map]
  apply List.map_congr_left
  intro t _
  exact mv_name nm v t

/-- a successful round keeps the frame compressible, keeps names and order, and lowers the sum of the start positions -/
theorem step_keeps (f f' : Frame) (hf : CBig f) (h : compressBigStep f = some f') :
    CBig f' ∧ f'.sigs.map (·.name) = f.sigs.map (·.name) ∧ f'.size = f.size ∧ OrdKept f f' ∧
      startSum f'.sigs < startSum f.sigs := by
  obtain ⟨s, fs, hs, hlt, _, hfree, rfl⟩ := step_facts f f' hf h
  obtain ⟨hin, hnd, hov⟩ := hf
  have hsin := hin s hs
  -- where a moved signal can be
  have hocc : ∀ t ∈ f.sigs, ∀ j, Occ (mv s.name fs t) j → Occ t j ∨ (t.name = s.name ∧ fs ≤ j ∧ j < s.start) := by
    intro t ht j ho
    unfold Occ at ho
    rw [mv_start, mv_size] at ho
    by_cases hn : t.name = s.name
    · have hts := eq_of_name_eq hnd ht hs hn
      subst hts
      rw [if_pos rfl] at ho
      by_cases hj : j < t.start
      · exact Or.inr ⟨rfl, ho.1, hj⟩
      · exact Or.inl ⟨by omega, by omega⟩
    · rw [if_neg hn] at ho
      exact Or.inl ho
  refine ⟨⟨?_, ?_, ?_⟩, map_name_map_mv _ _ _, rfl, ?_, ?_⟩
  · intro x hx
    obtain ⟨t, ht, rfl⟩ := List.mem_map.1 hx
    have htin := hin t ht
    rw [mv_little, mv_size, mv_start]
    refine ⟨htin.1, htin.2.1, ?_⟩
    split
    · rename_i hn
      have hts := eq_of_name_eq hnd ht hs hn
      subst hts
      show fs + t.size ≤ 8 * f.size
      omega
    · exact htin.2.2
  · show ((f.sigs.map (mv s.name fs)).map (·.name)).Nodup
    rw [map_name_map_mv]; exact hnd
  · intro a' ha' b' hb' hne j ⟨hoa, hob⟩
    obtain ⟨a, ha, rfl⟩ := List.mem_map.1 ha'
    obtain ⟨b, hb, rfl⟩ := List.mem_map.1 hb'
    rw [mv_name, mv_name] at hne
    rcases hocc a ha j hoa with h1 | ⟨h1, h2, h3⟩
    · rcases hocc b hb j hob with h4 | ⟨_, h5, h6⟩
      · exact hov a ha b hb hne j ⟨h1, h4⟩
      · exact hfree j h5 h6 a ha h1
    · rcases hocc b hb j hob with h4 | ⟨h4, _, _⟩
      · exact hfree j h2 h3 b hb h4
      · exact hne (h1.trans h4.symm)
  · intro a ha b hb hab a' ha' b' hb' hna hnb
    obtain ⟨a0, ha0, rfl⟩ := List.mem_map.1 ha'
    obtain ⟨b0, hb0, rfl⟩ := List.mem_map.1 hb'
    rw [mv_name] at hna hnb
    have := eq_of_name_eq hnd ha0 ha hna
    subst this
    have := eq_of_name_eq hnd hb0 hb hnb
    subst this
    rw [mv_start, mv_start]
    by_cases h1 : a0.name = s.name <;> by_cases h2 : b0.name = s.name
    · have e1 := eq_of_name_eq hnd ha0 hs h1
      have e2 := eq_of_name_eq hnd hb0 hs h2
      subst e1; subst e2; omega
    · have e1 := eq_of_name_eq hnd ha0 hs h1
      subst e1
      rw [if_pos rfl, if_neg h2]; omega
    · have e2 := eq_of_name_eq hnd hb0 hs h2
      subst e2
      rw [if_neg h1, if_pos rfl]
      apply Classical.byContradiction; intro hc
      exact hfree a0.start (by omega) hab a0 ha0 ⟨Nat.le_refl _, by have := (hin a0 ha0).2.1; omega⟩
    · rw [if_neg h1, if_neg h2]; exact hab
  · have := startSum_map_mv f.sigs hnd s hs fs
    show startSum (f.sigs.map (mv s.name fs)) < startSum f.sigs
    omega

/-- when no round is possible any more, every position below a signal is used -/
theorem none_no_gap (g : Frame) (hg : CBig g) (h : compressBigStep g = none) :
    ∀ s ∈ g.sigs, ∀ j, j < s.start → ∃ t ∈ g.sigs, Occ t j := by
  obtain ⟨hin, hnd, hov⟩ := hg
  have hbig : ∀ s ∈ g.sigs, s.little = false := fun s hs => (hin s hs).1
  intro s hs j hj
  have hsin := hin s hs
  apply Classical.byContradiction; intro hno
  have hnil : g.layout.getD j [] = [] :=
    (layout_nil_big g hbig j (by omega)).2 (fun t ht ho => hno ⟨t, ht, ho⟩)
  have hsc : (scan g.layout).2 = none := by
    rw [compressBigStep_eq] at h
    split at h
    · cases h
    · rename_i hx
      exact hx
  have := scan_none g.layout hsc j s.start hj (by rw [layout_length']; omega) hnil
  exact (layout_nil_big g hbig s.start (by omega)).1 this s hs ⟨Nat.le_refl _, by omega⟩

/-! ## the loop -/

theorem iter_big (fuel : Nat) (f g : Frame) (hf : CBig f) (h : iterStep compressBigStep fuel f = .ok g) :
    CBig g ∧ compressBigStep g = none ∧ g.sigs.map (·.name) = f.sigs.map (·.name) ∧ OrdKept f g := by
  induction fuel generalizing f with
  | zero => simp [iterStep] at h
  | succ k ih =>
    unfold iterStep at h
    split at h
    · rename_i hstep
      cases h
      exact ⟨hf, hstep, rfl, OrdKept.refl _ hf.2.1⟩
    · rename_i f' hstep
      obtain ⟨hc, hn, _, ho, _⟩ := step_keeps f f' hf hstep
      obtain ⟨h1, h2, h3, h4⟩ := ih f' hc h
      exact ⟨h1, h2, h3.trans hn, OrdKept.trans ho h4 hn⟩

theorem iter_big_terminates (fuel : Nat) (f : Frame) (hf : CBig f) (hfuel : startSum f.sigs < fuel) :
    ∃ g, iterStep compressBigStep fuel f = .ok g := by
  induction fuel generalizing f with
  | zero => omega
  | succ k ih =>
    unfold iterStep
    cases hstep : compressBigStep f with
    | none => exact ⟨f, rfl⟩
    | some f' =>
      obtain ⟨hc, _, _, _, hlt⟩ := step_keeps f f' hf hstep
      exact ih f' hc (by omega)

theorem compress_big_eq (f : Frame) (hf : CBig f) :
    f.compress = iterStep compressBigStep (8 * f.size * (f.sigs.length + 1) + 1) f := by
  have : f.sigs.any (·.little) = false := by
    rw [List.any_eq_false]
    intro s hs
    simp [(hf.1 s hs).1]
  unfold Frame.compress
  simp [this]

theorem compress_big_spec (f g : Frame) (hf : CBig f) (h : f.compress = .ok g) :
    CBig g ∧ compressBigStep g = none ∧ g.sigs.map (·.name) = f.sigs.map (·.name) ∧ OrdKept f g := by
  rw [compress_big_eq f hf] at h
  exact iter_big _ f g hf h

theorem compress_big_ok (f : Frame) (hf : CBig f) : ∃ g, f.compress = .ok g := by
  rw [compress_big_eq f hf]
  apply iter_big_terminates _ f hf
  have h := startSum_le f.sigs (8 * f.size) (fun s hs => by have := hf.1 s hs; omega)
  rw [Nat.mul_succ]
  omega

end CanVerif
