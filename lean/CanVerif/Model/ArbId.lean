import CanVerif.Model.Codec
/-!
# Model of `ArbitrationId` (canmatrix.py ~630-786) and of the identifier based frame resolution
`CanMatrix.frame_by_id` (scan part), `frame_by_pgn`, `CanMatrix.decode` dispatch (~2416).

Python ints are unbounded; identifiers that pass the constructor are natural numbers, so the
masks/shifts are modelled on `Nat` (`&&&`, `|||`, `<<<`, `>>>`), exactly as written in the source.
-/
namespace CanVerif

structure ArbId where
  id : Nat
  ext : Bool
  deriving Repr, DecidableEq, Inhabited

namespace ArbId

def standardMask : Nat := (1 <<< 11) - 1
def extendedMask : Nat := (1 <<< 29) - 1
def compoundExtendedMask : Nat := 1 <<< 31

/-- constructor + `__attrs_post_init__`: `if self.id != self.id & mask: raise ArbitrationIdOutOfRange`.
A negative Python int never equals its masked value, so it is rejected as well. -/
def make (id : Int) (ext : Bool) : Except Err ArbId :=
  if id < 0 then .error .idOutOfRange
  else
    let n := id.toNat
    let mask := if ext then extendedMask else standardMask
    if n != (n &&& mask) then .error .idOutOfRange else .ok { id := n, ext := ext }

/-- `from_compound_integer` -/
def fromCompound (i : Nat) : Except Err ArbId :=
  make ((i &&& extendedMask : Nat) : Int) ((i &&& compoundExtendedMask) != 0)

/-- `to_compound_integer` -/
def toCompound (a : ArbId) : Nat := if a.ext then a.id ||| compoundExtendedMask else a.id

def j1939Source (a : ArbId) : Except Err Nat := if !a.ext then .error .needsExtended else .ok (a.id &&& 0xFF)
def j1939Ps (a : ArbId) : Except Err Nat := if !a.ext then .error .needsExtended else .ok ((a.id >>> 8) &&& 0xFF)
def j1939Pf (a : ArbId) : Except Err Nat := if !a.ext then .error .needsExtended else .ok ((a.id >>> 16) &&& 0xFF)
def j1939Dp (a : ArbId) : Except Err Nat := if !a.ext then .error .needsExtended else .ok ((a.id >>> 24) &&& 0x1)
def j1939Edp (a : ArbId) : Except Err Nat := if !a.ext then .error .needsExtended else .ok ((a.id >>> 25) &&& 0x1)
def j1939Priority (a : ArbId) : Except Err Nat := if !a.ext then .error .needsExtended else .ok ((a.id >>> 26) &&& 0x7)

/-- the raw field extractions (total versions, used once `ext` is known) -/
def sa (id : Nat) : Nat := id &&& 0xFF
def ps (id : Nat) : Nat := (id >>> 8) &&& 0xFF
def pf (id : Nat) : Nat := (id >>> 16) &&& 0xFF
def dp (id : Nat) : Nat := (id >>> 24) &&& 0x1
def edp (id : Nat) : Nat := (id >>> 25) &&& 0x1
def prio (id : Nat) : Nat := (id >>> 26) &&& 0x7

/-- `j1939_pdu_format` -/
def pduFormat (id : Nat) : Nat := if pf id < 240 then 1 else 2

/-- the `pgn` property body for an extended id -/
def pgnOfId (id : Nat) : Nat :=
  (if pduFormat id == 2 then ps id else 0) + (pf id <<< 8) + (dp id <<< 16) + (edp id <<< 17)

def pgn (a : ArbId) : Except Err Nat := if !a.ext then .error .needsExtended else .ok (pgnOfId a.id)

/-- `j1939_destination` -/
def j1939Destination (a : ArbId) : Except Err (Option Nat) :=
  if !a.ext then .error .needsExtended
  else .ok (if pduFormat a.id == 1 then some (ps a.id) else none)

/-- `pgn.setter` -/
def setPgn (a : ArbId) (value : Nat) : ArbId :=
  let p := value &&& 0x3FFFF
  let id1 := a.id &&& 0xfc0000ff
  { id := id1 ||| ((p <<< 8) &&& 0x3FFFF00), ext := true }

/-- `j1939_source.setter` -/
def setSource (a : ArbId) (value : Nat) : ArbId :=
  { id := (a.id &&& 0xffffff00) ||| (value &&& 0xff), ext := true }

/-- `j1939_priority.setter` -/
def setPriority (a : ArbId) (value : Nat) : ArbId :=
  { id := (a.id &&& 0x3ffffff) ||| ((value &&& 0x7) <<< 26), ext := true }

/-- `from_pgn` -/
def fromPgn (p : Nat) : Except Err ArbId := make ((p <<< 8 : Nat) : Int) true

/-- `ArbitrationId.__eq__` for boolean `extended` flags -/
def eqv (a b : ArbId) : Bool := a.id == b.id && a.ext == b.ext

end ArbId

/-- what identifier based resolution needs to know about a frame -/
structure FrameKey where
  name : String
  aid : ArbId
  isJ1939 : Bool := false
  deriving Repr, DecidableEq, Inhabited

/-- scan part of `frame_by_id` -/
def frameById (frames : List FrameKey) (k : ArbId) : Option FrameKey := frames.find? (fun f => f.aid.eqv k)

/-- `frame_by_pgn` (after fix 5bbd16d: 11-bit frames are skipped) -/
def frameByPgn (frames : List FrameKey) (p : Nat) : Except Err (Option FrameKey) :=
  match ArbId.fromPgn p with
  | .error e => .error e
  | .ok q => .ok (frames.find? (fun f => f.aid.ext && ArbId.pgnOfId f.aid.id == ArbId.pgnOfId q.id))

/-- which frame `CanMatrix.decode(frame_id, data)` decodes with; `.ok none` = returns `{}`;
`keyError` stands for the AttributeError of `None.decode` in a matrix without J1939 frames -/
def resolveForDecode (frames : List FrameKey) (k : ArbId) : Except Err (Option FrameKey) :=
  if !(frames.any (·.isJ1939)) then
    match frameById frames k with
    | some f => .ok (some f)
    | none => .error .keyError
  else if k.ext then
    match frameById frames k with
    | some f => .ok (some f)
    | none => frameByPgn frames (ArbId.pgnOfId k.id)
  else .ok none

end CanVerif
