import Driver.J
import CanVerif.Model.Dec
import CanVerif.Spec.Scaling
open Lean CanVerif

namespace D04

/-- decimal as [neg, coeff, exp] (coeff as a decimal string to be safe with huge numbers) -/
def decOf (j : Json) : Except String Dec := do
  let neg ← J.bool (← J.idx j 0)
  let cs ← J.str (← J.idx j 1)
  let e ← J.int (← J.idx j 2)
  match cs.toNat? with
  | some c => pure ⟨neg, c, e⟩
  | none => throw s!"bad coefficient {cs}"

def decJ (d : Dec) : Json := J.ofList [Json.bool d.neg, Json.str (toString d.coeff), J.ofInt d.exp]

def exOf (d : Dec) : Spec.Ex := ⟨if d.neg then -(d.coeff : Int) else d.coeff, d.exp⟩

def sigOf (j : Json) : Except String ScaleSig := do
  let size ← J.nat (← J.key j "size")
  let signed ← J.bool (← J.key j "signed")
  let factor ← decOf (← J.key j "factor")
  let offset ← decOf (← J.key j "offset")
  let values ← (← J.arr (J.keyD j "values" (Json.arr #[]))).mapM fun kv => do
    pure ((← J.int (← J.idx kv 0)), (← J.str (← J.idx kv 1)))
  pure { size, signed, factor := normFactor factor, offset, values }

def handle (op : String) (c i : Json) : Except String (Json × String) := do
  match op with
  | "dec" =>
    -- primitive: c = [which, a, b]; impl = decimal triple (or int for round)
    let which ← J.str (← J.idx c 0)
    let a ← decOf (← J.idx c 1)
    if which == "round" then
      pure (J.ofInt a.roundInt, "ok")
    else
      let b ← decOf (← J.idx c 2)
      let r := match which with
        | "add" => Dec.add a b
        | "sub" => Dec.sub a b
        | "mul" => Dec.mul a b
        | _ => Dec.div a b
      pure (decJ r, "ok")
  | "scale" =>
    -- c = {"sig":…, "raw": r}; impl = {"phys": dec, "back": int, "named": str|dec, "min": dec, "max": dec, "range":[lo,hi]}
    let s ← sigOf (← J.key c "sig")
    let raw ← J.int (← J.key c "raw")
    let phys := s.raw2phys raw
    let named := match s.namedValue raw with
      | .inl l => Json.str l
      | .inr d => decJ d
    let m := J.obj [("phys", decJ phys), ("back", J.ofInt (s.phys2raw phys)), ("named", named),
                    ("min", decJ s.calcMin), ("max", decJ s.calcMax),
                    ("range", J.ofList [J.ofInt s.rawRange.1, J.ofInt s.rawRange.2])]
    -- spec on the implementation
    let f := exOf s.factor
    let o := exOf s.offset
    let iphys ← decOf (← J.key i "phys")
    let iback ← J.int (← J.key i "back")
    let inamed ← J.key i "named"
    let imin ← decOf (← J.key i "min")
    let imax ← decOf (← J.key i "max")
    let irange ← J.intList (← J.key i "range")
    let (lo, hi) := Spec.rawRange s.size s.signed
    let dom := Spec.inDomain raw f o
    let s1 := if dom && !Spec.Ex.eqv (exOf iphys) (Spec.physOf raw f o) then "fail: physical value is not exactly raw x factor + offset"
      else if dom && iback != raw then "fail: converting the physical value back does not give the raw value"
      else if irange != [lo, hi] then "fail: raw range wrong"
      else if Spec.inDomain lo f o && !Spec.Ex.eqv (exOf imin) (Spec.physOf lo f o) then "fail: default minimum is not the physical image of the raw minimum"
      else if Spec.inDomain hi f o && !Spec.Ex.eqv (exOf imax) (Spec.physOf hi f o) then "fail: default maximum is not the physical image of the raw maximum"
      else
        match s.values.find? (·.1 == raw), inamed with
        | some kv, .str l => if l == kv.2 then "ok" else "fail: named value is not the label of the raw value"
        | some _, _ => "fail: raw value has a label but named decoding returned a number"
        | none, .str _ => "fail: named decoding returned a label for a raw value without one"
        | none, j => match decOf j with
          | .ok d => if !dom || Spec.Ex.eqv (exOf d) (Spec.physOf raw f o) then "ok" else "fail: named value of an unlabelled raw value is not the scaled number"
          | .error _ => "fail: unexpected named value"
    pure (m, s1)
  | "label" =>
    -- c = {"sig":…, "label": l}; impl = int | null
    let s ← sigOf (← J.key c "sig")
    let l ← J.str (← J.key c "label")
    let r := s.labelToRaw l
    let ir ← J.optInt i
    let ok := match ir with
      | some k => s.values.any fun kv => kv.1 == k && kv.2 == l
      | none => !(s.values.any fun kv => kv.2 == l)
    pure (J.ofOptInt r, if ok then "ok" else "fail: label does not convert to a raw key carrying that label")
  | _ => throw s!"C04: unknown op {op}"

end D04
