#!/usr/bin/env python3
"""cmp_skeleton.py <skeleton.lean> <delivered.lean>: every non-`sorry` line of the skeleton must occur in the delivered file, in order
(`:= by` may have become `:=`). Prints the first line that does not."""
import sys
sk = [l.rstrip() for l in open(sys.argv[1]) if l.strip() and l.strip() != "sorry"]
dl = [l.rstrip() for l in open(sys.argv[2])]
pos = 0
bad = 0
for l in sk:
    alts = {l, l[:-3] if l.endswith(":= by") else l, l.replace(":= by", ":=")}
    found = None
    for k in range(pos, len(dl)):
        if dl[k] in alts or dl[k].rstrip(" by") in alts:
            found = k
            break
    if found is None:
        if l.startswith("import ") or l.startswith("open "):
            continue
        print("MISSING/CHANGED:", l)
        bad += 1
    else:
        pos = found + 1
print("statements unchanged" if not bad else "%d lines differ" % bad)
sys.exit(1 if bad else 0)
