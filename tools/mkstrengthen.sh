#!/bin/bash
# tools/mkstrengthen.sh <Cxx> "<missed ids>" : write /root/strengthen/Cxx.txt from tools/strengthen_prompt.txt
mkdir -p /root/strengthen
pid="$1"; pidl=$(echo "$pid" | tr 'C' 'c')
python3 - "$pid" "$pidl" "$2" <<'PY'
import sys
pid,pidl,missed=sys.argv[1:4]
import os,re
ms=sorted([d.split('-')[1] for d in os.listdir('/verif/seeded') if d.startswith(pid+'-m')], key=lambda x:int(x[1:]))
new=' '.join(sorted({x.split('-')[1] for x in re.findall(r'C\d+-m\d+', missed)}, key=lambda x:int(x[1:])))
t=open('/verif/tools/strengthen_prompt.txt').read().format(pid=pid,pidl=pidl,missed=missed,new=new,allm=' '.join(ms))
open('/root/strengthen/%s.txt'%pid,'w').write(t)
PY
