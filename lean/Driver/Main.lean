import Driver.J
import Driver.C08
import Driver.C01
import Driver.C02
import Driver.C03
import Driver.C04
import Driver.C06
import Driver.C09
import Driver.C10
import Driver.C11
import Driver.C12
import Driver.C13
import Driver.C14
import Driver.C16
import Driver.C17
import Driver.C19
import Driver.C20
import Driver.C05
import Driver.C18
import Driver.C15
open Lean

def dispatch (p op : String) (c i : Json) : Except String (Json × String) :=
  match p with
  | "C08" => D08.handle op c i
  | "C01" => D01.handle op c i
  | "C02" => D02.handle op c i
  | "C03" => D03.handle op c i
  | "C04" => D04.handle op c i
  | "C06" => D06.handle op c i
  | "C07" => D06.handle op c i
  | "C09" => D09.handle op c i
  | "C10" => D10.handle op c i
  | "C11" => D11.handle op c i
  | "C12" => D12.handle op c i
  | "C13" => D13.handle op c i
  | "C14" => D14.handle op c i
  | "C16" => D16.handle op c i
  | "C17" => D17.handle op c i
  | "C19" => D19.handle op c i
  | "C20" => D20.handle op c i
  | "C05" => D05.handle op c i
  | "C18" => D18.handle op c i
  | "C15" => D15.handle op c i
  | _ => throw s!"unknown property {p}"

def handleLine (line : String) : String :=
  let r : Except String (Json × String) := do
    let j ← Json.parse line
    let p ← J.str (← J.key j "p")
    let op ← J.str (← J.key j "op")
    let c ← J.key j "c"
    let i := J.keyD j "i" .null
    dispatch p op c i
  match r with
  | .ok (m, s) => (J.obj [("m", m), ("s", Json.str s)]).compress
  | .error e => (J.obj [("err", Json.str e)]).compress

partial def loop (hin hout : IO.FS.Stream) : IO Unit := do
  let line ← hin.getLine
  if line.isEmpty then return ()
  let t := line.trimAscii.toString
  if t.isEmpty then loop hin hout else
  hout.putStrLn (handleLine t)
  loop hin hout

def main : IO Unit := do
  let hin ← IO.getStdin
  let hout ← IO.getStdout
  loop hin hout
  hout.flush
