import CanVerif.Model.DbcText
import CanVerif.Spec.DbcRT
import CanVerif.Proofs.DbcText
import CanVerif.Proofs.DbcVal
import CanVerif.Props.C20
import CanVerif.Model.DbcStart
import CanVerif.Props.C04
/-!
# C05 - DBC round trip is lossless and its output is a fixed point: the frame section

For every list of frames with their signals inside the envelope (`wfBlock`: identifier-style names, a unit
without quote, at least one receiver written), the lines the writer emits (`writeFrames`) are read back by the
line reader (`readFrames`, the dispatcher of Model/DbcLines.lean instantiated with the `BO_`/`SG_` statement
parsers) as the same frames and signals - names, multiplex tags, positions, widths, byte order, sign, unit,
receivers identical, numbers with the same value (`reread`) -, no line is rejected, and writing what was read
gives the same lines again.  Statement level: `SG_`, `BO_`, `VAL_` (with escaped quotes), multiplex tags.
The same holds when malformed lines are scattered through the file (C20's theorem instantiated).
-/
namespace CanVerif.C05
open CanVerif CanVerif.Dbc

/-! ## numbers -/

/-- a rendered number is read as the decimal itself, or - when the rendering ended in `.0` - as the same value
without that zero -/
theorem reread_cases (d : Dec) :
    reread d = d ∨ (d.exp = -1 ∧ d.coeff % 10 = 0 ∧ reread d = ⟨d.neg, d.coeff / 10, 0⟩) := by
  exact reread_cases' d

/-- the number that was read has the same value -/
theorem reread_value (d : Dec) : SpecRT.decEq (reread d) d = true := by
  exact decEq_reread d

/-- rendering the number that was read gives the same text (the second export prints the same digits) -/
theorem reread_render (d : Dec) : formatFloat (reread d) = formatFloat d := by
  exact formatFloat_reread d

/-! ## statements -/

theorem tag_roundtrip (mv : Option Nat) (m : Bool) : fieldsOf (tagOf mv m) = (mv, m, mv.isSome && m) := by
  cases mv <;> cases m <;> rfl

/-- an `SG_` line is read as the signal it was rendered from -/
theorem sg_line_roundtrip (s : SgLine) (h : wfSg s = true) :
    parseSg (stripWs (renderSg s)) = some (rereadSg s) := by
  exact parseSg_renderSg s h

/-- ... which is the same signal in the sense of the specification -/
theorem sg_line_same (s : SgLine) (h : wfSg s = true) :
    ∃ q, parseSg (stripWs (renderSg s)) = some q ∧ SpecRT.sgSame q s = true := by
  exact ⟨rereadSg s, parseSg_renderSg s h, sgSame_rereadSg s⟩

theorem bo_line_roundtrip (b : BoLine) (h : wfBo b = true) : parseBo (stripWs (renderBo b)) = some b := by
  exact parseBo_renderBo b h

/-- rendering what was read gives the same line -/
theorem sg_line_fixed_point (s : SgLine) : renderSg (rereadSg s) = renderSg s := by
  exact renderSg_rereadSg s

theorem unescape_escape (t : Str) (h : wfText t = true) : unescapeQuotes (escapeQuotes t) = t := by
  exact Dbc.ValProofs.unescape_escape' t h

/-- a `VAL_` line (value texts may contain quotes) is read as the table it was rendered from -/
theorem val_line_roundtrip (v : ValLine) (h : wfVal v = true) (hne : v.entries ≠ []) : parseVal (stripWs (renderVal v)) = some v := by
  exact Dbc.ValProofs.val_line_roundtrip_of_ne v h hne

/-- the excluded case: a `VAL_` statement without entries (the writer never emits one) is not read back -/
theorem val_empty_not_read : parseVal (stripWs (renderVal ⟨5, "abc".toList, []⟩)) = none :=
  Dbc.ValProofs.val_empty_not_read

/-! ## the frame section of a file -/

/-- reading the written frame section gives the frames and signals back -/
theorem frames_roundtrip (bs : List Block) (h : bs.all wfBlock = true) :
    readFrames (writeFrames bs) = bs.map rereadBlock := by
  have := loadLines_frames [] bs (by simpa using h)
  simpa [readFrames] using this

theorem frames_same (bs : List Block) (h : bs.all wfBlock = true) :
    SpecRT.blocksSame (readFrames (writeFrames bs)) bs = true := by
  rw [frames_roundtrip bs h]
  exact blocksSame_reread bs

/-- the second export of the frame section is identical to the first -/
theorem frames_fixed_point (bs : List Block) (h : bs.all wfBlock = true) :
    writeFrames (readFrames (writeFrames bs)) = writeFrames bs := by
  rw [frames_roundtrip bs h]
  exact writeFrames_reread bs

/-- no line of the written frame section is rejected: every line is empty or a known statement whose pattern matches -/
theorem no_line_errors (bs : List Block) (h : bs.all wfBlock = true) :
    ∀ l ∈ writeFrames bs, stripWs l = [] ∨
      (classify l ≠ .unknown ∧ framesReader.matchesPattern (classify l) l = true) := by
  exact line_ok bs (by simpa using h)

/-- malformed lines anywhere in the file do not change what is read (C20 instantiated with this reader) -/
theorem frames_roundtrip_with_bad_lines (bs : List Block) (h : bs.all wfBlock = true) (isBad : Str → Bool)
    (hbad : ∀ b, isBad b = true → C20.BadLine framesReader b) (lines : List Str)
    (hl : lines.filter (fun l => !isBad l) = writeFrames bs) :
    readFrames lines = bs.map rereadBlock := by
  unfold readFrames
  rw [C20.bad_lines_ignored framesReader isBad hbad [] lines, hl]
  exact frames_roundtrip bs h

/-! ## the start-value carrier (`GenSigStartValue`): initial values survive the round trip

(Model/DbcStart.lean: what the writer emits and what the reader assumes, after fixes f45ef57 and ca8ce77; the scaling
arithmetic and its exactness conditions are those of C04.) -/


/-- the exactness conditions of C04 (28 significant digits suffice for the products and sums involved) -/
def ExactAt (s : ScaleSig) (r : Int) : Prop :=
  s.factor.coeff ≠ 0 ∧ nd (r.natAbs * s.factor.coeff) ≤ PREC ∧
  nd (Spec.physOf r (C04.exOf s.factor) (C04.exOf s.offset)).m.natAbs ≤ PREC ∧ nd s.offset.coeff ≤ PREC ∧
  nd (Spec.Ex.add (Spec.physOf r (C04.exOf s.factor) (C04.exOf s.offset)) (Spec.Ex.neg (C04.exOf s.offset))).m.natAbs ≤ PREC

theorem start_value_roundtrip (g : StartSig) (dflt : Option Dec) (r : Int)
    (hinit : g.initial = g.s.raw2phys r)
    (hin : Dec.le g.min g.initial = true ∧ Dec.le g.initial g.max = true)
    (hex : ExactAt g.s r) :
    g.readStart (g.writeStart dflt) dflt = g.initial := by
  obtain ⟨hf, h1, h2, h3, h4⟩ := hex
  have hraw : g.startRaw = r := by
    unfold StartSig.startRaw StartSig.physDefault
    simp only [hin.1, hin.2, Bool.and_self, if_true]
    rw [hinit]
    exact C04.phys2raw_raw2phys g.s r hf h1 h2 h3 h4
  unfold StartSig.writeStart StartSig.readStart
  simp only [hraw]
  by_cases hc : (r != g.assumed dflt || (dflt.isNone && r != 0)) = true
  · simp only [hc, if_true, Option.getD_some]; exact hinit.symm
  · simp only [hc, Bool.false_eq_true, if_false, Option.getD_none]
    have : r = g.assumed dflt := by
      have h' : (r != g.assumed dflt) = false := by
        cases hb : (r != g.assumed dflt) <;> simp_all
      simpa using h'
    rw [← this]; exact hinit.symm
def exDefault : StartSig := { s := { size := 8, signed := true, factor := ⟨false, 1, 0⟩, offset := ⟨false, 0, 0⟩ }, min := ⟨true, 128, 0⟩, max := ⟨false, 127, 0⟩, initial := ⟨false, 5, 0⟩ }
def exRawZero : StartSig := { s := { size := 1, signed := false, factor := ⟨true, 5, -1⟩, offset := ⟨false, 15, -1⟩ }, min := ⟨false, 10, -1⟩, max := ⟨false, 15, -1⟩, initial := ⟨false, 15, -1⟩ }

/-- before fix ca8ce77: with a default on the definition nothing was written and the initial value 5 came back as 0 -/
theorem old_writer_loses_start_value_with_default :
    exDefault.readStart (exDefault.writeStartOld (some zeroDec)) (some zeroDec) = ⟨false, 0, 0⟩ ∧
    exDefault.readStart (exDefault.writeStart (some zeroDec)) (some zeroDec) = ⟨false, 5, 0⟩ := by
  decide +kernel

/-- before fix f45ef57: a raw start value 0 was never written although the reader assumes the raw value of the minimum when
physical 0 is outside the limits: initial value 1.5 came back as 1.0 -/
theorem old_writer_loses_raw_zero :
    exRawZero.readStart (exRawZero.writeStartOld none) none = ⟨false, 10, -1⟩ ∧
    exRawZero.readStart (exRawZero.writeStart none) none = ⟨false, 15, -1⟩ := by
  decide +kernel

/-! ## non-vacuity -/

def exSg0 : SgLine := { (default : SgLine) with name := "sig_1".toList, tag := .val 5, start := 34, size := 1 }
def exSg1 : SgLine := { exSg0 with factor := ⟨true, 5, -1⟩, offset := ⟨false, 15, -1⟩, min := ⟨false, 10, -1⟩, max := ⟨false, 15, -1⟩ }
def exSg : SgLine := { exSg1 with unit := "km/h".toList, receivers := ["Vector__XXX".toList, "AB".toList] }

example : wfSg exSg = true := by decide
example : String.ofList (renderSg exSg) = " SG_ sig_1 m5 : 34|1@0+ (-0.5,1.5) [1|1.5] \"km/h\" Vector__XXX,AB" := by decide
example : reread ⟨false, 10, -1⟩ = ⟨false, 1, 0⟩ := by decide

end CanVerif.C05
