#!/bin/bash
# tools/try_mutant.sh <patch.diff> <Cxx> [tier]   : apply to /repo, run the check, undo
diff="$1"; pid="$2"; tier="${3:-quick}"
git -C /repo apply "$(realpath "$diff")" || { echo "patch does not apply"; exit 3; }
cd /verif && ./check "$pid" "$tier"; rc=$?
git -C /repo checkout -- .
echo "rc=$rc"
