import CanVerif.Model.DbcFile
import CanVerif.Proofs.DbcMatrix
/-!
# C05 (continued) — a statement of a DBC file changes exactly the object it names

For the model of the whole reader (Model/DbcFile.lean, tied to `dbc.load` by the correspondence check): in a matrix whose frames have pairwise
different identifiers a frame number finds the frame whose identifier it denotes (`frames_by_id`: the last frame registered under an
identifier - with unique identifiers the only one), within a frame with pairwise different signal names a name finds its signal, and the
statement that names them - read from its written text, comments also over several lines - changes that frame / that signal in exactly
one field; every other frame and signal is what it was (`modFrame_get`, `modSig_get`).  These are the steps of which the file-level
fold of Props/C05f consists; that the fold over all statements `dump` emits gives back the whole matrix is decided by the round-trip
observation (S), not by a theorem.
-/
namespace CanVerif.C05g
open CanVerif CanVerif.Dbc CanVerif.Dbc.FileProofs

/-- a frame number finds the frame whose identifier it denotes -/
theorem lookup_by_identifier (m : RMatrix) (hu : KeysUnique m) (i : Nat) (f : RFrame) (n : Nat)
    (hget : m.frames[i]? = some f) (hk : keyOfCompound n = some f.key) : frameIdx m n = some i :=
  FileProofs.lookup_by_identifier m hu i f n hget hk

/-- a number that denotes the identifier of no frame finds none -/
theorem lookup_unknown (m : RMatrix) (n : Nat) (k : Nat × Bool) (hk : keyOfCompound n = some k)
    (hno : ∀ f ∈ m.frames, f.key ≠ k) : frameIdx m n = none :=
  FileProofs.lookup_unknown m n k hk hno

/-- a signal name finds its signal -/
theorem lookup_signal (f : RFrame) (hu : NamesUnique f) (j : Nat) (s : RSig) (hget : f.sigs[j]? = some s) :
    sigIdx f s.sg.name = some j :=
  FileProofs.lookup_signal f hu j s hget

/-- changing one frame leaves every other frame what it was -/
theorem other_frames_unchanged (m : RMatrix) (i k : Nat) (g : RFrame → RFrame) (hk : k ≠ i) :
    (m.modFrame i g).frames[k]? = m.frames[k]? := by
  rw [modFrame_get, if_neg hk]

/-- changing one signal leaves every other signal of the frame what it was -/
theorem other_signals_unchanged (f : RFrame) (j k : Nat) (g : RSig → RSig) (hk : k ≠ j) :
    (f.modSig j g).sigs[k]? = f.sigs[k]? := by
  rw [modSig_get, if_neg hk]

/-- the written comment of a signal (one line or several) reaches exactly that signal -/
theorem written_signal_comment (m : RMatrix) (hm : m.pending = none) (hu : KeysUnique m) (i j n : Nat) (f : RFrame) (s : RSig)
    (hf : m.frames[i]? = some f) (hn : NamesUnique f) (hs : f.sigs[j]? = some s) (hk : keyOfCompound n = some f.key)
    (text : Str) (hname : isIdent s.sg.name = true) (htext : wfComment text = true) :
    (cmLines (.sg n s.sg.name) text).foldl stepFile m =
      ({ m with cur := some i }).modFrame i fun f => f.modSig j fun s => { s with comment := some text } :=
  FileProofs.written_signal_comment m hm hu i j n f s hf hn hs hk text hname htext

/-- the written `VAL_` statement reaches exactly that signal -/
theorem written_value_table (m : RMatrix) (hm : m.pending = none) (hu : KeysUnique m) (i j : Nat) (f : RFrame) (s : RSig)
    (hf : m.frames[i]? = some f) (hn : NamesUnique f) (hs : f.sigs[j]? = some s) (v : ValLine) (hk : keyOfCompound v.id = some f.key)
    (hname : v.name = s.sg.name) (hw : (Stmt.val v).wf = true) :
    stepFile m (renderVal v) =
      ({ m with cur := some i }).modFrame i fun f => f.modSig j fun s =>
        { s with values := v.entries.foldl (fun acc (k, t) => assocSet acc k t) s.values } :=
  FileProofs.written_value_table m hm hu i j f s hf hn hs v hk hname hw

/-- the written `BA_ … SG_` statement reaches exactly that signal -/
theorem written_signal_attribute (m : RMatrix) (hm : m.pending = none) (hu : KeysUnique m) (i j n : Nat) (f : RFrame) (s : RSig)
    (hf : m.frames[i]? = some f) (hn : NamesUnique f) (hs : f.sigs[j]? = some s) (hk : keyOfCompound n = some f.key)
    (attr v : Str) (hw : (Stmt.ba ⟨attr, .signal n s.sg.name, v⟩).wf = true) (hnum : numericOk m .signal attr v = true) :
    stepFile m (renderBa ⟨attr, .signal n s.sg.name, v⟩) =
      m.modFrame i fun f => f.modSig j fun s => { s with attrs := assocSet s.attrs attr (stripWs v) } :=
  FileProofs.written_signal_attribute m hm hu i j n f s hf hn hs hk attr v hw hnum

/-- the effects of the statements that name a frame, for a frame number that is found -/
theorem frame_statement_effects (m : RMatrix) (n i : Nat) (h : frameIdx m n = some i) :
    (∀ text, applyItem m (.cm (.bo n) text) = ({ m with cur := some i }).modFrame i fun f => { f with comment := some text }) ∧
    (∀ ecus, applyItem m (.tx ⟨n, ecus⟩) =
      ({ m with cur := some i }).modFrame i fun f => { f with transmitters := addTransmitters f.transmitters ecus }) ∧
    (∀ name gid members, applyItem m (.grp ⟨n, name, gid, members⟩) =
      ({ m with cur := some i }).modFrame i fun f => { f with groups := f.groups ++ [groupOf f ⟨n, name, gid, members⟩] }) :=
  ⟨fun text => effect_cm_bo m n i text h, fun ecus => effect_tx m ⟨n, ecus⟩ i h, fun name gid members => effect_grp m ⟨n, name, gid, members⟩ i h⟩

/-- the written frame section of a file builds, in the matrix under construction, one frame per `BO_` line in the order of the file, each with
the identifier its number denotes, its name, length, first sender and its signals in their order (numbers as they are read back); no
error is printed, nothing else changes -/
theorem frame_section_builds_frames (bs : List Block) (ks : List (Nat × Bool)) (m : RMatrix) (hm : m.pending = none)
    (hw : ∀ b ∈ bs, wfBlock b = true) (hk : bs.map (fun b => boKey b.bo) = ks.map some) :
    ((writeFrames bs).foldl stepFile m).frames = m.frames ++ framesOfBlocks bs ks ∧
    ((writeFrames bs).foldl stepFile m).pending = none ∧
    ((writeFrames bs).foldl stepFile m).ecus = m.ecus ∧ ((writeFrames bs).foldl stepFile m).errors = m.errors :=
  FileProofs.frames_fold bs ks m hm hw hk

/-! ## non-vacuity: two frames with the same number in the two formats are told apart -/
def twoFrames : RMatrix :=
  readFile ["BO_ 291 Std: 8 E1".toList, " SG_ a : 0|8@1+ (1,0) [0|0] \"\" E2".toList, "BO_ 2147483939 Ext: 8 E1".toList,
            " SG_ a : 0|8@1+ (1,0) [0|0] \"\" E2".toList]
example : twoFrames.frames.map (·.key) = [(291, false), (291, true)] := by decide +kernel
example : KeysUnique twoFrames := by unfold KeysUnique; decide +kernel
example : frameIdx twoFrames 291 = some 0 ∧ frameIdx twoFrames 2147483939 = some 1 ∧ frameIdx twoFrames 292 = none := by decide +kernel
example : ((cmLines (.sg 2147483939 "a".toList) "two\nlines".toList).foldl stepFile twoFrames).frames.map
    (fun f => f.sigs.map (·.comment)) = [[none], [some "two\nlines".toList]] := by decide +kernel

end CanVerif.C05g
