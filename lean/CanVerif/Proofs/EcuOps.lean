import CanVerif.Model.EcuOps
/-!
# Helper lemmas about the ECU reference maintenance model (C11)

List-level facts about `addIfAbsent`, `replaceRef`, the double fold of `EFrame.updateReceiver`,
the "rename first occurrence" of `EMat.renameEcu`, and normal forms of `EMat.addEcu`,
`EMat.delOne`, `EMat.updateEcuList`.
-/
namespace CanVerif.EcuOps
open CanVerif

/-! ## addIfAbsent -/

theorem mem_addIfAbsent {l : List String} {x y : String} :
    x ∈ addIfAbsent l y ↔ x ∈ l ∨ x = y := by
  unfold addIfAbsent
  split
  · rename_i h
    have hy : y ∈ l := List.contains_iff_mem.mp h
    constructor
    · intro hx; exact Or.inl hx
    · intro hx
      cases hx with
      | inl hx => exact hx
      | inr hx => exact hx ▸ hy
  · simp

theorem nodup_addIfAbsent {l : List String} {y : String} (h : l.Nodup) : (addIfAbsent l y).Nodup := by
  unfold addIfAbsent
  split
  · exact h
  · rename_i hc
    have hy : y ∉ l := fun hm => hc (List.contains_iff_mem.mpr hm)
    rw [List.nodup_append]
    refine ⟨h, by simp, ?_⟩
    intro a ha b hb
    simp at hb
    subst hb
    intro hab
    exact hy (hab ▸ ha)

theorem prefix_addIfAbsent (l : List String) (y : String) : l <+: addIfAbsent l y := by
  unfold addIfAbsent
  split
  · exact List.prefix_refl l
  · exact List.prefix_append l [y]

theorem mem_foldl_addIfAbsent {ys acc : List String} {x : String} :
    x ∈ ys.foldl addIfAbsent acc ↔ x ∈ acc ∨ x ∈ ys := by
  induction ys generalizing acc with
  | nil => simp
  | cons y ys ih =>
    simp only [List.foldl_cons, ih, mem_addIfAbsent, List.mem_cons]
    constructor
    · rintro ((h | h) | h)
      · exact Or.inl h
      · exact Or.inr (Or.inl h)
      · exact Or.inr (Or.inr h)
    · rintro (h | h | h)
      · exact Or.inl (Or.inl h)
      · exact Or.inl (Or.inr h)
      · exact Or.inr h

theorem nodup_foldl_addIfAbsent {ys acc : List String} (h : acc.Nodup) :
    (ys.foldl addIfAbsent acc).Nodup := by
  induction ys generalizing acc with
  | nil => exact h
  | cons y ys ih => exact ih (nodup_addIfAbsent h)

theorem prefix_foldl_addIfAbsent (ys acc : List String) : acc <+: ys.foldl addIfAbsent acc := by
  induction ys generalizing acc with
  | nil => exact List.prefix_refl acc
  | cons y ys ih => exact (prefix_addIfAbsent acc y).trans (ih _)

/-! ## the double fold of `update_receiver` -/

/-- add all receivers of all signals to `acc` (each only if absent) -/
def recvFold (sigs : List ESig) (acc : List String) : List String :=
  sigs.foldl (fun acc s => s.receivers.foldl addIfAbsent acc) acc

theorem mem_recvFold {sigs : List ESig} {acc : List String} {x : String} :
    x ∈ recvFold sigs acc ↔ x ∈ acc ∨ ∃ s ∈ sigs, x ∈ s.receivers := by
  unfold recvFold
  induction sigs generalizing acc with
  | nil => simp
  | cons s sigs ih =>
    simp only [List.foldl_cons, ih, mem_foldl_addIfAbsent, List.mem_cons]
    constructor
    · rintro ((h | h) | ⟨t, ht, hx⟩)
      · exact Or.inl h
      · exact Or.inr ⟨s, Or.inl rfl, h⟩
      · exact Or.inr ⟨t, Or.inr ht, hx⟩
    · rintro (h | ⟨t, ht | ht, hx⟩)
      · exact Or.inl (Or.inl h)
      · exact Or.inl (Or.inr (ht ▸ hx))
      · exact Or.inr ⟨t, ht, hx⟩

theorem nodup_recvFold {sigs : List ESig} {acc : List String} (h : acc.Nodup) :
    (recvFold sigs acc).Nodup := by
  unfold recvFold
  induction sigs generalizing acc with
  | nil => exact h
  | cons s sigs ih => exact ih (nodup_foldl_addIfAbsent h)

theorem prefix_recvFold (sigs : List ESig) (acc : List String) : acc <+: recvFold sigs acc := by
  unfold recvFold
  induction sigs generalizing acc with
  | nil => exact List.prefix_refl acc
  | cons s sigs ih => exact (prefix_foldl_addIfAbsent s.receivers acc).trans (ih _)

theorem updateReceiver_eq (f : EFrame) :
    f.updateReceiver = { f with receivers := recvFold f.sigs [] } := rfl

theorem mem_updateReceiver {f : EFrame} {x : String} :
    x ∈ f.updateReceiver.receivers ↔ ∃ s ∈ f.sigs, x ∈ s.receivers := by
  rw [updateReceiver_eq]
  simp [mem_recvFold]

theorem nodup_updateReceiver (f : EFrame) : f.updateReceiver.receivers.Nodup := by
  rw [updateReceiver_eq]
  exact nodup_recvFold List.nodup_nil

@[simp] theorem updateReceiver_sigs (f : EFrame) : f.updateReceiver.sigs = f.sigs := rfl
@[simp] theorem updateReceiver_transmitters (f : EFrame) :
    f.updateReceiver.transmitters = f.transmitters := rfl
@[simp] theorem updateReceiver_name (f : EFrame) : f.updateReceiver.name = f.name := rfl

/-! ## replaceRef -/

theorem mem_replaceRef {l : List String} {old new x : String} (hnd : l.Nodup) :
    x ∈ replaceRef l old new ↔ (x = new ∧ old ∈ l) ∨ (x ≠ old ∧ x ∈ l) := by
  unfold replaceRef
  split
  · rename_i h
    have ho : old ∈ l := List.contains_iff_mem.mp h
    rw [mem_addIfAbsent, hnd.mem_erase_iff]
    constructor
    · rintro (h | h)
      · exact Or.inr h
      · exact Or.inl ⟨h, ho⟩
    · rintro (⟨h, _⟩ | h)
      · exact Or.inr h
      · exact Or.inl h
  · rename_i h
    have ho : old ∉ l := fun hm => h (List.contains_iff_mem.mpr hm)
    constructor
    · intro hx
      exact Or.inr ⟨fun e => ho (e ▸ hx), hx⟩
    · rintro (⟨_, h⟩ | ⟨_, h⟩)
      · exact absurd h ho
      · exact h

theorem nodup_replaceRef {l : List String} {old new : String} (hnd : l.Nodup) :
    (replaceRef l old new).Nodup := by
  unfold replaceRef
  split
  · exact nodup_addIfAbsent (hnd.erase old)
  · exact hnd

theorem replaceRef_of_not_mem {l : List String} {old new : String} (h : old ∉ l) :
    replaceRef l old new = l := by
  unfold replaceRef
  have : l.contains old = false := by
    cases hc : l.contains old with
    | false => rfl
    | true => exact absurd (List.contains_iff_mem.mp hc) h
  rw [this]
  simp

/-! ## renaming the first occurrence in the ECU list -/

/-- the new ECU list computed by `renameEcu` -/
def setFirst (l : List String) (old new : String) : List String :=
  match l.idxOf? old with
  | some i => l.set i new
  | none => l

theorem setFirst_nil (old new : String) : setFirst [] old new = [] := by
  simp [setFirst]

theorem setFirst_cons (a : String) (l : List String) (old new : String) :
    setFirst (a :: l) old new = if a = old then new :: l else a :: setFirst l old new := by
  unfold setFirst
  rw [List.idxOf?_cons]
  by_cases h : a = old
  · simp [h]
  · have hb : (a == old) = false := by simp [h]
    simp only [hb, Bool.false_eq_true, if_false, h]
    cases List.idxOf? old l with
    | none => simp
    | some i => simp

theorem length_setFirst (l : List String) (old new : String) :
    (setFirst l old new).length = l.length := by
  induction l with
  | nil => simp [setFirst_nil]
  | cons a l ih =>
    rw [setFirst_cons]
    split <;> simp [ih]

theorem mem_setFirst {l : List String} {old new x : String} (hnd : l.Nodup) (ho : old ∈ l) :
    x ∈ setFirst l old new ↔ x = new ∨ (x ≠ old ∧ x ∈ l) := by
  induction l with
  | nil => cases ho
  | cons a l ih =>
    rw [setFirst_cons]
    have hnd' := List.nodup_cons.mp hnd
    by_cases h : a = old
    · subst h
      simp only [if_true, List.mem_cons]
      constructor
      · rintro (h | h)
        · exact Or.inl h
        · exact Or.inr ⟨fun e => hnd'.1 (e ▸ h), Or.inr h⟩
      · rintro (h | ⟨h1, h2 | h2⟩)
        · exact Or.inl h
        · exact absurd h2 h1
        · exact Or.inr h2
    · have ho' : old ∈ l := by
        cases List.mem_cons.mp ho with
        | inl e => exact absurd e.symm h
        | inr e => exact e
      simp only [h, if_false, List.mem_cons, ih hnd'.2 ho']
      constructor
      · rintro (h1 | h1 | ⟨h1, h2⟩)
        · exact Or.inr ⟨h1 ▸ h, Or.inl h1⟩
        · exact Or.inl h1
        · exact Or.inr ⟨h1, Or.inr h2⟩
      · rintro (h1 | ⟨h1, h2 | h2⟩)
        · exact Or.inr (Or.inl h1)
        · exact Or.inl h2
        · exact Or.inr (Or.inr ⟨h1, h2⟩)

theorem mem_setFirst_imp {l : List String} {old new x : String} (h : x ∈ setFirst l old new) :
    x = new ∨ x ∈ l := by
  induction l with
  | nil => simp [setFirst_nil] at h
  | cons a l ih =>
    rw [setFirst_cons] at h
    split at h
    · simp only [List.mem_cons] at h ⊢
      cases h with
      | inl h => exact Or.inl h
      | inr h => exact Or.inr (Or.inr h)
    · simp only [List.mem_cons] at h ⊢
      cases h with
      | inl h => exact Or.inr (Or.inl h)
      | inr h =>
        cases ih h with
        | inl h => exact Or.inl h
        | inr h => exact Or.inr (Or.inr h)

theorem nodup_setFirst {l : List String} {old new : String} (hnd : l.Nodup) (hn : new ∉ l) :
    (setFirst l old new).Nodup := by
  induction l with
  | nil => simp [setFirst_nil]
  | cons a l ih =>
    rw [setFirst_cons]
    have hnd' := List.nodup_cons.mp hnd
    have hn' : new ≠ a ∧ new ∉ l := by
      constructor
      · intro e; exact hn (e ▸ List.mem_cons_self)
      · intro e; exact hn (List.mem_cons_of_mem _ e)
    split
    · exact List.nodup_cons.mpr ⟨hn'.2, hnd'.2⟩
    · refine List.nodup_cons.mpr ⟨?_, ih hnd'.2 hn'.2⟩
      intro hm
      cases mem_setFirst_imp hm with
      | inl e => exact hn'.1 e.symm
      | inr e => exact hnd'.1 e

/-! ## normal forms of the matrix operations -/

/-- the frame transformation of `renameEcu` -/
def renFrame (old new : String) (f : EFrame) : EFrame :=
  ({ f with transmitters := replaceRef f.transmitters old new,
            sigs := f.sigs.map fun s => { s with receivers := replaceRef s.receivers old new } } : EFrame).updateReceiver

theorem renameEcu_of_not_mem {m : EMat} {old new : String} (h : old ∉ m.ecus) :
    m.renameEcu old new = m := by
  unfold EMat.renameEcu
  have : m.ecus.contains old = false := by
    cases hc : m.ecus.contains old with
    | false => rfl
    | true => exact absurd (List.contains_iff_mem.mp hc) h
  rw [this]
  simp

theorem renameEcu_of_mem {m : EMat} {old new : String} (h : old ∈ m.ecus) :
    m.renameEcu old new =
      { ecus := setFirst m.ecus old new, frames := m.frames.map (renFrame old new), freeSigs := m.freeSigs } := by
  unfold EMat.renameEcu
  have : m.ecus.contains old = true := List.contains_iff_mem.mpr h
  simp only [this, Bool.not_true, Bool.false_eq_true, if_false]
  rfl

/-- the frame transformation of `delOne` -/
def delFrame (n : String) (f : EFrame) : EFrame :=
  ({ f with transmitters := f.transmitters.erase n,
            sigs := f.sigs.map fun s => { s with receivers := s.receivers.erase n } } : EFrame).updateReceiver

theorem delOne_of_not_mem {m : EMat} {n : String} (h : n ∉ m.ecus) : m.delOne n = m := by
  unfold EMat.delOne
  have : m.ecus.contains n = false := by
    cases hc : m.ecus.contains n with
    | false => rfl
    | true => exact absurd (List.contains_iff_mem.mp hc) h
  rw [this]
  simp

theorem delOne_of_mem {m : EMat} {n : String} (h : n ∈ m.ecus) :
    m.delOne n = { ecus := m.ecus.erase n, frames := m.frames.map (delFrame n), freeSigs := m.freeSigs } := by
  unfold EMat.delOne
  have : m.ecus.contains n = true := List.contains_iff_mem.mpr h
  simp only [this, Bool.not_true, Bool.false_eq_true, if_false]
  rfl

theorem delOne_ecus (m : EMat) (n : String) : (m.delOne n).ecus = m.ecus.erase n := by
  by_cases h : n ∈ m.ecus
  · rw [delOne_of_mem h]
  · rw [delOne_of_not_mem h, List.erase_of_not_mem h]

theorem delOne_freeSigs (m : EMat) (n : String) : (m.delOne n).freeSigs = m.freeSigs := by
  by_cases h : n ∈ m.ecus
  · rw [delOne_of_mem h]
  · rw [delOne_of_not_mem h]

theorem foldl_delOne_freeSigs (ns : List String) (m : EMat) :
    (ns.foldl EMat.delOne m).freeSigs = m.freeSigs := by
  induction ns generalizing m with
  | nil => rfl
  | cons n ns ih => rw [List.foldl_cons, ih, delOne_freeSigs]

theorem foldl_delOne_ecus_of_nodup (ns : List String) (m : EMat) (hnd : m.ecus.Nodup) :
    (ns.foldl EMat.delOne m).ecus = m.ecus.filter (fun e => !ns.contains e) := by
  induction ns generalizing m with
  | nil => exact (List.filter_eq_self.mpr (fun _ _ => by simp)).symm
  | cons n ns ih =>
    rw [List.foldl_cons, ih _ (by rw [delOne_ecus]; exact hnd.erase n), delOne_ecus,
      hnd.erase_eq_filter, List.filter_filter]
    apply List.filter_congr
    intro x _
    simp only [List.contains_cons]
    cases ns.contains x <;> cases hx : (x == n) <;> simp [hx, bne]

theorem delEcuGlob_ecus (m : EMat) (p : String) (hnd : m.ecus.Nodup) :
    (m.delEcuGlob p).ecus = m.ecus.filter (fun e => !globMatch p e) := by
  unfold EMat.delEcuGlob
  rw [foldl_delOne_ecus_of_nodup _ _ hnd]
  apply List.filter_congr
  intro x hx
  congr 1
  cases hg : globMatch p x with
  | true => exact List.contains_iff_mem.mpr (List.mem_filter.mpr ⟨hx, hg⟩)
  | false =>
    cases hc : (m.ecus.filter (globMatch p)).contains x with
    | false => rfl
    | true =>
      have := (List.mem_filter.mp (List.contains_iff_mem.mp hc)).2
      rw [hg] at this
      cases this

theorem delEcuGlob_freeSigs (m : EMat) (p : String) : (m.delEcuGlob p).freeSigs = m.freeSigs :=
  foldl_delOne_freeSigs _ m

/-! ## addEcu and updateEcuList -/

theorem addEcu_eq (m : EMat) (n : String) : m.addEcu n = { m with ecus := addIfAbsent m.ecus n } := by
  unfold EMat.addEcu addIfAbsent
  split <;> rfl

theorem foldl_addEcu (l : List String) (m : EMat) :
    l.foldl EMat.addEcu m = { m with ecus := l.foldl addIfAbsent m.ecus } := by
  induction l generalizing m with
  | nil => rfl
  | cons a l ih => rw [List.foldl_cons, ih, addEcu_eq]; rfl

theorem foldl2_addEcu (sigs : List ESig) (m : EMat) :
    sigs.foldl (fun a s => s.receivers.foldl EMat.addEcu a) m = { m with ecus := recvFold sigs m.ecus } := by
  induction sigs generalizing m with
  | nil => rfl
  | cons s sigs ih => rw [List.foldl_cons, ih, foldl_addEcu]; rfl

/-- what one frame adds to the ECU list in `updateEcuList` -/
def ecuStep (e : List String) (f : EFrame) : List String :=
  recvFold f.sigs (f.transmitters.foldl addIfAbsent e)

/-- the loop body of `updateEcuList` -/
def updStep (acc : EMat × List EFrame) (f : EFrame) : EMat × List EFrame :=
  let a1 := f.transmitters.foldl EMat.addEcu acc.1
  let f' := f.updateReceiver
  let a2 := f'.sigs.foldl (fun a s => s.receivers.foldl EMat.addEcu a) a1
  (a2, acc.2 ++ [f'])

theorem updateEcuList_def (m : EMat) :
    m.updateEcuList = { (m.frames.foldl updStep (m, [])).1 with frames := (m.frames.foldl updStep (m, [])).2 } :=
  rfl

theorem updateEcuList_fold (fs : List EFrame) (a : EMat) (out : List EFrame) :
    fs.foldl updStep (a, out) =
    ({ a with ecus := fs.foldl ecuStep a.ecus }, out ++ fs.map EFrame.updateReceiver) := by
  induction fs generalizing a out with
  | nil => simp
  | cons f fs ih =>
    rw [List.foldl_cons]
    have h : updStep (a, out) f =
        ({ a with ecus := ecuStep a.ecus f }, out ++ [f.updateReceiver]) := by
      simp only [updStep, updateReceiver_sigs]
      rw [foldl2_addEcu, foldl_addEcu]
      rfl
    rw [h, ih]
    simp

theorem updateEcuList_eq (m : EMat) :
    m.updateEcuList =
      { ecus := m.frames.foldl ecuStep m.ecus, frames := m.frames.map EFrame.updateReceiver,
        freeSigs := m.freeSigs } := by
  rw [updateEcuList_def, updateEcuList_fold]
  simp

theorem mem_foldl_ecuStep {fs : List EFrame} {e : List String} {x : String} :
    x ∈ fs.foldl ecuStep e ↔
      x ∈ e ∨ ∃ f ∈ fs, x ∈ f.transmitters ∨ ∃ s ∈ f.sigs, x ∈ s.receivers := by
  induction fs generalizing e with
  | nil => simp
  | cons f fs ih =>
    simp only [List.foldl_cons, ih, ecuStep, mem_recvFold, mem_foldl_addIfAbsent, List.mem_cons]
    constructor
    · rintro (((h | h) | h) | ⟨g, hg, hx⟩)
      · exact Or.inl h
      · exact Or.inr ⟨f, Or.inl rfl, Or.inl h⟩
      · exact Or.inr ⟨f, Or.inl rfl, Or.inr h⟩
      · exact Or.inr ⟨g, Or.inr hg, hx⟩
    · rintro (h | ⟨g, hg | hg, hx⟩)
      · exact Or.inl (Or.inl (Or.inl h))
      · subst hg
        cases hx with
        | inl hx => exact Or.inl (Or.inl (Or.inr hx))
        | inr hx => exact Or.inl (Or.inr hx)
      · exact Or.inr ⟨g, hg, hx⟩

theorem nodup_foldl_ecuStep {fs : List EFrame} {e : List String} (h : e.Nodup) :
    (fs.foldl ecuStep e).Nodup := by
  induction fs generalizing e with
  | nil => exact h
  | cons f fs ih => exact ih (nodup_recvFold (nodup_foldl_addIfAbsent h))

theorem prefix_foldl_ecuStep (fs : List EFrame) (e : List String) : e <+: fs.foldl ecuStep e := by
  induction fs generalizing e with
  | nil => exact List.prefix_refl e
  | cons f fs ih =>
    exact ((prefix_foldl_addIfAbsent f.transmitters e).trans (prefix_recvFold f.sigs _)).trans (ih _)

/-! ## deleteObsoleteEcus -/

/-- the list of all referenced names computed by `deleteObsoleteEcus` -/
def usedList (m : EMat) : List String :=
  m.frames.flatMap (·.transmitters) ++ m.frames.flatMap (·.receivers) ++
    m.frames.flatMap (fun f => f.sigs.flatMap (·.receivers)) ++ m.freeSigs.flatMap (·.receivers)

theorem deleteObsoleteEcus_def (m : EMat) :
    m.deleteObsoleteEcus =
      (m.ecus.filter fun e => !(usedList m).contains e).foldl EMat.delEcuGlob m := rfl

theorem foldl_delEcuGlob_ecus (us : List String) (m : EMat) (hnd : m.ecus.Nodup)
    (hplain : ∀ e ∈ us, ∀ n, globMatch e n = (e == n)) :
    (us.foldl EMat.delEcuGlob m).ecus = m.ecus.filter (fun x => !us.contains x) := by
  induction us generalizing m with
  | nil => exact (List.filter_eq_self.mpr (fun _ _ => by simp)).symm
  | cons e us ih =>
    have h1 := delEcuGlob_ecus m e hnd
    have hnd1 : (m.delEcuGlob e).ecus.Nodup := by
      rw [h1]; exact List.Nodup.sublist List.filter_sublist hnd
    rw [List.foldl_cons, ih _ hnd1 (fun e' he' => hplain e' (List.mem_cons_of_mem _ he')), h1,
      List.filter_filter]
    apply List.filter_congr
    intro x _
    rw [hplain e List.mem_cons_self x, List.contains_cons]
    by_cases hx : x = e
    · subst hx; simp
    · have h1 : (x == e) = false := by simp [hx]
      have h2 : (e == x) = false := by simp [Ne.symm hx]
      simp [h1, h2]

end CanVerif.EcuOps
