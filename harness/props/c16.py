"""C16 - layout utilities agree with the codec: usage map, dummies, length, compress."""
import contextlib
import io
import os
import shutil
import signal as pysignal
import tempfile

import canmatrix.canmatrix as cm
import canmatrix.cli.convert
import canmatrix.convert
import canmatrix.formats
from lib import frames as F

PID = "C16"
EXTRA_PROPS = ("C16L",)
RULE = ("ops: layout (frame 1..64 bytes, 0..8 in-frame signals, Intel/Motorola mixed, overlaps allowed) ; dummies (same frames, "
        "non-overlapping and overlapping) ; dlc (declared length 0..64, signals anywhere, strategy max/force) ; fit (every length 0..70 "
        "x FD flag) ; compress (frames whose signals share one byte order and do not overlap, random gaps; mixed frames as a no-op "
        "check). Exhaustive part: every gap pattern of frames <= 2 bytes built from 1..4 Motorola or Intel signals (quick: 1 byte). "
        "For dlc the frame stands in a matrix among 0..3 other frames. "
        "case 'dummies2' = pad, take the first signal out, pad again. "
        "Histories (key 'h'): every op is also asked of ONE Frame object that has a past - 1..5 earlier steps on the same object "
        "(get_frame_layout, create_dummy_signals (kept or taken out again), compress, a detour placement, frame.size = n, calc_dlc, "
        "fit_dlc, recalc_dlc max/force of its matrix, a signal moved/resized/switched/renamed/added/removed in place, the frame renamed, "
        "the same call on another Frame object of the same name); c.f is the frame as it stands when the judged call is made (the "
        "generator's own bookkeeping, independent of canmatrix), and every call of a history is itself a judged case with the steps "
        "before it as its history; dlc with api=calc_dlc asks Frame.calc_dlc directly. "
        "Conversions (key 'via'): dlc and compress are also observed through canmatrix.convert.convert / the canconvert command line "
        "(DBC in, DBC out) with the options compressFrame (names and globs, naming the frame or not) and recalcDLC max/force, alone and "
        "together, the frame among 0..3 others. "
        "Roles: in every stream the signals also play the parts signals play in a frame - one (rarely two) is the multiplexer, others are "
        "multiplexed with a selector value, some frames carry scaling/limits (no business of the layout utilities; the descriptors carry "
        "the roles, the frame is built with them, through DBC they are written as M / m<k>); the exhaustive gap patterns are asked with "
        "every signal in turn as the multiplexer; histories also switch a signal's role in place (step 'role'). "
        "Conversions also carry the options that cut or drop frames by length before compressFrame/recalcDLC act: cutLongFrames=N (the "
        "judged frame longer than N: its signals beyond byte N taken out by the generator's bookkeeping, length forced; not longer than "
        "N while another frame of the matrix is: its length is its own business, judged as strategy max) and skipLongDlc=M (M not below "
        "the judged frame's length); with these the resulting frame's usage report is judged too (op layout). "
        "Non-trivial = distinct case with at least one signal and (for compress/dummies) at least one gap.")
EXHAUSTIVE = {"quick": False, "thorough": False}
PARTIAL = ["compress: the theorems (compress_big_*, compress_little_*) are about frames of one byte order with disjoint, uniquely named "
           "signals inside the frame; termination of the two Python while-loops is the model's fuel bound (proved sufficient) plus a "
           "wall-clock guard on the implementation",
           "PDU-container frames (calc_dlc adds PDU sizes) are not modelled"]
ASSUMPTIONS = ["signals lie inside the frame for layout/dummies/compress", "compress: one byte order, no overlap"]
TRUSTED = ["itertools grouper/chain semantics as modelled by reverseGroups"]
CORRESPONDENCE = "Frame.get_frame_layout/create_dummy_signals/calc_dlc/fit_dlc/compress, CanMatrix.recalc_dlc/set_fd_type == Model/Layout.lean"


def sd5(d):
    return d


def gen_frame(rng, disjoint, maxn=8, order=None, sizes=None):
    n = rng.choice(sizes or F.ALL_LENGTHS)
    if disjoint:
        sigs = F.rand_disjoint_sigs(rng, n, maxn=maxn, allow_float=False)
    else:
        sigs = [F.rand_sig(rng, "s%d" % k, n, allow_float=False) for k in range(rng.randint(0, maxn))]
    if order is not None:
        # re-place with one byte order, keeping disjointness
        used = set()
        out = []
        for d in sigs:
            for _ in range(10):
                c = F.rand_sig(rng, d[0], n, allow_float=False)
                c[3] = order
                a = set(F.sig_addrs(c[3], c[1], c[2]))
                if not (a & used):
                    used |= a
                    out.append(c)
                    break
        sigs = out
    return {"size": n, "sigs": sigs}


def dress(rng, fd, p=0.5, two=True, sc=True):
    """the parts signals play in a frame (multiplexer, multiplexed with a selector value) and their scaling are no business of
    the layout utilities: frames carry them"""
    sigs = fd["sigs"]
    if not sigs or rng.random() >= p:
        return fd
    k = rng.randrange(len(sigs))
    if rng.random() < 0.85:
        sigs[k][6] = True
        if two and len(sigs) > 2 and rng.random() < 0.1:
            sigs[(k + 1) % len(sigs)][6] = True
    for d in sigs:
        if not d[6] and rng.random() < 0.5:
            d[7] = rng.randint(0, 3)
    if sc and rng.random() < 0.2:
        fd["sc"] = True
    return fd


def ref_cut(size, sigs, n):
    """cutLongFrames=n: a frame longer than n bytes loses the signals that reach beyond byte n and gets the smallest length
    holding the rest; any other frame is left alone"""
    if size <= n:
        return size, [list(d) for d in sigs], False
    rest = [list(d) for d in sigs if d[1] + d[2] <= 8 * n]
    return ref_need(rest), rest, True


# ---------------------------------------------------------------------------------------------
# the generator's own bookkeeping of what a history does to a frame (independent of canmatrix): which frame stands
# there when the judged call is made
# ---------------------------------------------------------------------------------------------
FIT_STEPS = [12, 16, 20, 24, 32, 48, 64]


def ref_need(sigs):
    return (max([d[1] + d[2] for d in sigs] or [0]) + 7) // 8


def ref_fit(n):
    if n <= 8:
        return n
    for m in FIT_STEPS:
        if n <= m:
            return m
    return n


def ref_inside(size, sigs):
    return all(d[1] >= 0 and d[1] + d[2] <= 8 * size for d in sigs)


def ref_disjoint(sigs):
    used = set()
    for d in sigs:
        a = set(F.sig_addrs(d[3], d[1], d[2]))
        if a & used:
            return False
        used |= a
    return True


def ref_compressible(size, sigs):
    """the domain of the compress clause: inside the frame, one byte order, no overlap, distinct names"""
    return (ref_inside(size, sigs) and len({d[3] for d in sigs}) <= 1 and ref_disjoint(sigs)
            and len({d[0] for d in sigs}) == len(sigs))


def ref_compress(sigs):
    """same signals, same list order, packed from the first bit on in the order of their positions"""
    out = [list(d) for d in sigs]
    pos = 0
    for k in sorted(range(len(sigs)), key=lambda k: sigs[k][1]):
        out[k][1] = pos
        pos += sigs[k][2]
    return out


def ref_dummies(size, sigs, frname):
    """one Motorola signal per run of payload bits (most significant bit of byte 0 first) that no signal uses"""
    used = [False] * (8 * size)
    for d in sigs:
        for a in F.sig_addrs(d[3], d[1], d[2]):
            k = 8 * (a // 8) + 7 - a % 8
            if 0 <= k < len(used):
                used[k] = True
    out = []
    k = 0
    while k < len(used):
        if used[k]:
            k += 1
            continue
        j = k
        while j < len(used) and not used[j]:
            j += 1
        out.append(F.sigdesc("_Dummy_%s_%d" % (frname, len(out)), k, j - k, False, True))
        k = j
    return out


CALLS = ("layout", "dummies", "dummies-undo", "compress", "detour")


def ref_step(st, step):
    """st = {"size", "sigs", "name"} -> state after the step, or None when the step is outside the domain there"""
    size, sigs, name = st["size"], [list(d) for d in st["sigs"]], st["name"]
    k = step[0]
    if k == "other":
        pass
    elif k == "layout":
        # asked only of frames the report is defined for (signals inside the frame)
        if not ref_inside(size, sigs):
            return None
    elif k == "detour":
        if size < 1 or not ref_inside(size, sigs):
            return None
    elif k == "dummies-undo":
        if not ref_inside(size, sigs):
            return None
    elif k == "dummies":
        if not ref_inside(size, sigs):
            return None
        sigs = sigs + ref_dummies(size, sigs, name)
    elif k == "compress":
        if not ref_compressible(size, sigs):
            return None
        sigs = ref_compress(sigs)
    elif k == "size":
        size = step[1]
    elif k == "calc":
        size = max(size, ref_need(sigs))
    elif k == "fit":
        size = ref_fit(size)
    elif k == "recalc":
        size = ref_need(sigs) if step[1] == "force" else max(size, ref_need(sigs))
    elif k == "move":
        if not step[1] < len(sigs):
            return None
        sigs[step[1]][1:4] = step[2:5]
    elif k == "rename":
        if not step[1] < len(sigs):
            return None
        sigs[step[1]][0] = step[2]
    elif k == "add":
        sigs.append(list(step[1]))
    elif k == "role":
        if not step[1] < len(sigs):
            return None
        sigs[step[1]][6] = step[2] == "Multiplexor"
        sigs[step[1]][7] = step[2] if isinstance(step[2], int) else None
    elif k == "del":
        if not step[1] < len(sigs):
            return None
        del sigs[step[1]]
    elif k == "frname":
        name = step[1]
    else:
        raise ValueError(step)
    return {"size": size, "sigs": sigs, "name": name}


def hist_case(op, h, st, rng=None, extra=None):
    """the judged call `op` on the frame that stands there (st) after the history h; None when op is outside its domain there"""
    fd = {"size": st["size"], "sigs": [list(d) for d in st["sigs"]]}
    hh = {"f0": h["f0"], "name0": h["name0"], "steps": [list(x) for x in h["steps"]], "before": h["before"], "after": h["after"]}
    if op == "fit":
        if st["size"] > 70:
            return None
        return {"op": "fit", "c": [st["size"], h["f0"]["size"] > 8, {"h": hh}]}
    if op in ("layout", "dummies", "dummies2") and not ref_inside(st["size"], st["sigs"]):
        return None
    if op == "compress" and not ref_compressible(st["size"], st["sigs"]):
        return None
    c = {"f": fd, "h": hh}
    if op in ("dummies", "dummies2"):
        c["name"] = st["name"]
    if op == "dlc":
        c.update(extra or {})
        c["before"] = h["before"]
        c["after"] = h["after"]
    return {"op": op, "c": c}


STEP_AS_OP = {"layout": "layout", "dummies": "dummies", "compress": "compress"}


def replay_hist(h, upto=None):
    st = {"size": h["f0"]["size"], "sigs": [list(d) for d in h["f0"]["sigs"]], "name": h["name0"]}
    for step in h["steps"][:upto]:
        st = ref_step(st, step)
        if st is None:
            return None
    return st


def gen_history(rng, final_op=None):
    """a frame with a past: yields the judged cases (every call of the history with the steps before it, then the final op)"""
    kind = rng.random()
    sizes = [1, 2, 3, 4, 8, 8, 8, 9, 12, 16, 24, 64]
    if kind < 0.45:
        f0 = gen_frame(rng, True, maxn=5, order=rng.random() < 0.5, sizes=sizes)
    elif kind < 0.85:
        f0 = gen_frame(rng, True, maxn=5, sizes=sizes)
    else:
        f0 = gen_frame(rng, False, maxn=4, sizes=sizes)
    if rng.random() < 0.35:
        # declared longer than the signals need (a frame with room at its end), or not the length the signals were placed for
        f0["size"] = rng.choice([f0["size"] + rng.randint(1, 4), 8, 12, 64, max(ref_need(f0["sigs"]), 1)])
        f0["size"] = max(min(f0["size"], 64), ref_need(f0["sigs"]))
    dress(rng, f0, p=0.4)

    def other():
        return gen_frame(rng, True, maxn=3, sizes=[1, 2, 8, 12])
    h = {"f0": f0, "name0": rng.choice(["F", "Fr", "Status"]), "steps": [],
         "before": [other() for _ in range(rng.choice([0, 0, 1]))], "after": [other() for _ in range(rng.choice([0, 0, 1]))]}
    st = replay_hist(h)
    nsteps = rng.choice([1, 2, 2, 3, 3, 4, 5])
    fresh = 0

    def pick_step(i):
        r = rng.random()
        if i == 0 and r < 0.7 or r < 0.25:
            return [rng.choice(CALLS + ("layout", "dummies", "compress"))]
        r = rng.random()
        need = ref_need(st["sigs"])
        if r < 0.22:
            lo = need if rng.random() < 0.85 else 0
            return ["size", rng.choice([rng.randint(lo, 64), max(lo, st["size"] - 1), min(64, st["size"] + rng.randint(1, 4)), max(lo, 8)])]
        if r < 0.32:
            return ["calc"]
        if r < 0.42:
            return ["fit"]
        if r < 0.58:
            return ["recalc", rng.choice(["max", "force"])]
        if r < 0.72 and st["sigs"]:
            k = rng.randrange(len(st["sigs"]))
            d = None
            for _ in range(6):
                d = F.rand_sig(rng, "x", max(st["size"], 1) if rng.random() < 0.9 else rng.randint(1, 64), allow_float=False)
                if rng.random() < 0.5:
                    d[3] = st["sigs"][k][3]
                if ref_disjoint([d] + [e for j, e in enumerate(st["sigs"]) if j != k]):
                    break
            return ["move", k, d[1], d[2], d[3]]
        if r < 0.75 and st["sigs"]:
            return ["rename", rng.randrange(len(st["sigs"])), "r%d" % i]
        if r < 0.78 and st["sigs"]:
            # a signal becomes the multiplexer / a multiplexed signal / a plain signal, in place
            return ["role", rng.randrange(len(st["sigs"])), rng.choice(["Multiplexor", "Multiplexor", None, 0, 2])]
        if r < 0.86:
            d = None
            for _ in range(6):
                d = F.rand_sig(rng, "a%d" % i, max(st["size"], 1), allow_float=False)
                if st["sigs"] and rng.random() < 0.6:
                    d[3] = st["sigs"][0][3]
                if ref_disjoint([d] + st["sigs"]):
                    break
            if rng.random() < 0.25:
                d[6] = True
            elif rng.random() < 0.25:
                d[7] = rng.randint(0, 3)
            return ["add", d]
        if r < 0.92 and st["sigs"]:
            return ["del", rng.randrange(len(st["sigs"]))]
        if r < 0.95:
            return ["frname", rng.choice(["G", "Fr", "F"])]
        o = gen_frame(rng, True, maxn=4, sizes=[1, 2, 8, 12, 64])
        if rng.random() < 0.5:
            o = {"size": rng.choice([st["size"], o["size"]]) or 1, "sigs": [list(d) for d in st["sigs"]]}
            o["size"] = max(o["size"], ref_need(o["sigs"]))
        return ["other", o, rng.choice(["layout", "dummies"])]

    for i in range(nsteps):
        for _try in range(5):
            step = pick_step(i)
            nxt = ref_step(st, step)
            if nxt is not None:
                break
        else:
            continue
        # every call of the history is a judged case of its own, asked of the frame with the steps so far as its past
        if h["steps"]:
            op = STEP_AS_OP.get(step[0])
            extra = None
            if step[0] == "recalc":
                op, extra = "dlc", {"strategy": step[1]}
            elif step[0] == "calc":
                op, extra = "dlc", {"strategy": "max", "api": "calc_dlc"}
            elif step[0] == "fit":
                op = "fit"
            if op is not None:
                case = hist_case(op, h, st, extra=extra)
                if case is not None:
                    yield case
        h["steps"].append(step)
        st = nxt
    if not h["steps"]:
        return
    ops = ["layout", "layout", "dummies", "dummies", "dummies2", "compress", "compress", "dlc", "dlc", "fit"]
    if final_op is not None:
        ops = [final_op] * 3 + ops
    if final_op is None:
        rng.shuffle(ops)
    for op in ops:
        extra = None
        if op == "dlc":
            extra = {"strategy": rng.choice(["max", "force"])}
            if extra["strategy"] == "max" and rng.random() < 0.5:
                extra["api"] = "calc_dlc"
        if op in ("layout", "dummies", "dummies2", "compress") and not ref_inside(st["size"], st["sigs"]) and ref_need(st["sigs"]) <= 64:
            # a signal was moved beyond the end: the frame is made long enough first, the way a user would
            fix = rng.choice([["calc"], ["recalc", "max"], ["recalc", "force"], ["size", ref_need(st["sigs"])]])
            h["steps"].append(fix)
            st = ref_step(st, fix)
        case = hist_case(op, h, st, extra=extra)
        if case is not None:
            yield case
            return


def gen_via(rng):
    """dlc / compress asked through canmatrix.convert.convert or the command line: options compressFrame and recalcDLC, and the
    options that act on frames by their length before these (cutLongFrames, skipLongDlc)"""
    # one byte order (the domain of compress) or the orders as they come (a frame compress must leave alone)
    fd = gen_frame(rng, True, maxn=5, order=rng.choice([True, True, False, False, None]), sizes=[1, 2, 3, 4, 8, 8, 8, 12, 16, 64])
    dress(rng, fd, p=0.4, two=False, sc=False)
    need = ref_need(fd["sigs"])
    bylen = rng.random() < 0.35
    compress = None if rng.random() < 0.25 else rng.choice([["F"], ["F"], ["F"], ["*"], ["F*"], ["F", "O1"], ["O*"], ["O1", "F"], ["Fx"], ["?"]])
    if bylen:
        strategy = rng.choice([None, None, "max", "force"])
    else:
        strategy = rng.choice([None, "max", "max", "force"]) if compress else rng.choice(["max", "force"])
    if compress or bylen:
        # the compress clause speaks of signals inside the frame: the declared length contains them, often with room to spare
        fd["size"] = rng.choice([fd["size"], need, 8, min(64, need + rng.randint(0, 6)), 64])
        fd["size"] = max(fd["size"], need, 1)
    else:
        fd["size"] = rng.choice([fd["size"], 0, rng.randint(0, 64), need])

    def other():
        o = gen_frame(rng, True, maxn=3, order=rng.choice([True, False]), sizes=[1, 2, 8, 12] + ([16, 64] if bylen else []))
        if bylen and rng.random() < 0.3:
            o["size"] = min(64, o["size"] + rng.randint(1, 8))
        return o
    before = [other() for _ in range(rng.choice([0, 0, 1, 2] if not bylen else [0, 1, 1, 2]))]
    after = [other() for _ in range(rng.choice([0, 0, 1]))]
    api = "cli" if rng.random() < 0.3 else "convert"
    named = compress is not None and any(p in ("F", "*", "F*", "?") for p in compress)
    via = {"api": api, "compressFrame": compress, "recalcDLC": strategy}
    size, sigs, cut = fd["size"], fd["sigs"], False
    if bylen:
        lens = sorted({o["size"] for o in before + after} | {fd["size"]})
        if rng.random() < 0.8:
            base = rng.choice(lens)
            via["cutLongFrames"] = max(0, base + rng.choice([-1, -1, 0, 0, 1])) if rng.random() < 0.8 else rng.choice([1, 2, 4, 8, 63])
            size, sigs, cut = ref_cut(size, sigs, via["cutLongFrames"])
        else:
            # frames longer than M are dropped; the judged one stays
            via["skipLongDlc"] = rng.choice([fd["size"], fd["size"], fd["size"] + 1, 8, 64] + [x for x in lens if x >= fd["size"]])
            via["skipLongDlc"] = max(via["skipLongDlc"], fd["size"])
        if rng.random() < 0.15 and "cutLongFrames" in via and via["cutLongFrames"] >= fd["size"]:
            via["skipLongDlc"] = rng.choice([fd["size"], 64])
    packed = named and ref_compressible(size, sigs)
    if named and (ref_inside(size, sigs) or not bylen):
        # the frame as it stands when compress is called (after the cut)
        yield {"op": "compress", "c": {"f": dict(fd, size=size, sigs=sigs), "via": dict(via, orig=fd["sigs"], size0=fd["size"]), "before": before, "after": after}}
    now_sigs = ref_compress(sigs) if packed else sigs
    if strategy:
        yield {"op": "dlc", "c": {"f": {"size": size, "sigs": now_sigs}, "strategy": strategy, "before": before, "after": after,
                                  "via": dict(via, orig=fd["sigs"], size0=fd["size"])}}
    elif bylen:
        if cut and not packed:
            # exactly what the cut is to do: the length forced to what the remaining signals need
            c = {"f": {"size": fd["size"], "sigs": now_sigs}, "strategy": "force"}
        else:
            # nobody asked for another length of this frame
            c = {"f": {"size": size, "sigs": now_sigs}, "strategy": "max"}
        yield {"op": "dlc", "c": dict(c, before=before, after=after, via=dict(via, orig=fd["sigs"], size0=fd["size"]))}
    if bylen:
        end = ref_need(now_sigs) if strategy == "force" else max(size, ref_need(now_sigs)) if strategy == "max" else size
        if ref_inside(end, now_sigs):
            yield {"op": "layout", "c": {"f": {"size": end, "sigs": now_sigs}, "before": before, "after": after,
                                         "via": dict(via, orig=fd["sigs"], size0=fd["size"])}}


def gen(rng, tier, shard, nshards):
    total = {"quick": 8000, "thorough": 120000}[tier] // nshards
    for _ in range(total):
        k = rng.random()
        if k < 0.25:
            yield {"op": "layout", "c": {"f": dress(rng, gen_frame(rng, rng.random() < 0.5), p=0.3)}}
        elif k < 0.5:
            yield {"op": "dummies" if rng.random() < 0.7 else "dummies2", "c": {"f": dress(rng, gen_frame(rng, rng.random() < 0.8, sizes=[1, 2, 3, 4, 8, 8, 12, 64]), p=0.3), "name": "Fr"}}
        elif k < 0.7:
            n = rng.randint(1, 64)
            fd = {"size": rng.choice([0, rng.randint(0, 64), n]),
                  "sigs": [F.rand_sig(rng, "s%d" % j, n, allow_float=False) for j in range(rng.randint(0, 6))]}
            dress(rng, fd, p=0.3)
            # the frame stands in a matrix among other frames (each frame's length is its own business)
            def other():
                m = rng.randint(1, 64)
                return {"size": rng.choice([0, rng.randint(0, 64), m]), "sigs": [F.rand_sig(rng, "o%d" % j, m, allow_float=False) for j in range(rng.randint(0, 3))]}
            yield {"op": "dlc", "c": {"f": fd, "strategy": rng.choice(["max", "force"]),
                                      "before": [other() for _ in range(rng.choice([0, 0, 1, 2]))], "after": [other() for _ in range(rng.choice([0, 0, 1]))]}}
        else:
            order = rng.random() < 0.5
            fd = gen_frame(rng, True, maxn=6, order=order, sizes=[1, 2, 3, 4, 8, 8, 8, 12, 16])
            if rng.random() < 0.08 and len(fd["sigs"]) >= 2:
                fd["sigs"][0][3] = not fd["sigs"][0][3]   # mixed byte orders: compress must leave it alone ... or overlap; checked as no-op only if still disjoint
                used = set()
                ok = True
                for d in fd["sigs"]:
                    a = set(F.sig_addrs(d[3], d[1], d[2]))
                    ok = ok and not (a & used)
                    used |= a
                if not ok:
                    continue
            dress(rng, fd, p=0.5)
            yield {"op": "compress", "c": {"f": fd}}
    if shard == 0:
        for n in range(0, 71):
            for fdflag in (False, True):
                yield {"op": "fit", "c": [n, fdflag]}
        # every gap pattern of small frames: choose which bits are covered, cut the covered runs into signals
        nbytes_list = [1] if tier == "quick" else [1, 2]
        for nbytes in nbytes_list:
            nbits = 8 * nbytes
            step = 1 if nbytes == 1 else 37
            for mask in range(0, 1 << nbits, step):
                for little in (False, True):
                    sigs = []
                    j = 0
                    while j < nbits:
                        if (mask >> j) & 1:
                            k = j
                            while k < nbits and (mask >> k) & 1 and k - j < 5:
                                k += 1
                            sigs.append(F.sigdesc("s%d" % len(sigs), j, k - j, little, False))
                            j = k
                        else:
                            j += 1
                    fd = {"size": nbytes, "sigs": sigs}
                    yield {"op": "dummies", "c": {"f": fd, "name": "G"}}
                    if len(sigs) <= 4:
                        yield {"op": "compress", "c": {"f": fd}}
                        yield {"op": "layout", "c": {"f": fd}}
                        # the same pattern with every signal in turn as the multiplexer of the frame
                        for m in range(len(sigs)):
                            md = {"size": nbytes, "sigs": [list(d) for d in sigs]}
                            md["sigs"][m][6] = True
                            yield {"op": "compress", "c": {"f": md}}
    # frames with a past: every op asked of ONE Frame object after earlier calls and edits on the same object
    for _ in range({"quick": 1600, "thorough": 24000}[tier] // nshards):
        for case in gen_history(rng):
            yield case
    # the same questions asked through convert() / canconvert (options compressFrame, recalcDLC, alone and together)
    for _ in range({"quick": 400, "thorough": 4800}[tier] // nshards):
        for case in gen_via(rng):
            yield case


def neighbours(case, rng, shard, nshards):
    c = case["c"]
    if (isinstance(c, dict) and "h" in c) or (isinstance(c, list) and len(c) > 2):
        for _ in range(150 // nshards + 1):
            for nb in gen_history(rng, final_op=case["op"]):
                yield nb
        return
    if isinstance(c, dict) and "via" in c:
        for _ in range(60 // nshards + 1):
            for nb in gen_via(rng):
                yield nb
        return
    for _ in range(150 // nshards + 1):
        if case["op"] == "fit":
            yield {"op": "fit", "c": [rng.randint(0, 70), rng.random() < 0.5]}
        elif case["op"] == "compress":
            yield {"op": "compress", "c": {"f": dress(rng, gen_frame(rng, True, maxn=5, order=rng.random() < 0.5, sizes=[1, 2, 3, 4, 8]))}}
        elif case["op"] == "dlc":
            n = rng.randint(1, 64)
            yield {"op": "dlc", "c": {"f": {"size": rng.randint(0, 64), "sigs": [F.rand_sig(rng, "s%d" % j, n, allow_float=False) for j in range(rng.randint(0, 4))]},
                                     "strategy": case["c"]["strategy"]}}
        else:
            yield {"op": case["op"], "c": dict(case["c"], f=gen_frame(rng, True, sizes=[1, 2, 3, 4, 8]))}


class Timeout(Exception):
    pass


def _alarm(signum, frame):
    raise Timeout()


def sig5(s):
    return [s.name, s.start_bit, s.size, bool(s.is_little_endian), bool(s.is_signed)]


def guarded(fn, seconds=5.0):
    """run fn() under a wall-clock guard (the two while-loops of compress)"""
    old = pysignal.signal(pysignal.SIGALRM, _alarm)
    pysignal.setitimer(pysignal.ITIMER_REAL, seconds)
    try:
        return fn()
    finally:
        pysignal.setitimer(pysignal.ITIMER_REAL, 0)
        pysignal.signal(pysignal.SIGALRM, old)


def do_step(fr, db, step):
    """one step of a frame's past, on the same Frame object"""
    k = step[0]
    if k == "layout":
        fr.get_frame_layout()
    elif k == "detour":
        with F.edited_in_place(fr):
            fr.get_frame_layout()
    elif k == "dummies":
        fr.create_dummy_signals()
    elif k == "dummies-undo":
        n0 = len(fr.signals)
        fr.create_dummy_signals()
        del fr.signals[n0:]
    elif k == "compress":
        fr.compress()
    elif k == "size":
        fr.size = step[1]
    elif k == "calc":
        fr.calc_dlc()
    elif k == "fit":
        fr.fit_dlc()
    elif k == "recalc":
        db.recalc_dlc(step[1])
    elif k == "move":
        sg = fr.signals[step[1]]
        sg.start_bit, sg.size, sg.is_little_endian = step[2], step[3], step[4]
    elif k == "rename":
        fr.signals[step[1]].name = step[2]
    elif k == "add":
        fr.add_signal(F.mksignal(step[1]))
    elif k == "role":
        sg = fr.signals[step[1]]
        sg.multiplex = sg.multiplex_setter(step[2])
    elif k == "del":
        del fr.signals[step[1]]
    elif k == "frname":
        fr.name = step[1]
    elif k == "other":
        # the same question asked of another Frame object of the same name: no business of this one
        o = F.mkframe(step[1], name=fr.name)
        if step[2] == "dummies":
            o.create_dummy_signals()
        else:
            o.get_frame_layout()
    else:
        raise ValueError(step)


def with_past(h):
    """the frame of a history case: built as it was at first, put into its matrix, then led through its past"""
    fr = F.mkframe(h["f0"], name=h["name0"])
    db = cm.CanMatrix()
    k = 0
    for od in h.get("before", []):
        k += 1
        db.add_frame(F.mkframe(od, name="O%d" % k, arbid=0x700 + k))
    db.add_frame(fr)
    for od in h.get("after", []):
        k += 1
        db.add_frame(F.mkframe(od, name="O%d" % k, arbid=0x700 + k))
    for step in h["steps"]:
        do_step(fr, db, step)
    return fr, db


def via_convert(c, orig_sigs=None):
    """the matrix written as DBC, converted with the options of the case (convert() or the command line), read again"""
    via = c["via"]
    if "orig" in via:
        orig_sigs = via["orig"]
    db = cm.CanMatrix()
    k = 0
    for od in c.get("before", []):
        k += 1
        db.add_frame(F.mkframe(od, name="O%d" % k, arbid=0x700 + k))
    db.add_frame(F.mkframe({"size": via.get("size0", c["f"]["size"]), "sigs": orig_sigs}, name="F"))
    for od in c.get("after", []):
        k += 1
        db.add_frame(F.mkframe(od, name="O%d" % k, arbid=0x700 + k))
    d = tempfile.mkdtemp(prefix="c16_")
    try:
        src = os.path.join(d, "in.dbc")
        dst = os.path.join(d, "out.dbc")
        with open(src, "wb") as f:
            canmatrix.formats.dump(db, f, "dbc")
        sink = io.StringIO()
        with contextlib.redirect_stdout(sink), contextlib.redirect_stderr(sink):
            if via["api"] == "cli":
                from click.testing import CliRunner
                args = ["-s"]
                if via.get("compressFrame"):
                    args.append("--compressFrame=" + ",".join(via["compressFrame"]))
                if via.get("recalcDLC"):
                    args.append("--recalcDLC=" + via["recalcDLC"])
                for o in ("cutLongFrames", "skipLongDlc"):
                    if via.get(o) is not None:
                        args.append("--%s=%d" % (o, via[o]))
                res = CliRunner().invoke(canmatrix.cli.convert.cli_convert, args + [src, dst])
                if isinstance(res.exception, Timeout):
                    raise res.exception
                if res.exception is not None and not isinstance(res.exception, SystemExit):
                    raise res.exception
                if res.exit_code != 0:
                    raise RuntimeError("canconvert exit %s" % res.exit_code)
            else:
                opts = {}
                if via.get("compressFrame"):
                    opts["compressFrame"] = ",".join(via["compressFrame"])
                if via.get("recalcDLC"):
                    opts["recalcDLC"] = via["recalcDLC"]
                for o in ("cutLongFrames", "skipLongDlc"):
                    if via.get(o) is not None:
                        opts[o] = str(via[o]) if via["api"] == "convert" and via[o] % 2 else via[o]
                canmatrix.convert.convert(src, dst, **opts)
            with open(dst, "rb") as f:
                db2 = canmatrix.formats.load_flat(f, "dbc")
        return db2.frame_by_name("F")
    finally:
        shutil.rmtree(d, ignore_errors=True)


def observe(case):
    op, c = case["op"], case["c"]
    try:
        return guarded(lambda: observe_(op, c))
    except Timeout:
        return {"err": "diverges"}


def observe_(op, c):
    if op == "fit":
        if len(c) > 2:
            fr, db = with_past(c[2]["h"])
        else:
            fr = cm.Frame("F", arbitration_id=cm.ArbitrationId(1, False), size=c[0], is_fd=c[1])
            db = cm.CanMatrix()
            db.add_frame(fr)
        db.set_fd_type()
        fd = fr.is_fd
        fr.fit_dlc()
        return [fr.size, bool(fd)]
    if "via" in c:
        if op == "compress":
            return {"ok": [sig5(s) for s in via_convert(c, c["f"]["sigs"]).signals]}
        if op == "dlc":
            return via_convert(c, c["via"]["orig"]).size
        if op == "layout":
            return [[s.name for s in cell] for cell in via_convert(c).get_frame_layout()]
        raise ValueError(op)
    db = None
    if "h" in c:
        fr, db = with_past(c["h"])
    else:
        fr = F.mkframe(c["f"], name=c.get("name", "F"))
    if op == "layout":
        return [[s.name for s in cell] for cell in fr.get_frame_layout()]
    if op == "dummies":
        fr.create_dummy_signals()
        return [sig5(s) for s in fr.signals]
    if op == "dummies2":
        fr.create_dummy_signals()
        if fr.signals:
            fr.signals.pop(0)
        mid = [sig5(s) for s in fr.signals]
        fr.create_dummy_signals()
        return {"mid": mid, "after": [sig5(s) for s in fr.signals]}
    if op == "dlc":
        if db is None:
            db = cm.CanMatrix()
            k = 0
            for od in c.get("before", []):
                k += 1
                db.add_frame(F.mkframe(od, name="O%d" % k, arbid=0x700 + k))
            db.add_frame(fr)
            for od in c.get("after", []):
                k += 1
                db.add_frame(F.mkframe(od, name="O%d" % k, arbid=0x700 + k))
        if c.get("api") == "calc_dlc":
            fr.calc_dlc()
        else:
            db.recalc_dlc(c["strategy"])
        return fr.size
    if op == "compress":
        fr.compress()
        return {"ok": [sig5(s) for s in fr.signals]}


def project(impl):
    return impl


def features(case, impl):
    yield "op=" + case["op"]
    c = case["c"]
    h = c[2]["h"] if isinstance(c, list) and len(c) > 2 else c.get("h") if isinstance(c, dict) else None
    if h is not None:
        steps = [x[0] for x in h["steps"]]
        yield "past:%s:steps=%d" % (case["op"], len(steps))
        for x in sorted(set(steps)):
            yield "past:step=" + x
        # a call that looks at the layout, then the length changes while the signals stay, then the judged call
        called = False
        resized = False
        for x in steps:
            if x in CALLS:
                called, resized = True, False
            elif x in ("size", "calc", "fit", "recalc"):
                resized = called
            elif x in ("move", "add", "del"):
                called = resized = False
        yield "past:%s:call-then-only-length-changed=%s" % (case["op"], resized)
    if isinstance(c, dict) and "via" in c:
        v = c["via"]
        yield "via:%s:%s" % (case["op"], v["api"])
        yield "via:%s:compressFrame=%s,recalcDLC=%s" % (case["op"], "no" if not v.get("compressFrame") else "yes", v.get("recalcDLC") or "no")
        if v.get("cutLongFrames") is not None:
            n, own = v["cutLongFrames"], v.get("size0", c["f"]["size"])
            longer = any(o["size"] > n for o in c.get("before", []) + c.get("after", []))
            yield "via:%s:cut:%s" % (case["op"], "this frame" + (" and another" if longer else "") if own > n else "another frame only" if longer else "none")
        if v.get("skipLongDlc") is not None:
            yield "via:%s:skipLongDlc" % case["op"]
        if case["op"] == "dlc":
            yield "via:dlc:declared %s needed" % ("<" if c["f"]["size"] < ref_need(c["f"]["sigs"]) else "=" if c["f"]["size"] == ref_need(c["f"]["sigs"]) else ">")
    if case["op"] == "fit":
        return
    if case["op"] == "dlc" and c.get("api"):
        yield "dlc:api=" + c["api"]
    f = case["c"]["f"]
    yield "%s:nsigs=%s" % (case["op"], len(f["sigs"]) if len(f["sigs"]) < 4 else "4+")
    roles = [d for d in f["sigs"] if len(d) > 7 and (d[6] or d[7] is not None)]
    if roles:
        yield "%s:roles=%s" % (case["op"], "multiplexer" if any(d[6] for d in roles) else "multiplexed only")
    orders = {s[3] for s in f["sigs"]}
    yield "%s:%s" % (case["op"], "mixed" if len(orders) == 2 else "intel" if orders == {True} else "motorola" if orders else "empty")
    if case["op"] == "compress" and "ok" in impl:
        moved = any(a[1] != b[1] for a, b in zip(f["sigs"], impl["ok"]))
        yield "compress:" + ("moved" if moved else "already-packed")
    if case["op"] == "dummies":
        yield "dummies:added=%s" % min(len(impl) - len(f["sigs"]), 3)


def nontrivial(case, impl):
    if case["op"] == "fit":
        return True
    return len(case["c"]["f"]["sigs"]) > 0


def shrink_candidates(case):
    c = case["c"]
    h = c[2]["h"] if isinstance(c, list) and len(c) > 2 else c.get("h") if isinstance(c, dict) else None
    if h is not None:
        # a shorter past (the frame that stands there is recomputed), fewer other frames
        for i in range(len(h["steps"])):
            h2 = dict(h, steps=h["steps"][:i] + h["steps"][i + 1:])
            st = replay_hist(h2)
            if st is None or not h2["steps"]:
                continue
            extra = {k: c[k] for k in ("strategy", "api") if k in c} if isinstance(c, dict) else None
            cand = hist_case(case["op"], h2, st, extra=extra)
            if cand is not None:
                yield cand
        if h["before"] or h["after"]:
            h2 = dict(h, before=[], after=[])
            st = replay_hist(h2)
            extra = {k: c[k] for k in ("strategy", "api") if k in c} if isinstance(c, dict) else None
            cand = hist_case(case["op"], h2, st, extra=extra)
            if cand is not None:
                yield cand
        return
    if isinstance(c, dict) and "via" in c:
        if c.get("before") or c.get("after"):
            yield {"op": case["op"], "c": dict(c, before=[], after=[])}
        return
    if case["op"] == "fit":
        return
    f = c["f"]
    for i in range(len(f["sigs"])):
        yield {"op": case["op"], "c": dict(c, f=dict(f, sigs=f["sigs"][:i] + f["sigs"][i + 1:]))}
