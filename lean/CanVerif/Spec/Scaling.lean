/-!
# Independent specification of physical scaling (C04): exact decimal arithmetic

Exact (unrounded) decimal numbers `m · 10^e` with integer mantissa; no precision limit.
"physical = raw × factor + offset exactly"; the library's 28-digit precision enters only as the
domain condition "the exact results have at most 28 significant digits".
-/
namespace CanVerif.Spec

structure Ex where
  m : Int
  e : Int
  deriving Repr, Inhabited

namespace Ex

def ofInt (i : Int) : Ex := ⟨i, 0⟩
def mul (a b : Ex) : Ex := ⟨a.m * b.m, a.e + b.e⟩
def add (a b : Ex) : Ex :=
  let e := min a.e b.e
  ⟨a.m * (10 : Int) ^ (a.e - e).toNat + b.m * (10 : Int) ^ (b.e - e).toNat, e⟩
def neg (a : Ex) : Ex := ⟨-a.m, a.e⟩

/-- equality of values -/
def eqv (a b : Ex) : Bool :=
  let e := min a.e b.e
  a.m * (10 : Int) ^ (a.e - e).toNat == b.m * (10 : Int) ^ (b.e - e).toNat

def stripZeros : Nat → Nat → Nat
  | 0, c => c
  | fuel + 1, c => if c != 0 && c % 10 == 0 then stripZeros fuel (c / 10) else c

def ndigits : Nat → Nat → Nat
  | 0, _ => 1
  | fuel + 1, c => if c < 10 then 1 else ndigits fuel (c / 10) + 1

/-- number of significant digits of the exact value -/
def sigDigits (a : Ex) : Nat :=
  let c := stripZeros (a.m.natAbs + 1) a.m.natAbs
  ndigits (c + 1) c

end Ex

/-- exact physical value of a raw value -/
def physOf (raw : Int) (factor offset : Ex) : Ex := Ex.add (Ex.mul (Ex.ofInt raw) factor) offset

/-- the property's domain: the exact product and the exact result have at most 28 significant digits -/
def inDomain (raw : Int) (factor offset : Ex) : Bool :=
  Ex.sigDigits (Ex.mul (Ex.ofInt raw) factor) ≤ 28 && Ex.sigDigits (physOf raw factor offset) ≤ 28 &&
  Ex.sigDigits factor ≤ 28 && Ex.sigDigits offset ≤ 28

/-- raw range of an integer signal -/
def rawRange (size : Nat) (signed : Bool) : Int × Int :=
  if signed then (-((2 : Int) ^ (size - 1)), (2 : Int) ^ (size - 1) - 1) else (0, (2 : Int) ^ size - 1)

end CanVerif.Spec
