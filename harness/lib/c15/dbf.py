"""C15: a BUSMASTER DBF 1.3 writer following the sections of tests/files/dbf/test.dbf (written by BUSMASTER 2.6.0), independent of
canmatrix's writer.  Freedom: line ends, number renderings, unquoted numeric parameter values as BUSMASTER writes them."""
from lib.c15 import net as N
from lib.c15.dbc import Lex  # noqa: F401

NET_OPTS = {"multiline": False, "multi_tx": False, "lengths": [1, 2, 4, 8, 8, 8], "attributes": True, "dbf": True}
# DBF has one sender per message, limits are not compared (raw/physical convention of the two number fields is tool specific)
SKIP = ("group", "cycle", "min", "max")


def byte_bit(sig):
    a = N.lsb_addr(sig)          # position of the least significant bit: byte column (from 1) and bit column
    return a // 8 + 1, a % 8


def render(net, lex, opts=None):
    L = lex
    L.crlf = L.level and L.rng.random() < 0.3
    out = ["//******************************BUSMASTER Messages and signals Database ******************************//", "",
           "[DATABASE_VERSION] 1.3", "", "[PROTOCOL] CAN", "", "[BUSMASTER_VERSION] [2.6.0]", "[NUMBER_OF_MESSAGES] %d" % len(net["frames"])]
    for f in net["frames"]:
        tx = f["tx"][0] if f["tx"] else ""
        out.append("[START_MSG] %s,%d,%d,%d,1,%s,%s" % (f["name"], f["id"], f["size"], len(f["signals"]), "X" if f["ext"] else "S", tx))
        for s in f["signals"]:
            byte, bit = byte_bit(s)
            typ = ("D" if s["size"] == 64 else "F") if s["float"] else ("I" if s["signed"] else "U")
            lo, hi = (-(1 << (s["size"] - 1)), (1 << (s["size"] - 1)) - 1) if s["signed"] else (0, (1 << s["size"]) - 1)
            mux = "M" if s["mux"] == "M" else ("m%d" % s["mux"] if s["mux"] is not None else "")
            out.append("[START_SIGNALS] %s,%d,%d,%d,%s,%d,%d,%d,%s,%s,%s,%s,%s" % (
                s["name"], s["size"], byte, bit, typ, hi, lo, 1 if s["little"] else 0, L.num(s["offset"], N.OFFSETS), L.num(s["factor"], N.NUMBERS),
                s["unit"], mux, ",".join(s["receivers"])))
            for k, v in sorted(s["values"].items(), key=lambda kv: int(kv[0])):
                out.append('[VALUE_DESCRIPTION] "%s",%s' % (v, k))
        out.append("[END_MSG]")
        out.append("")
    out += ["[START_VALUE_TABLE]", "[END_VALUE_TABLE]", "", "[NODE] " + ",".join(net["ecus"]), "", "[START_DESC]", "[START_DESC_NET]", "[END_DESC_NET]", "",
            "[START_DESC_NODE]"]
    for e, text in net.get("ecu_comments", {}).items():
        out.append('%s "%s";' % (e, text))
    out += ["[END_DESC_NODE]", "", "[START_DESC_MSG]"]
    for f in net["frames"]:
        if f["comment"]:
            out.append('%d %s "%s";' % (f["id"], "X" if f["ext"] else "S", f["comment"]))
    out += ["[END_DESC_MSG]", "", "[START_DESC_SIG]"]
    for f in net["frames"]:
        for s in f["signals"]:
            if s["comment"]:
                out.append('%d %s %s "%s";' % (f["id"], "X" if f["ext"] else "S", s["name"], s["comment"]))
    out += ["[END_DESC_SIG]", "[END_DESC]", "", "[START_PARAM]"]

    def param_lines(lvl):
        res = []
        for name, kind, par, default in net.get("defs", {}).get(lvl, []):
            if kind in ("INT", "HEX", "FLOAT"):
                # BUSMASTER: "name",TYPE,initial value,minimum,maximum
                res.append('"%s",%s,%s,%s,%s' % (name, kind, default if default is not None else "0", par[0], par[1]))
            elif kind == "ENUM":
                res.append('"%s",ENUM,%s,"%s"' % (name, ",".join('"%s"' % v for v in par), default if default is not None else par[0]))
            else:
                res.append('"%s",STRING,"%s"' % (name, default or ""))
        return res
    out += ["[START_PARAM_NET]"] + param_lines("global") + ["[END_PARAM_NET]", "", "[START_PARAM_NODE]"] + param_lines("ecu") + ["[END_PARAM_NODE]", "",
            "[START_PARAM_MSG]"] + param_lines("frame") + ["[END_PARAM_MSG]", "", "[START_PARAM_SIG]"] + param_lines("signal") + ["[END_PARAM_SIG]", "",
            "[START_PARAM_NODE_RX_SIG]", "[END_PARAM_NODE_RX_SIG]", "", "[START_PARAM_NODE_TX_MSG]", "[END_PARAM_NODE_TX_MSG]", "[END_PARAM]", "",
            "[START_PARAM_VAL]", "[START_PARAM_NET_VAL]"]

    def v(lvl, name, value):
        kind = next(d[1] for d in net["defs"][lvl] if d[0] == name)
        if kind in ("STRING", "ENUM"):
            return '"%s"' % value
        return value                   # BUSMASTER writes numbers without quotes
    for k, val in net.get("gattrs", {}).items():
        out.append('"%s",%s' % (k, v("global", k, val)))
    out += ["[END_PARAM_NET_VAL]", "", "[START_PARAM_NODE_VAL]"]
    for e, attrs in net.get("ecu_attrs", {}).items():
        for k, val in attrs.items():
            out.append('%s,"%s",%s' % (e, k, v("ecu", k, val)))
    out += ["[END_PARAM_NODE_VAL]", "", "[START_PARAM_MSG_VAL]"]
    for f in net["frames"]:
        for k, val in f.get("attrs", {}).items():
            out.append('%d,%s,"%s",%s' % (f["id"], "X" if f["ext"] else "S", k, v("frame", k, val)))
    out += ["[END_PARAM_MSG_VAL]", "", "[START_PARAM_SIG_VAL]"]
    for f in net["frames"]:
        for s in f["signals"]:
            for k, val in s.get("attrs", {}).items():
                out.append('%d,%s,%s,"%s",%s' % (f["id"], "X" if f["ext"] else "S", s["name"], k, v("signal", k, val)))
    out += ["[END_PARAM_SIG_VAL]", "", "[END_PARAM_VAL]", "", "", "[START_NOT_SUPPORTED]", "[END_NOT_SUPPORTED]", "", "[START_NOT_PROCESSED]", "", "[END_NOT_PROCESSED]", ""]
    return L.eol().join(out)
