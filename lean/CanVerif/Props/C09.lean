import CanVerif.Model.ArbId
import CanVerif.Spec.J1939
import CanVerif.Proofs.ArbId
/-!
# C09 — CAN identifiers: range-checked, lossless compound form, correct J1939 view

All statements are for every identifier (no sampling): every 11-bit / 29-bit value, every field
value, every matrix (list of frames) with 11-bit and J1939 frames in any order.
-/
namespace CanVerif.C09
open CanVerif CanVerif.ArbId

-- some hypotheses of the given statements are only used implicitly (by `omega`) or not needed
set_option linter.unusedVariables false

/-! ## construction and compound form -/

/-- An identifier can be constructed iff it lies in the 11-bit resp. 29-bit range. -/
theorem ctor_range (id : Int) (ext : Bool) :
    (∃ a, ArbId.make id ext = .ok a) ↔ (0 ≤ id ∧ Spec.validId id.toNat ext = true) := by
  constructor
  · rintro ⟨a, h⟩
    have := (make_ok_iff id ext a).1 h
    exact ⟨this.1, this.2.1⟩
  · rintro ⟨h0, hv⟩
    exact ⟨⟨id.toNat, ext⟩, (make_ok_iff id ext _).2 ⟨h0, hv, rfl⟩⟩

/-- a constructed identifier carries exactly the given number and flag -/
theorem ctor_value (id : Int) (ext : Bool) (a : ArbId) (h : ArbId.make id ext = .ok a) :
    (a.id : Int) = id ∧ a.ext = ext := by
  obtain ⟨h0, _, rfl⟩ := (make_ok_iff id ext a).1 h
  exact ⟨Int.toNat_of_nonneg h0, rfl⟩

/-- compound integer: the top bit (2^31) marks extended identifiers -/
theorem toCompound_spec (a : ArbId) (hv : Spec.validId a.id a.ext = true) :
    a.toCompound = Spec.compound a.id a.ext := by
  unfold toCompound Spec.compound
  unfold Spec.validId at hv
  cases hx : a.ext
  · simp
  · simp only [hx, if_true, decide_eq_true_eq] at hv
    simp only [if_true]
    exact or_bit31 a.id (by omega)

/-- identifier → compound integer → identifier is the identity -/
theorem compound_roundtrip (a : ArbId) (hv : Spec.validId a.id a.ext = true) :
    ArbId.fromCompound a.toCompound = .ok a := by
  obtain ⟨id, ext⟩ := a
  unfold fromCompound
  rw [make_ok_iff]
  unfold toCompound
  unfold Spec.validId at hv
  cases ext
  · simp only [Bool.false_eq_true, if_false, decide_eq_true_eq] at hv
    have h1 : id &&& extendedMask = id := by rw [and_ext]; omega
    have h2 : ((id &&& compoundExtendedMask) != 0) = false := by
      rw [and_bit31]; simp; omega
    simp only [Bool.false_eq_true, if_false, h1, h2, Int.toNat_natCast, Spec.validId]
    simp; omega
  · simp only [if_true, decide_eq_true_eq] at hv
    simp only [if_true]
    rw [or_bit31 id (by omega)]
    have h1 : (id + 2 ^ 31) &&& extendedMask = id := by rw [and_ext]; omega
    have h2 : (((id + 2 ^ 31) &&& compoundExtendedMask) != 0) = true := by
      rw [and_bit31]; simp; omega
    simp only [h1, h2, Int.toNat_natCast, Spec.validId]
    simp; omega

/-- compound integer → identifier → compound integer is the identity on compound integers of valid identifiers -/
theorem compound_roundtrip' (i : Nat) (hi : i < 2 ^ 11 ∨ (2 ^ 31 ≤ i ∧ i < 2 ^ 31 + 2 ^ 29)) :
    ∃ a, ArbId.fromCompound i = .ok a ∧ a.toCompound = i := by
  rcases hi with hi | ⟨hlo, hhi⟩
  · refine ⟨⟨i, false⟩, ?_, by simp [toCompound]⟩
    unfold fromCompound
    rw [make_ok_iff]
    have h1 : i &&& extendedMask = i := by rw [and_ext]; omega
    have h2 : ((i &&& compoundExtendedMask) != 0) = false := by
      rw [and_bit31]; simp; omega
    simp only [h1, h2, Int.toNat_natCast, Spec.validId]
    simp; omega
  · obtain ⟨j, rfl⟩ : ∃ j, i = j + 2 ^ 31 := ⟨i - 2 ^ 31, by omega⟩
    have hj : j < 2 ^ 29 := by omega
    refine ⟨⟨j, true⟩, ?_, ?_⟩
    · unfold fromCompound
      rw [make_ok_iff]
      have h1 : (j + 2 ^ 31) &&& extendedMask = j := by rw [and_ext]; omega
      have h2 : (((j + 2 ^ 31) &&& compoundExtendedMask) != 0) = true := by
        rw [and_bit31]; simp; omega
      simp only [h1, h2, Int.toNat_natCast, Spec.validId]
      simp; omega
    · simp only [toCompound, if_true]
      exact or_bit31 _ (by omega)

/-- An integer without the extended flag (bits 29..31 clear) that does not fit 11 bits is refused:
no standard identifier is made out of its low bits. -/
theorem compound_out_of_range_refused (i : Nat) (hlo : 2 ^ 11 ≤ i) (hhi : i < 2 ^ 29) :
    ∀ a, ArbId.fromCompound i ≠ .ok a := by
  intro a h
  unfold fromCompound at h
  rw [make_ok_iff] at h
  have h1 : i &&& extendedMask = i := by rw [and_ext]; omega
  have h2 : ((i &&& compoundExtendedMask) != 0) = false := by
    rw [and_bit31]; simp; omega
  obtain ⟨_, hv, _⟩ := h
  simp only [h1, h2, Int.toNat_natCast, Spec.validId] at hv
  simp at hv; omega

/-- the hypothesis is met: 0x800 is such an integer -/
example : ∀ a, ArbId.fromCompound 0x800 ≠ .ok a := compound_out_of_range_refused 0x800 (by decide) (by decide)

/-! ## J1939 fields: the mask/shift code equals the div/mod layout of J1939-21 -/

theorem fields_eq_spec (id : Nat) :
    sa id = Spec.sa id ∧ ps id = Spec.ps id ∧ pf id = Spec.pf id ∧
    dp id = Spec.dp id ∧ edp id = Spec.edp id ∧ prio id = Spec.prio id := by
  simp only [sa_eq, ps_eq, pf_eq, dp_eq, edp_eq, prio_eq, Spec.sa, Spec.ps, Spec.pf, Spec.dp,
    Spec.edp, Spec.prio, and_self]

/-- The fields of a 29-bit identifier always recompose to that identifier. -/
theorem fields_recompose (id : Nat) (h : id < 2 ^ 29) :
    Spec.compose (prio id) (edp id) (dp id) (pf id) (ps id) (sa id) = id := by
  simp only [sa_eq, ps_eq, pf_eq, dp_eq, edp_eq, prio_eq, Spec.compose]
  omega

/-- The PGN follows J1939-21: the PDU-specific byte belongs to the PGN only when PDU format ≥ 240. -/
theorem pgn_rule (id : Nat) : pgnOfId id = Spec.pgn id := by
  rw [pgnOfId_eq]
  simp only [Spec.pgn, Spec.pf, Spec.ps, Spec.dp, Spec.edp]
  by_cases h : id / 65536 % 256 ≥ 240 <;> simp [h]

/-- The PGN does not depend on priority and source address, nor - for PDU1 - on the destination. -/
theorem pgn_ignores_prio_sa_da (p e d f s a p' a' s' : Nat)
    (he : e < 2) (hd : d < 2) (hf : f < 256) (hs : s < 256) (ha : a < 256) (hp : p < 8)
    (ha' : a' < 256) (hp' : p' < 8) (hs' : s' < 256) :
    pgnOfId (Spec.compose p e d f s a) = pgnOfId (Spec.compose p' e d f s a') ∧
    (f < 240 → pgnOfId (Spec.compose p e d f s a) = pgnOfId (Spec.compose p' e d f s' a')) := by
  simp only [pgnOfId_eq, Spec.compose]
  have e1 : ∀ p s a, p < 8 → s < 256 → a < 256 →
      (p * 2 ^ 26 + e * 2 ^ 25 + d * 2 ^ 24 + f * 2 ^ 16 + s * 2 ^ 8 + a) / 2 ^ 25 % 2 = e := by
    intros; omega
  have e2 : ∀ p s a, p < 8 → s < 256 → a < 256 →
      (p * 2 ^ 26 + e * 2 ^ 25 + d * 2 ^ 24 + f * 2 ^ 16 + s * 2 ^ 8 + a) / 2 ^ 24 % 2 = d := by
    intros; omega
  have e3 : ∀ p s a, p < 8 → s < 256 → a < 256 →
      (p * 2 ^ 26 + e * 2 ^ 25 + d * 2 ^ 24 + f * 2 ^ 16 + s * 2 ^ 8 + a) / 65536 % 256 = f := by
    intros; omega
  have e4 : ∀ p s a, p < 8 → s < 256 → a < 256 →
      (p * 2 ^ 26 + e * 2 ^ 25 + d * 2 ^ 24 + f * 2 ^ 16 + s * 2 ^ 8 + a) / 256 % 256 = s := by
    intros; omega
  simp only [e1 p s a hp hs ha, e2 p s a hp hs ha, e3 p s a hp hs ha, e4 p s a hp hs ha,
    e1 p' s a' hp' hs ha', e2 p' s a' hp' hs ha', e3 p' s a' hp' hs ha', e4 p' s a' hp' hs ha',
    e1 p' s' a' hp' hs' ha', e2 p' s' a' hp' hs' ha', e3 p' s' a' hp' hs' ha', e4 p' s' a' hp' hs' ha',
    true_and]
  intro hf240
  have : ¬ f ≥ 240 := by omega
  simp [this]

/-! ## setters: the field is set, no other field changes (frame condition) -/

theorem setPriority_frame (a : ArbId) (v : Nat) (h : a.id < 2 ^ 29) :
    let b := a.setPriority v
    b.ext = true ∧ b.id < 2 ^ 29 ∧ prio b.id = v % 8 ∧ edp b.id = edp a.id ∧ dp b.id = dp a.id ∧
    pf b.id = pf a.id ∧ ps b.id = ps a.id ∧ sa b.id = sa a.id := by
  intro b
  refine ⟨rfl, ?_⟩
  have hb : b.id = a.id % 2 ^ 26 + (v % 8) * 2 ^ 26 := setPriority_id a v
  simp only [sa_eq, ps_eq, pf_eq, dp_eq, edp_eq, prio_eq, hb]
  omega

theorem setSource_frame (a : ArbId) (v : Nat) (h : a.id < 2 ^ 29) :
    let b := a.setSource v
    b.ext = true ∧ b.id < 2 ^ 29 ∧ sa b.id = v % 256 ∧ prio b.id = prio a.id ∧ edp b.id = edp a.id ∧
    dp b.id = dp a.id ∧ pf b.id = pf a.id ∧ ps b.id = ps a.id := by
  intro b
  refine ⟨rfl, ?_⟩
  have hb : b.id = (a.id / 256 % 2 ^ 24) * 256 + v % 256 := setSource_id a v
  simp only [sa_eq, ps_eq, pf_eq, dp_eq, edp_eq, prio_eq, hb]
  omega

theorem setPgn_frame (a : ArbId) (v : Nat) (h : a.id < 2 ^ 29) :
    let b := a.setPgn v
    b.ext = true ∧ b.id < 2 ^ 29 ∧ prio b.id = prio a.id ∧ sa b.id = sa a.id ∧
    ps b.id = v % 256 ∧ pf b.id = v / 256 % 256 ∧ dp b.id = v / 2 ^ 16 % 2 ∧ edp b.id = v / 2 ^ 17 % 2 := by
  intro b
  refine ⟨rfl, ?_⟩
  have hb : b.id = (a.id / 2 ^ 26 % 64) * 2 ^ 26 + (v % 2 ^ 18) * 256 + a.id % 256 := setPgn_id a v
  simp only [sa_eq, ps_eq, pf_eq, dp_eq, edp_eq, prio_eq, hb]
  omega

/-- setting a PGN and reading it back: identity for PDU2 PGNs and for PDU1 PGNs whose low byte is 0 -/
theorem pgn_setPgn (a : ArbId) (v : Nat) (h : a.id < 2 ^ 29) (hv : v < 2 ^ 18)
    (hpdu : v / 256 % 256 ≥ 240 ∨ v % 256 = 0) :
    pgnOfId (a.setPgn v).id = v := by
  rw [pgnOfId_eq, setPgn_id]
  have hm : v % 2 ^ 18 = v := Nat.mod_eq_of_lt hv
  rw [hm]
  have e1 : (a.id / 2 ^ 26 % 64 * 2 ^ 26 + v * 256 + a.id % 256) / 2 ^ 25 % 2 = v / 2 ^ 17 % 2 := by omega
  have e2 : (a.id / 2 ^ 26 % 64 * 2 ^ 26 + v * 256 + a.id % 256) / 2 ^ 24 % 2 = v / 2 ^ 16 % 2 := by omega
  have e3 : (a.id / 2 ^ 26 % 64 * 2 ^ 26 + v * 256 + a.id % 256) / 65536 % 256 = v / 256 % 256 := by omega
  have e4 : (a.id / 2 ^ 26 % 64 * 2 ^ 26 + v * 256 + a.id % 256) / 256 % 256 = v % 256 := by omega
  rw [e1, e2, e3, e4]
  split <;> omega

/-- `from_pgn` then `.pgn` normalises a PGN (drops the destination byte of PDU1) -/
theorem fromPgn_pgn (p : Nat) (hp : p < 2 ^ 18) :
    ∃ q, ArbId.fromPgn p = .ok q ∧ q.ext = true ∧
      pgnOfId q.id = (if p / 256 % 256 ≥ 240 then p else p / 256 * 256) := by
  refine ⟨⟨p <<< 8, true⟩, ?_, rfl, ?_⟩
  · unfold fromPgn
    rw [make_ok_iff]
    have hlt : p <<< 8 < 2 ^ 29 := by rw [Nat.shiftLeft_eq]; omega
    simp only [Int.toNat_natCast, Spec.validId, if_true, decide_eq_true_eq]
    exact ⟨Int.natCast_nonneg _, hlt, trivial⟩
  · simp only [pgnOfId_eq, Nat.shiftLeft_eq]
    have e1 : p * 2 ^ 8 / 2 ^ 25 % 2 = p / 2 ^ 17 % 2 := by omega
    have e2 : p * 2 ^ 8 / 2 ^ 24 % 2 = p / 2 ^ 16 % 2 := by omega
    have e3 : p * 2 ^ 8 / 65536 % 256 = p / 256 % 256 := by omega
    have e4 : p * 2 ^ 8 / 256 % 256 = p % 256 := by omega
    rw [e1, e2, e3, e4]
    split <;> omega

/-- the J1939 view is refused for 11-bit identifiers -/
theorem j1939_needs_extended (a : ArbId) (h : a.ext = false) :
    a.pgn = .error .needsExtended ∧ a.j1939Source = .error .needsExtended ∧
    a.j1939Priority = .error .needsExtended ∧ a.j1939Destination = .error .needsExtended := by
  simp [ArbId.pgn, j1939Source, j1939Priority, j1939Destination, h]

/-! ## PGN based frame resolution (`CanMatrix.decode` in a matrix containing J1939 frames) -/

/-- all frames of a matrix carry valid identifiers -/
def validFrames (frames : List FrameKey) : Prop := ∀ f ∈ frames, Spec.validId f.aid.id f.aid.ext = true

/-- Soundness: the frame chosen for a received 29-bit identifier is in the matrix, is a 29-bit frame
and has the same PGN as the received identifier - whatever the positions of 11-bit frames. -/
theorem decode_by_pgn_sound (frames : List FrameKey) (k : ArbId) (hv : validFrames frames)
    (hj : frames.any (·.isJ1939) = true) (hk : k.ext = true) (hkv : k.id < 2 ^ 29)
    (f : FrameKey) (h : resolveForDecode frames k = .ok (some f)) :
    f ∈ frames ∧ f.aid.ext = true ∧ Spec.pgn f.aid.id = Spec.pgn k.id := by
  unfold resolveForDecode at h
  simp only [hj, hk, Bool.not_true, Bool.false_eq_true, if_false, if_true] at h
  cases hfi : frameById frames k with
  | some g =>
    rw [hfi] at h
    simp only [Except.ok.injEq, Option.some.injEq] at h
    subst h
    unfold frameById at hfi
    have hm := List.mem_of_find?_eq_some hfi
    have hp := List.find?_some hfi
    rw [eqv_iff] at hp
    refine ⟨hm, by rw [hp.2, hk], by rw [hp.1]⟩
  | none =>
    rw [hfi] at h
    simp only [frameByPgn_pgnOfId, Except.ok.injEq] at h
    have hm := List.mem_of_find?_eq_some h
    have hp := List.find?_some h
    simp only [Bool.and_eq_true, beq_iff_eq] at hp
    refine ⟨hm, hp.1, ?_⟩
    rw [← pgn_rule, ← pgn_rule]; exact hp.2

/-- Completeness: never an error; nothing is decoded exactly when no 29-bit frame of the matrix
carries the PGN (whatever priority, source address and - for PDU1 - destination were received). -/
theorem decode_by_pgn_complete (frames : List FrameKey) (k : ArbId) (hv : validFrames frames)
    (hj : frames.any (·.isJ1939) = true) (hk : k.ext = true) (hkv : k.id < 2 ^ 29) :
    ∃ r, resolveForDecode frames k = .ok r ∧
      (r = none ↔ ∀ f ∈ frames, f.aid.ext = true → Spec.pgn f.aid.id ≠ Spec.pgn k.id) := by
  unfold resolveForDecode
  simp only [hj, hk, Bool.not_true, Bool.false_eq_true, if_false, if_true]
  cases hfi : frameById frames k with
  | some g =>
    refine ⟨some g, rfl, ?_⟩
    unfold frameById at hfi
    have hm := List.mem_of_find?_eq_some hfi
    have hp := List.find?_some hfi
    rw [eqv_iff] at hp
    constructor
    · intro hc; cases hc
    · intro hall
      exact absurd (by rw [hp.1]) (hall g hm (by rw [hp.2, hk]))
  | none =>
    refine ⟨_, frameByPgn_pgnOfId frames k.id, ?_⟩
    rw [List.find?_eq_none]
    constructor
    · intro hall f hf hext hpg
      apply hall f hf
      simp only [Bool.and_eq_true, beq_iff_eq]
      exact ⟨hext, by rw [pgn_rule, pgn_rule]; exact hpg⟩
    · intro hall f hf hc
      simp only [Bool.and_eq_true, beq_iff_eq] at hc
      exact hall f hf hc.1 (by rw [← pgn_rule, ← pgn_rule]; exact hc.2)

/-- An 11-bit identifier received in a J1939 matrix decodes to nothing. -/
theorem decode_std_in_j1939 (frames : List FrameKey) (k : ArbId)
    (hj : frames.any (·.isJ1939) = true) (hk : k.ext = false) :
    resolveForDecode frames k = .ok none := by
  unfold resolveForDecode
  simp [hj, hk]

/-! non-vacuity -/
example : pgnOfId 0x18FEF102 = 0xFEF1 := by decide
example : pgnOfId 0x18EA2102 = 0xEA00 := by decide
example : resolveForDecode
    [{ name := "std", aid := ⟨0x10, false⟩ }, { name := "j", aid := ⟨0x0CF00400, true⟩, isJ1939 := true }]
    ⟨0x18F00401, true⟩ = .ok (some { name := "j", aid := ⟨0x0CF00400, true⟩, isJ1939 := true }) := by rfl

end CanVerif.C09
