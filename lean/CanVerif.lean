import CanVerif.Model.StartBit
import CanVerif.Spec.Bits
import CanVerif.Proofs.Bits
import CanVerif.Props.C08
