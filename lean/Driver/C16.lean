import Driver.Common
import CanVerif.Model.Layout
import CanVerif.Spec.Layout
open Lean CanVerif

namespace D16

def sigJ (s : Sig) : Json := J.ofList [Json.str s.name, J.ofNat s.start, J.ofNat s.size, Json.bool s.little, Json.bool s.signed]

def sigsOfJson (j : Json) : Except String (List Sig) := do
  (← J.arr j).mapM fun x => do
    pure { name := ← J.str (← J.idx x 0), start := ← J.nat (← J.idx x 1), size := ← J.nat (← J.idx x 2),
           little := ← J.bool (← J.idx x 3), signed := ← J.bool (← J.idx x 4) }

def handle (op : String) (c i : Json) : Except String (Json × String) := do
  match op with
  | "layout" =>
    let f ← DC.frame (← J.key c "f")
    let m := J.ofList (f.layout.map J.ofStrList)
    let il ← (← J.arr i).mapM J.strList
    let s := if Spec.layoutOk f.size (f.sigs.map DC.specSig) il then "ok"
             else "fail: usage report differs from the bits the signals' values depend on"
    pure (m, s)
  | "dummies" =>
    let f ← DC.frame (← J.key c "f")
    let nm ← J.str (← J.key c "name")
    let g := f.createDummySignals nm
    let m := J.ofList (g.sigs.map sigJ)
    let after ← sigsOfJson i
    let sameOld := (after.take f.sigs.length).map sigJ == f.sigs.map sigJ
    let s := if Spec.dummiesOk f.size (f.sigs.map DC.specSig) (after.map DC.specSig) sameOld then "ok"
             else if !sameOld then "fail: an existing signal was changed by create_dummy_signals"
             else "fail: after adding dummies some bit belongs to no signal or to two"
    pure (m, s)
  | "dummies2" =>
    -- pad, take the first signal out, pad again: i = {"mid": signals before the second call, "after": signals after it}
    let f ← DC.frame (← J.key c "f")
    let nm ← J.str (← J.key c "name")
    let g1 := f.createDummySignals nm
    let midM := g1.sigs.drop 1
    let g2 := ({ g1 with sigs := midM } : Frame).createDummySignals nm
    let m := J.obj [("mid", J.ofList (midM.map sigJ)), ("after", J.ofList (g2.sigs.map sigJ))]
    let mid ← sigsOfJson (← J.key i "mid")
    let after ← sigsOfJson (← J.key i "after")
    let sameOld := (after.take mid.length).map sigJ == mid.map sigJ
    let s := if Spec.dummiesOk f.size (mid.map DC.specSig) (after.map DC.specSig) sameOld then "ok"
             else if !sameOld then "fail: an existing signal was changed by the second create_dummy_signals"
             else "fail: after padding a second time some bit belongs to no signal or to two"
    pure (m, s)
  | "dlc" =>
    let f ← DC.frame (← J.key c "f")
    let strat ← J.str (← J.key c "strategy")
    -- the frame stands in a matrix between other frames
    let others (k : String) : Except String (List Frame) :=
      match c.getObjVal? k with
      | .ok a => do (← J.arr a).mapM DC.frame
      | .error _ => pure []
    let pre ← others "before"
    let post ← others "after"
    let r := match (recalcDlc strat (pre ++ f :: post))[pre.length]? with
      | some g => g.size
      | none => 0
    let got ← J.nat i
    let need := Spec.neededBytes (f.sigs.map DC.specSig)
    let want := if strat == "force" then need else max f.size need
    pure (J.ofNat r, if got == want then "ok" else s!"fail: computed length {got}, smallest length containing all signals is {want}")
  | "fit" =>
    let n ← J.nat (← J.idx c 0)
    let fd ← J.bool (← J.idx c 1)
    let m := J.ofList [J.ofNat (fitDlc n), Json.bool (setFdType n fd)]
    let got ← J.nat (← J.idx i 0)
    let gfd ← J.bool (← J.idx i 1)
    let s := if got != Spec.fitSpec n then s!"fail: fitted length {got}, smallest permitted length is {Spec.fitSpec n}"
             else if gfd != (fd || n > 8) then "fail: FD flag wrong" else "ok"
    pure (m, s)
  | "compress" =>
    let f ← DC.frame (← J.key c "f")
    let m := match f.compress with
      | .ok g => J.obj [("ok", J.ofList (g.sigs.map sigJ))]
      | .error e => J.obj [("err", Json.str (DC.errStr e))]
    let s ← match i.getObjVal? "ok" with
      | .error _ => pure "fail: compress raised or did not terminate"
      | .ok aj => do
        let after ← sigsOfJson aj
        let keep := after.length == f.sigs.length &&
          (List.zip f.sigs after).all fun (a, b) => a.name == b.name && a.size == b.size && a.little == b.little
        let mixed := f.sigs.any (·.little) && f.sigs.any (fun s => !s.little)
        let want := Spec.compressedStarts (f.sigs.map DC.specSig)
        let placed := after.all fun b => want.contains (b.name, b.start)
        pure (if !keep then "fail: compress changed a signal's width, byte order or the signal list"
          else if mixed then "ok"
          else if !Spec.noOverlap (after.map DC.specSig) then "fail: compress created an overlap"
          else if !placed then "fail: compress left an unused bit before the last signal or changed the relative order"
          else "ok")
    pure (m, s)
  | _ => throw s!"C16: unknown op {op}"

end D16
