import CanVerif.Model.Codec
import CanVerif.Spec.Bits
import CanVerif.Proofs.Codec
import CanVerif.Proofs.Encode
import CanVerif.Props.C01
/-!
# C02 — encoding is the exact inverse of decoding and writes only its own bits

For a frame whose *supplied* signals do not overlap, encoding any assignment of representable raw
values yields a payload of exactly the frame's length from which each supplied signal decodes back
to the supplied value, with every bit that belongs to no supplied signal cleared.  Re-encoding the
values decoded from an arbitrary payload reproduces that payload on every bit covered by a signal.

The core theorems are about `Frame.signalsToBytes` (domain `SigDomain`: only the signals that are
actually supplied have to be inside the frame and pairwise disjoint, so they also apply to the
per-multiplex-group call made by `Frame.encode` for multiplexed frames); the theorems about
`Frame.encode` for plain frames (domain `EncDomain`) are corollaries.

Unbounded: any frame length, any number of signals, any widths.
-/
namespace CanVerif.C02
open CanVerif

/-- pairwise non-overlapping signals (no physical payload address belongs to two signals) -/
def disjointSigs (sigs : List Sig) : Prop :=
  sigs.Pairwise fun s t => ∀ i j, i < s.size → j < t.size →
    sigAddr s.little s.start s.size i ≠ sigAddr t.little t.start t.size j

/-- raw values inside the signal's raw range (float signals carry their bit pattern) -/
def Sig.inRange (s : Sig) (v : Int) : Prop :=
  if s.isFloat then 0 ≤ v ∧ v < (2:Int) ^ s.size
  else if s.signed then -((2:Int) ^ (s.size - 1)) ≤ v ∧ v < (2:Int) ^ (s.size - 1)
  else 0 ≤ v ∧ v < (2:Int) ^ s.size

/-- the domain of the property for one frame and one assignment, for `signalsToBytes`:
the structural requirements concern the supplied signals only -/
structure SigDomain (f : Frame) (data : List (String × Int)) : Prop where
  nodup : (f.sigs.map (·.name)).Nodup
  inframe : ∀ s ∈ f.sigs, dictGet data s.name ≠ none → inFrame s f.size
  disjoint : disjointSigs (f.sigs.filter fun s => (dictGet data s.name).isSome)
  representable : ∀ s ∈ f.sigs, ∀ v, dictGet data s.name = some v → Sig.inRange s v

/-- the domain of the property for `Frame.encode`: a plain frame -/
structure EncDomain (f : Frame) (data : List (String × Int)) : Prop extends SigDomain f data where
  plain : f.complexMux = false ∧ f.isMultiplexed = false ∧ f.isContainer = false

theorem SigDomain.hyp {f : Frame} {data : List (String × Int)} (h : SigDomain f data) :
    StbHyp f.size f.sigs data where
  ok := by
    intro s hs v hv
    have hin := h.inframe s hs (by rw [hv]; simp)
    exact ⟨hin.1, hin.2, h.representable s hs v hv⟩
  disjoint := List.pairwise_filter.1 h.disjoint

/-- for a plain frame `encode` is `signalsToBytes` -/
theorem encode_plain (f : Frame) (data : List (String × Int))
    (hplain : f.complexMux = false ∧ f.isMultiplexed = false ∧ f.isContainer = false) :
    f.encode data = f.signalsToBytes data := by
  obtain ⟨h1, h2, h3⟩ := hplain
  unfold Frame.encode
  simp [h1, h2, h3]

/-! ## the theorems for `signalsToBytes` (any frame, supplied signals disjoint) -/

/-- Encoding representable values never fails and yields exactly the frame's length, every byte < 256. -/
theorem signalsToBytes_total (f : Frame) (data : List (String × Int)) (h : SigDomain f data) :
    ∃ bytes, f.signalsToBytes data = .ok bytes ∧ bytes.length = f.size ∧ ∀ b ∈ bytes, b < 256 := by
  obtain ⟨bytes, h1, h2, h3, _⟩ := signalsToBytes_spec f data h.hyp
  exact ⟨bytes, h1, h2, h3⟩

/-- Each supplied signal decodes back to the supplied value. -/
theorem decode_signalsToBytes (f : Frame) (data : List (String × Int)) (h : SigDomain f data)
    (bytes : List Nat) (henc : f.signalsToBytes data = .ok bytes)
    (s : Sig) (hs : s ∈ f.sigs) (v : Int) (hv : dictGet data s.name = some v) :
    rawOf s bytes = v := by
  obtain ⟨bytes', h1, h2, _, h4, _⟩ := signalsToBytes_spec f data h.hyp
  rw [henc] at h1
  injection h1 with h1
  subst h1
  have hin : inFrame s bytes.length := by rw [h2]; exact h.inframe s hs (by rw [hv]; simp)
  exact rawOf_written s bytes v hin (h.representable s hs v hv) (h4 s hs v hv)

/-- Every bit that belongs to no supplied signal is cleared. -/
theorem signalsToBytes_clears_rest (f : Frame) (data : List (String × Int)) (h : SigDomain f data)
    (bytes : List Nat) (henc : f.signalsToBytes data = .ok bytes) (k : Nat)
    (hk : ∀ s ∈ f.sigs, dictGet data s.name ≠ none → ∀ i, i < s.size →
            sigAddr s.little s.start s.size i ≠ k) :
    payloadBit bytes k = false := by
  obtain ⟨bytes', h1, _, _, _, h5⟩ := signalsToBytes_spec f data h.hyp
  rw [henc] at h1
  injection h1 with h1
  subst h1
  exact h5 k (fun s hs v hv i hi => hk s hs (by rw [hv]; simp) i hi)

/-- the dictionary obtained by decoding a payload of the frame's length is in the domain -/
theorem decoded_domain (f : Frame) (p : List Nat) (hlen : p.length = f.size)
    (hnd : (f.sigs.map (·.name)).Nodup) (hin : ∀ s ∈ f.sigs, inFrame s f.size)
    (hdis : disjointSigs f.sigs) :
    SigDomain f (f.sigs.map fun s => (s.name, rawOf s p)) where
  nodup := hnd
  inframe := fun s hs _ => hin s hs
  disjoint := List.Pairwise.filter _ hdis
  representable := by
    intro s hs v hv
    rw [dictGet_map f.sigs (fun s => rawOf s p) hnd s hs] at hv
    injection hv with hv
    subst hv
    exact rangeOK_rawOf s p (by rw [hlen]; exact hin s hs)

/-- Re-encoding the values decoded from an arbitrary payload reproduces that payload on every bit
covered by a signal (`signalsToBytes` form). -/
theorem signalsToBytes_decode_on_covered (f : Frame) (p : List Nat) (hlen : p.length = f.size)
    (hnd : (f.sigs.map (·.name)).Nodup) (hin : ∀ s ∈ f.sigs, inFrame s f.size)
    (hdis : disjointSigs f.sigs)
    (bytes : List Nat) (henc : f.signalsToBytes (f.sigs.map fun s => (s.name, rawOf s p)) = .ok bytes) :
    ∀ s ∈ f.sigs, ∀ i, i < s.size →
      payloadBit bytes (sigAddr s.little s.start s.size i) = payloadBit p (sigAddr s.little s.start s.size i) := by
  intro s hs i hi
  have hd := decoded_domain f p hlen hnd hin hdis
  obtain ⟨bytes', h1, _, _, h4, _⟩ := signalsToBytes_spec f _ hd.hyp
  rw [henc] at h1
  injection h1 with h1
  subst h1
  rw [h4 s hs _ (dictGet_map f.sigs (fun s => rawOf s p) hnd s hs) i hi]
  exact encNat_rawOf_testBit s p (by rw [hlen]; exact hin s hs) i hi

/-! ## the theorems for `encode` on plain frames -/

/-- Encoding representable values never fails and yields exactly the frame's length, every byte < 256. -/
theorem encode_total (f : Frame) (data : List (String × Int)) (h : EncDomain f data) :
    ∃ bytes, f.encode data = .ok bytes ∧ bytes.length = f.size ∧ ∀ b ∈ bytes, b < 256 := by
  rw [encode_plain f data h.plain]
  exact signalsToBytes_total f data h.toSigDomain

/-- Each supplied signal decodes back to the supplied value. -/
theorem decode_encode (f : Frame) (data : List (String × Int)) (h : EncDomain f data)
    (bytes : List Nat) (henc : f.encode data = .ok bytes)
    (s : Sig) (hs : s ∈ f.sigs) (v : Int) (hv : dictGet data s.name = some v) :
    rawOf s bytes = v := by
  rw [encode_plain f data h.plain] at henc
  exact decode_signalsToBytes f data h.toSigDomain bytes henc s hs v hv

/-- Every bit that belongs to no supplied signal is cleared. -/
theorem encode_clears_rest (f : Frame) (data : List (String × Int)) (h : EncDomain f data)
    (bytes : List Nat) (henc : f.encode data = .ok bytes) (k : Nat)
    (hk : ∀ s ∈ f.sigs, dictGet data s.name ≠ none → ∀ i, i < s.size →
            sigAddr s.little s.start s.size i ≠ k) :
    payloadBit bytes k = false := by
  rw [encode_plain f data h.plain] at henc
  exact signalsToBytes_clears_rest f data h.toSigDomain bytes henc k hk

/-- Re-encoding the values decoded from an arbitrary payload reproduces that payload on every bit
covered by a signal. -/
theorem encode_decode_on_covered (f : Frame) (p : List Nat) (hlen : p.length = f.size)
    (hplain : f.complexMux = false ∧ f.isMultiplexed = false ∧ f.isContainer = false)
    (hnd : (f.sigs.map (·.name)).Nodup) (hin : ∀ s ∈ f.sigs, inFrame s f.size)
    (hdis : disjointSigs f.sigs)
    (bytes : List Nat) (henc : f.encode (f.sigs.map fun s => (s.name, rawOf s p)) = .ok bytes) :
    ∀ s ∈ f.sigs, ∀ i, i < s.size →
      payloadBit bytes (sigAddr s.little s.start s.size i) = payloadBit p (sigAddr s.little s.start s.size i) := by
  rw [encode_plain f _ hplain] at henc
  exact signalsToBytes_decode_on_covered f p hlen hnd hin hdis bytes henc

/-- the decoded values are always representable, so the previous theorem is not vacuous:
its `henc` hypothesis is satisfiable for every payload -/
theorem decoded_values_encode (f : Frame) (p : List Nat) (hlen : p.length = f.size)
    (hplain : f.complexMux = false ∧ f.isMultiplexed = false ∧ f.isContainer = false)
    (hnd : (f.sigs.map (·.name)).Nodup) (hin : ∀ s ∈ f.sigs, inFrame s f.size)
    (hdis : disjointSigs f.sigs) :
    ∃ bytes, f.encode (f.sigs.map fun s => (s.name, rawOf s p)) = .ok bytes := by
  rw [encode_plain f _ hplain]
  obtain ⟨bytes, h1, _⟩ := signalsToBytes_total f _ (decoded_domain f p hlen hnd hin hdis)
  exact ⟨bytes, h1⟩

/-! non-vacuity -/
def exFrame : Frame :=
  { size := 2, sigs := [{ name := "a", start := 8, size := 8, little := false, signed := true },
                        { name := "b", start := 0, size := 3, little := true }] }
deriving instance DecidableEq for Except
example : exFrame.encode [("a", -2), ("b", 5)] = .ok [0x05, 0xFE] := by decide
example : rawOf { name := "a", start := 8, size := 8, little := false, signed := true } [0x05, 0xFE] = -2 := by
  decide

end CanVerif.C02
