/-!
# Model of the line dispatcher of the DBC reader (formats/dbc.py `load`, ~509-940) and of its
per-line error handling (C20)

Each non-empty line is stripped and - unless a multi-line comment is being continued - classified by
the `elif decoded.startswith(...)` chain.  When the statement's regular expression does not match,
a handler either does nothing (`if temp:` guard) or raises inside the per-line `try` (`temp.group` on
`None`), which prints "error with line no" and continues; in both cases nothing has been written to
the matrix at that point.  Lines starting with no known keyword fall through the chain.
-/
namespace CanVerif

inductive LineKind
  | bo | sg | boTxBu | cmSg | cmBo | cmBu | bu | val | valTable | baDefTyped | baDef | ba
  | sigGroup | sigValtype | baDefDef | sgMulVal | ev | unknown
  deriving Repr, DecidableEq, Inhabited

def startsWith (s p : List Char) : Bool := s.take p.length == p

/-- Python `str.strip()` for blanks, tabs and line ends -/
def isWs (c : Char) : Bool := c == ' ' || c == '\t' || c == '\n' || c == '\r'
def stripWs (s : List Char) : List Char := ((s.dropWhile isWs).reverse.dropWhile isWs).reverse

/-- `re.match(r"CM_ +SG_ ", d)` and its siblings: `CM_`, at least one blank, the class keyword and a blank -/
def cmClass (d : List Char) (kw : List Char) : Bool :=
  startsWith d "CM_ ".toList && startsWith ((d.drop 4).dropWhile (· == ' ')) kw

/-- the `elif decoded.startswith(...)` chain, in source order -/
def classify (line : List Char) : LineKind :=
  let d := stripWs line
  if startsWith d "BO_ ".toList then .bo
  else if startsWith d "SG_ ".toList then .sg
  else if startsWith d "BO_TX_BU_ ".toList then .boTxBu
  else if cmClass d "SG_ ".toList then .cmSg
  else if cmClass d "BO_ ".toList then .cmBo
  else if cmClass d "BU_ ".toList then .cmBu
  else if startsWith d "BU_:".toList then .bu
  else if startsWith d "VAL_ ".toList then .val
  else if startsWith d "VAL_TABLE_ ".toList then .valTable
  else if startsWith d "BA_DEF_".toList &&
      ["SG_", "BO_", "BU_", "EV_"].contains (String.ofList ((stripWs (d.drop 7)).take 3)) then .baDefTyped
  else if startsWith d "BA_DEF_ ".toList then .baDef
  else if startsWith d "BA_ ".toList then .ba
  else if startsWith d "SIG_GROUP_ ".toList then .sigGroup
  else if startsWith d "SIG_VALTYPE_ ".toList then .sigValtype
  else if startsWith d "BA_DEF_DEF_ ".toList then .baDefDef
  else if startsWith d "SG_MUL_VAL_ ".toList then .sgMulVal
  else if startsWith d "EV_ ".toList then .ev
  else .unknown

/-- what happens when the statement's pattern does not match the line -/
inductive Mismatch | silent | errorPrinted
  deriving Repr, DecidableEq, Inhabited

/-- per keyword: guarded by `if temp:` (silent) or `temp.group(...)` on `None` (raises, printed) -/
def onMismatch : LineKind → Mismatch
  | .bo | .sg | .boTxBu | .ba | .sigGroup | .sigValtype | .ev => .errorPrinted
  | _ => .silent

/-- `^BA_ +\".+?\" +(.+)`: the rest of a `BA_` line after the quoted attribute name -/
def baRest (d : List Char) : Option (List Char) :=
  let a := (d.drop 3).dropWhile (· == ' ')
  if (d.drop 3).head? != some ' ' then none else
  match a with
  | '"' :: t =>
    -- `.+?` needs at least one character, then the first closing quote followed by at least one blank
    let rec go (fuel : Nat) (seen : Nat) (u : List Char) : Option (List Char) :=
      match fuel, u with
      | 0, _ => none
      | _, [] => none
      | fuel + 1, '"' :: v =>
        if seen ≥ 1 && v.head? == some ' ' then
          let r := v.dropWhile (· == ' ')
          if r.isEmpty then none else some r
        else go fuel (seen + 1) v
      | fuel + 1, _ :: v => go fuel (seen + 1) v
    go (t.length + 1) 0 t
  | _ => none

/-- outcome of a `BA_` line whose branch pattern does not match: the branch is chosen by the text after
the attribute name; the BO_ and BU_ branches call `.group` on `None` (printed), SG_, EV_ and the
matrix-level branch are guarded (silent); if even the first pattern fails the line is printed -/
def baMismatch (line : List Char) : Mismatch :=
  match baRest (stripWs line) with
  | none => .errorPrinted
  | some r =>
    let r' := stripWs r
    if startsWith r' "BO_ ".toList then .errorPrinted
    else if startsWith r' "SG_ ".toList then .silent
    else if startsWith r' "EV_ ".toList then .silent
    else if startsWith r' "BU_ ".toList then .errorPrinted
    else .silent

/-- is "error with line no" printed for a line that does not take effect -/
def printsError (line : List Char) : Bool :=
  match classify line with
  | .unknown => false
  | .ba => baMismatch line == .errorPrinted
  | k => onMismatch k == .errorPrinted

/-- abstract reader state and the per-line step: `effect` is what a *matching* statement does (it may
still raise half-way: `Except` with the partially updated state, Python has no rollback) -/
structure Reader (σ : Type) where
  matchesPattern : LineKind → List Char → Bool
  effect : LineKind → List Char → σ → Except σ σ

def stepLine {σ : Type} (r : Reader σ) (st : σ) (line : List Char) : σ :=
  if (stripWs line).isEmpty then st
  else
    let k := classify line
    if k == .unknown then st
    else if !r.matchesPattern k line then st          -- silent or printed: nothing written either way
    else match r.effect k line st with
      | .ok st' => st'
      | .error st' => st'

def loadLines {σ : Type} (r : Reader σ) (init : σ) (lines : List (List Char)) : σ := lines.foldl (stepLine r) init

end CanVerif
