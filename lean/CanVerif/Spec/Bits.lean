/-!
# Independent specification of CAN payload bit addressing (DESIGN §4.1)

Written from the CAN database convention, not from the code.

* physical address `k` of a payload bit: byte `k / 8`, bit `k % 8` with bit 0 the least
  significant bit of the byte ("LSB0" numbering, the numbering DBC files use);
* `flipN`: the involution between LSB0 numbering and MSB0 numbering (bit 0 = most significant
  bit of byte 0, counted sequentially);
* Intel signal: start bit = least significant bit, significance grows with the address;
* Motorola signal: from the most significant bit downwards inside a byte, continuing at bit 7 of
  the next byte (`sawStep`).
-/
namespace CanVerif

abbrev Payload := List Nat

/-- payload bit at physical address `k` -/
def payloadBit (p : Payload) (k : Nat) : Bool := (p.getD (k / 8) 0).testBit (k % 8)

/-- LSB0 <-> MSB0 renumbering -/
def flipN (j : Nat) : Nat := 8 * (j / 8) + 7 - j % 8

/-- one step of the Motorola sawtooth towards the less significant neighbour bit:
inside a byte one bit down; from bit 0 of a byte to bit 7 of the next byte -/
def sawStep (b : Nat) : Nat := if b % 8 = 0 then b + 15 else b - 1

def sawWalk : Nat → Nat → Nat
  | 0, b => b
  | n + 1, b => sawWalk n (sawStep b)

/-- `Σ_{i<n} f i · 2^i` -/
def specSum (f : Nat → Bool) : Nat → Nat
  | 0 => 0
  | n + 1 => specSum f n + (f n).toNat * 2 ^ n

/-- Physical address of the bit of significance `i` (0 = least significant) of a signal whose
*internal* start is `start` (Intel: LSB address; Motorola: MSB0-sequential index of the MSB). -/
def sigAddr (little : Bool) (start size i : Nat) : Nat :=
  if little then start + i else flipN (start + size - 1 - i)

/-- The same for a Motorola signal given by the DBC start bit `b` (LSB0 address of its MSB):
walk the sawtooth `size-1-i` steps from the MSB. -/
def motorolaAddrFromMsb (b size i : Nat) : Nat := sawWalk (size - 1 - i) b

def sigAddrs (little : Bool) (start size : Nat) : List Nat :=
  (List.range size).map (sigAddr little start size)

/-- the unsigned number formed by the signal's bits -/
def specRaw (p : Payload) (little : Bool) (start size : Nat) : Nat :=
  specSum (fun i => payloadBit p (sigAddr little start size i)) size

/-- two's complement reading of an `n`-bit pattern -/
def specSigned (u : Nat) (n : Nat) : Int :=
  if n ≥ 1 ∧ u ≥ 2 ^ (n - 1) then (u : Int) - (2 : Int) ^ n else (u : Int)

/-! ## start-bit notations (C08) -/

/-- numbering in which a position is expressed -/
inductive Numbering | lsb0 | msb0
  deriving DecidableEq, Repr

/-- `bit_numbering` switch: `none` = "consistent with the byte order" -/
def numberingOf (little : Bool) : Option Bool → Numbering
  | some true => .lsb0
  | some false => .msb0
  | none => if little then .lsb0 else .msb0

def expressIn (n : Numbering) (phys : Nat) : Nat :=
  match n with
  | .lsb0 => phys
  | .msb0 => flipN phys

/-- physical address of the bit a position refers to: for Intel always the least significant
bit; for Motorola the most significant bit, or (with `start_little`) the least significant one,
reached by walking the sawtooth `size-1` steps from the most significant bit. -/
def anchorPhys (little : Bool) (internal size : Nat) (sl : Bool) : Nat :=
  if little then internal
  else if sl then sawWalk (size - 1) (flipN internal) else flipN internal

/-- what `get_startbit` must return -/
def specGetStartbit (little : Bool) (size internal : Nat) (bn : Option Bool) (sl : Bool) : Nat :=
  expressIn (numberingOf little bn) (anchorPhys little internal size sl)

end CanVerif
