import CanVerif.Proofs.DbcTablesRT
/-!
# The file as `dump` writes it, line for line: header, empty lines between the sections
-/
namespace CanVerif.Dbc.FileProofs
open CanVerif CanVerif.Dbc CanVerif.Num

def isGap : FileStmt → Bool
  | .one .gap => true
  | _ => false

theorem okFile_filter_gaps (l : List FileStmt) (m : RMatrix) : okFile m l = okFile m (l.filter fun s => !isGap s) := by
  induction l generalizing m with
  | nil => rfl
  | cons s r ih =>
    by_cases hg : isGap s = true
    · have : s = .one .gap := by
        cases s with
        | one st => cases st <;> simp_all [isGap]
        | cm h t => simp [isGap] at hg
      subst this
      have e1 : (List.filter (fun s => !isGap s) (FileStmt.one Stmt.gap :: r)) = List.filter (fun s => !isGap s) r := by
        rw [List.filter_cons]; rfl
      rw [e1, ← ih]
      rfl
    · have hg' : isGap s = false := by simpa using hg
      simp only [List.filter_cons, hg', Bool.not_false, if_true, okFile]
      rw [ih]

theorem filter_gap_singleton : ([gapStmt].filter fun s => !isGap s) = [] := rfl

theorem filterMap_gap : [gapStmt].filterMap FileStmt.toItem = [] := rfl

def stmtsAx (es : List WEcu) (fs : List WFrame) : List FileStmt :=
  fs.flatMap WFrame.txStmts ++ fs.flatMap WFrame.cmStmts ++ [gapStmt] ++ fs.flatMap WFrame.sigCmStmts ++ [gapStmt] ++ ecuCmStmts es ++ [gapStmt]
def stmtsBx (es : List WEcu) (ds : List DefLine) (dds : List DefDefLine) (ga : List (Str × Str)) : List FileStmt :=
  defStmts ds ++ defdefStmts dds ++ ecuBaStmts es ++ [gapStmt] ++ globalBaStmts ga ++ [gapStmt]
def stmtsFx (fs : List WFrame) : List FileStmt :=
  fs.flatMap WFrame.baStmts ++ [gapStmt] ++ fs.flatMap WFrame.sigBaStmts ++ [gapStmt]

theorem stmtsAx_filter (es : List WEcu) (fs : List WFrame) :
    (stmtsAx es fs).filter (fun s => !isGap s) = (stmtsA es fs).filter (fun s => !isGap s) := by
  simp only [stmtsAx, stmtsA, List.filter_append, filter_gap_singleton, List.append_nil]
theorem stmtsBx_filter (es : List WEcu) (ds : List DefLine) (dds : List DefDefLine) (ga : List (Str × Str)) :
    (stmtsBx es ds dds ga).filter (fun s => !isGap s) = (stmtsB es ds dds ga).filter (fun s => !isGap s) := by
  simp only [stmtsBx, stmtsB, List.filter_append, filter_gap_singleton, List.append_nil]
theorem stmtsFx_filter (fs : List WFrame) : (stmtsFx fs).filter (fun s => !isGap s) = (stmtsF fs).filter (fun s => !isGap s) := by
  simp only [stmtsFx, stmtsF, List.filter_append, filter_gap_singleton, List.append_nil]

theorem stmtsAx_items (es : List WEcu) (ps : List (WFrame × (Nat × Bool))) :
    (stmtsAx es (ps.map (·.1))).filterMap FileStmt.toItem = itemsA es ps := by
  rw [← stmtsA_items]
  simp only [stmtsAx, stmtsA, List.filterMap_append, filterMap_gap, List.append_nil]
theorem stmtsBx_items (es : List WEcu) (ds : List DefLine) (dds : List DefDefLine) (ga : List (Str × Str)) :
    (stmtsBx es ds dds ga).filterMap FileStmt.toItem = itemsB es ds dds ga := by
  rw [← stmtsB_items]
  simp only [stmtsBx, stmtsB, List.filterMap_append, filterMap_gap, List.append_nil]
theorem stmtsFx_items (ps : List (WFrame × (Nat × Bool))) : (stmtsFx (ps.map (·.1))).filterMap FileStmt.toItem = itemsF ps := by
  rw [← stmtsF_items]
  simp only [stmtsFx, stmtsF, List.filterMap_append, filterMap_gap, List.append_nil]

/-- the header is skipped -/
theorem header_fold : dbcHeader.foldl stepFile {} = {} := by decide +kernel

theorem writeDbc_eq (es : List WEcu) (ts : List WTable) (ds : List DefLine) (dds : List DefDefLine) (ga : List (Str × Str)) (fs : List WFrame) :
    writeDbc es ts ds dds ga fs = dbcHeader ++ [renderBu (es.map (·.name)), []] ++ writeStmts (ts.map fun t => .vt t.line) ++ [[]] ++
      writeFrames (fs.map WFrame.block) ++ [[]] ++ writeFile (stmtsAx es fs ++ (stmtsBx es ds dds ga ++ (stmtsFx fs ++ stmtsC fs))) := rfl

/-- **The round trip through the file as `dump` writes it, line for line.** -/
theorem roundtrip_exact (es : List WEcu) (hes : wfEcus es = true) (ts : List WTable) (hts : wfTables ts = true) (ds : List DefLine) (hds : wfDefs ds = true)
    (dds : List DefDefLine) (hdds : wfDefaults ds dds = true)
    (ga : List (Str × Str)) (hga : wfAttrs (expectDefs ds dds) .global .global ga = true)
    (hea : ∀ e ∈ es, wfAttrs (expectDefs ds dds) .ecu (.ecu e.name) e.attrs = true)
    (ps : List (WFrame × (Nat × Bool))) (hwf : ∀ p ∈ ps, p.1.wf p.2 = true) (hdist : ps.Pairwise fun p q => p.2 ≠ q.2)
    (hfa : ∀ p ∈ ps, p.1.wfA (expectDefs ds dds) = true) :
    (readFile (writeDbc es ts ds dds ga (ps.map (·.1)))).ecus = es.map WEcu.expectA ∧
    (readFile (writeDbc es ts ds dds ga (ps.map (·.1)))).defs = expectDefs ds dds ∧
    (readFile (writeDbc es ts ds dds ga (ps.map (·.1)))).attrs = attrsOf ga ∧
    (readFile (writeDbc es ts ds dds ga (ps.map (·.1)))).frames = ps.map (fun p => p.1.expectA p.2) ∧
    (readFile (writeDbc es ts ds dds ga (ps.map (·.1)))).pending = none ∧
    (readFile (writeDbc es ts ds dds ga (ps.map (·.1)))).errors = 0 ∧
    (readFile (writeDbc es ts ds dds ga (ps.map (·.1)))).tables = ts.map WTable.line := by
  rw [writeDbc_eq]
  unfold readFile
  have hes' := hes
  simp only [wfEcus, Bool.and_eq_true, List.all_eq_true, decide_eq_true_eq] at hes'
  obtain ⟨hall, hnd⟩ := hes'
  have hbuwf : (Stmt.bu (es.map (·.name))).wf = true := by
    simp only [Stmt.wf, List.all_eq_true, Bool.and_eq_true, decide_eq_true_eq]
    intro n hn
    obtain ⟨e, he, rfl⟩ := List.mem_map.mp hn
    exact (hall e he).1
  rw [List.foldl_append, List.foldl_append, List.foldl_append, List.foldl_append, List.foldl_append, List.foldl_append, header_fold]
  have h0 : [renderBu (es.map (·.name)), ([] : Str)].foldl stepFile {} = { ecus := es.map plainEcu } := by
    simp only [List.foldl_cons, List.foldl_nil]
    have := step_stmt {} (.bu (es.map (·.name))) rfl hbuwf
    simp only [Stmt.line] at this
    rw [this, step_skip _ [] rfl (by decide)]
    simp [applyStmt, Stmt.item, applyItem, Item.frameNo, applyCore, plainEcu, Function.comp_def]
  rw [h0]
  simp only [wfTables, Bool.and_eq_true, List.all_eq_true, decide_eq_true_eq] at hts
  have hvt : (writeStmts (ts.map fun t => Stmt.vt t.line)).foldl stepFile { ecus := es.map plainEcu } =
      { ecus := es.map plainEcu, tables := ts.map WTable.line } := by
    rw [read_statements _ (by
      intro s hs
      obtain ⟨tb, htb, rfl⟩ := List.mem_map.mp hs
      exact wfVt_line tb (hts.1 tb htb).1.1 (hts.1 tb htb).1.2) _ rfl]
    have : (ts.map fun t => Stmt.vt t.line).foldl applyStmt { ecus := es.map plainEcu } =
        (ts.map fun t => Item.vt t.line).foldl applyItem { ecus := es.map plainEcu } := by
      rw [List.foldl_map, List.foldl_map]
      rfl
    rw [this]
    have := vt_fold ts [] { ecus := es.map plainEcu } rfl (by simpa using hts.2) (fun tb htb => (hts.1 tb htb).2)
    simpa using this
  rw [hvt]
  have hgap : [([] : Str)].foldl stepFile { ecus := es.map plainEcu, tables := ts.map WTable.line } =
      { ecus := es.map plainEcu, tables := ts.map WTable.line } := by
    simp only [List.foldl_cons, List.foldl_nil]
    exact step_gap _ rfl
  rw [hgap]
  have hblocks : (ps.map (·.1)).map WFrame.block = ps.map fun p => p.1.block := by rw [List.map_map]; rfl
  have hkeys : (ps.map fun p => p.1.block).map (fun b => boKey b.bo) = (ps.map (·.2)).map some := by
    rw [List.map_map, List.map_map]
    apply List.map_congr_left
    intro p hp
    exact (wf_unpack (hwf p hp)).2.1
  have hblk : ∀ b ∈ (ps.map fun p => p.1.block), wfBlock b = true := by
    intro b hb; obtain ⟨p, hp, rfl⟩ := List.mem_map.mp hb; exact (wf_unpack (hwf p hp)).1
  have hA := frames_fold (ps.map fun p => p.1.block) (ps.map (·.2)) { ecus := es.map plainEcu, tables := ts.map WTable.line } rfl hblk hkeys
  have hAt := frames_fold_tables (ps.map fun p => p.1.block) (ps.map (·.2)) { ecus := es.map plainEcu, tables := ts.map WTable.line } rfl hblk hkeys
  have hA' := frames_fold_defs (ps.map fun p => p.1.block) (ps.map (·.2)) { ecus := es.map plainEcu, tables := ts.map WTable.line } rfl hblk hkeys
  rw [hblocks]
  generalize hmA : (writeFrames (ps.map fun p => p.1.block)).foldl stepFile { ecus := es.map plainEcu, tables := ts.map WTable.line } = mA at hA hA' hAt
  obtain ⟨hAf, hAp, hAe, hAerr⟩ := hA
  have hgap2 : [([] : Str)].foldl stepFile mA = mA := by
    simp only [List.foldl_cons, List.foldl_nil]
    exact step_gap _ hAp
  rw [hgap2]
  obtain ⟨hAd, hAa⟩ := hA'
  rw [framesOfBlocks_ps] at hAf
  simp only [List.nil_append] at hAf hAe hAd hAa
  have hAkeys : mA.frames.map (·.key) = ps.map (·.2) := by
    rw [hAf, List.map_map]; rfl
  have hAnames : mA.ecus.map (·.name) = es.map (·.name) := by
    rw [hAe, List.map_map]; rfl
  have huA : KeysUnique mA := by
    unfold KeysUnique
    have : (mA.frames.map (·.key)).Pairwise (· ≠ ·) := by
      rw [hAkeys, List.pairwise_map]; exact hdist
    rwa [List.pairwise_map] at this
  -- the three states
  have hm1 : (stmtsAx es (ps.map (·.1))).foldl FileStmt.apply mA = (itemsA es ps).foldl applyItem mA := by
    rw [apply_eq_items, stmtsAx_items]
  have hm2 : ∀ m, (stmtsBx es ds dds ga).foldl FileStmt.apply m = (itemsB es ds dds ga).foldl applyItem m := by
    intro m; rw [apply_eq_items, stmtsBx_items]
  have hm3 : ∀ m, (stmtsC (ps.map (·.1))).foldl FileStmt.apply m = (itemsC ps).foldl applyItem m := by
    intro m; rw [apply_eq_items, stmtsC_items]
  generalize hm1d : (itemsA es ps).foldl applyItem mA = m1 at hm1
  have h1f : m1.frames = mA.frames.map fun f => (itemsA es ps).foldl (fun acc it => itemUpd it acc) f := by
    rw [← hm1d]; exact frames_after_items' _ mA huA (kindsA es ps)
  have h1e : m1.ecus = es.map WEcu.expect := by rw [← hm1d]; exact ecusA es hnd ps mA hAe
  have h1d : m1.defs = [] ∧ m1.attrs = [] := by
    have := items_defs (itemsA es ps) mA (kindsA es ps)
    rw [hm1d] at this
    exact ⟨this.1.trans hAd, this.2.trans hAa⟩
  have h1p : m1.pending = none := by
    rw [← hm1d]
    apply fold_pending _ mA hAp
    intro it hit hd first e
    subst e
    rcases kindsA es ps _ hit with h | h
    · simp [itemFrameUpd] at h
    · simp [isEcuItem] at h
  have h2 := stateB es hnd ds hds dds (wfDefaults_ok ds dds hdds) ga hga hea m1 h1d.1 h1d.2 h1e
  generalize hm2d : (itemsB es ds dds ga).foldl applyItem m1 = m2 at h2
  have h1keys : m1.frames.map (·.key) = ps.map (·.2) := by
    rw [h1f, List.map_map, ← hAkeys]
    apply List.map_congr_left
    intro f _
    simp only [Function.comp_apply]
    exact fold_key _ f
  have hu1 : KeysUnique m1 := keysUnique_of_keys mA m1 (by rw [h1keys, hAkeys]) huA
  have hu2 : KeysUnique m2 := keysUnique_of_keys m1 m2 (by rw [h2]) hu1
  -- the attribute statements of frames and signals
  have hm2f : ∀ m, (stmtsFx (ps.map (·.1))).foldl FileStmt.apply m = (itemsF ps).foldl applyItem m := by
    intro m; rw [apply_eq_items, stmtsFx_items]
  have hallF : ∀ it ∈ itemsF ps, isFrameBa it = true ∧ baOk m2.defs it = true := by
    intro it hit
    have hd2 : m2.defs = expectDefs ds dds := by rw [h2]
    rw [hd2]
    simp only [itemsF, List.mem_append, List.mem_flatMap] at hit
    rcases hit with ⟨p, hp, h⟩ | ⟨p, hp, h⟩
    · obtain ⟨kv, hkv, rfl⟩ := List.mem_map.mp h
      have := hfa p hp
      simp only [WFrame.wfA, wfAttrs, Bool.and_eq_true, List.all_eq_true] at this
      exact ⟨rfl, (this.1 kv hkv).2⟩
    · obtain ⟨s, hs, h'⟩ := List.mem_flatMap.mp h
      obtain ⟨kv, hkv, rfl⟩ := List.mem_map.mp h'
      have := hfa p hp
      simp only [WFrame.wfA, wfAttrs, Bool.and_eq_true, List.all_eq_true] at this
      exact ⟨rfl, (this.2 s hs kv hkv).2⟩
  have h3 := ba_fold (itemsF ps) m2 hu2 hallF
  generalize hm3d : (itemsF ps).foldl applyItem m2 = m3 at h3
  obtain ⟨h3f, h3d, h3e, h3a⟩ := h3
  have h2keys : m2.frames.map (·.key) = ps.map (·.2) := by rw [h2]; exact h1keys
  have h3keys : m3.frames.map (·.key) = ps.map (·.2) := by
    rw [h3f, List.map_map, ← h2keys]
    apply List.map_congr_left
    intro f _
    simp only [Function.comp_apply]
    exact fold_keyA _ f
  have hu3 : KeysUnique m3 := keysUnique_of_keys m2 m3 (by rw [h3keys, h2keys]) hu2
  have h2p : m2.pending = none := by rw [h2]; exact h1p
  have h3p : m3.pending = none := by
    rw [← hm3d]
    apply fold_pending _ m2 h2p
    intro it hit hd first e
    subst e
    have := (hallF _ hit).1
    simp [isFrameBa] at this
  -- every statement can be read at its point
  have hokA : okFile mA (stmtsA es (ps.map (·.1))) = true := by
    apply okFile_staticE _ mA huA
    intro s hs
    rw [hAkeys, hAnames]
    simp only [stmtsA, List.mem_append, List.mem_flatMap, List.mem_map] at hs
    rcases hs with ((⟨f, ⟨p, hp, rfl⟩, hsf⟩ | ⟨f, ⟨p, hp, rfl⟩, hsf⟩) | ⟨f, ⟨p, hp, rfl⟩, hsf⟩) | hsf
    · exact staticOkE_of _ _ _ (tx_static p.1 p.2 (hwf p hp) _ s hsf)
    · exact staticOkE_of _ _ _ (cm_static p.1 p.2 (hwf p hp) _ (List.mem_map.mpr ⟨p, hp, rfl⟩) s hsf)
    · exact staticOkE_of _ _ _ (sigcm_static p.1 p.2 (hwf p hp) _ (List.mem_map.mpr ⟨p, hp, rfl⟩) s hsf)
    · unfold ecuCmStmts at hsf
      obtain ⟨e, he, hse⟩ := List.mem_filterMap.mp hsf
      cases hc : e.comment with
      | none => rw [hc] at hse; simp at hse
      | some c =>
        rw [hc] at hse; simp only [Option.map_some, Option.some.injEq] at hse; subst hse
        have := hall e he
        rw [hc] at this
        refine ⟨?_, ?_, List.mem_map.mpr ⟨e, he, rfl⟩⟩
        · simp only [wfCmHead]; exact this.1.1
        · simpa using this.2
  have hokB : okFile m1 (stmtsB es ds dds ga) = true :=
    okFile_ones _ (stmtsB_ones es ds hds dds (wfDefaults_wf ds dds hdds) _ ga hga hea) m1
  have hokF : okFile m2 (stmtsF (ps.map (·.1))) = true := by
    apply okFile_ones
    intro s hs
    simp only [stmtsF, List.mem_append, List.mem_flatMap, List.mem_map] at hs
    rcases hs with ⟨f, ⟨p, hp, rfl⟩, h⟩ | ⟨f, ⟨p, hp, rfl⟩, h⟩
    · obtain ⟨kv, hkv, rfl⟩ := List.mem_map.mp h
      have := hfa p hp
      simp only [WFrame.wfA, wfAttrs, Bool.and_eq_true, List.all_eq_true] at this
      exact ⟨_, rfl, (this.1 kv hkv).1⟩
    · obtain ⟨sg, hsg, h'⟩ := List.mem_flatMap.mp h
      obtain ⟨kv, hkv, rfl⟩ := List.mem_map.mp h'
      have := hfa p hp
      simp only [WFrame.wfA, wfAttrs, Bool.and_eq_true, List.all_eq_true] at this
      exact ⟨_, rfl, (this.2 sg hsg kv hkv).1⟩
  have hokC : okFile m3 (stmtsC (ps.map (·.1))) = true := by
    apply okFile_staticE _ m3 hu3
    intro s hs
    rw [h3keys]
    simp only [stmtsC, List.mem_append, List.mem_flatMap, List.mem_map] at hs
    rcases hs with ((⟨f, ⟨p, hp, rfl⟩, hsf⟩ | ⟨f, ⟨p, hp, rfl⟩, hsf⟩) | ⟨f, ⟨p, hp, rfl⟩, hsf⟩) | ⟨f, ⟨p, hp, rfl⟩, hsf⟩
    · exact staticOkE_of _ _ _ (val_static p.1 p.2 (hwf p hp) _ s hsf)
    · exact staticOkE_of _ _ _ (valtype_static p.1 p.2 (hwf p hp) _ s hsf)
    · exact staticOkE_of _ _ _ (grp_static p.1 p.2 (hwf p hp) _ s hsf)
    · exact staticOkE_of _ _ _ (mul_static p.1 p.2 (hwf p hp) _ s hsf)
  have hokAx : okFile mA (stmtsAx es (ps.map (·.1))) = true := by
    rw [okFile_filter_gaps, stmtsAx_filter, ← okFile_filter_gaps]; exact hokA
  have hokBx : okFile m1 (stmtsBx es ds dds ga) = true := by
    rw [okFile_filter_gaps, stmtsBx_filter, ← okFile_filter_gaps]; exact hokB
  have hokFx : okFile m2 (stmtsFx (ps.map (·.1))) = true := by
    rw [okFile_filter_gaps, stmtsFx_filter, ← okFile_filter_gaps]; exact hokF
  have hok : okFile mA (stmtsAx es (ps.map (·.1)) ++ (stmtsBx es ds dds ga ++ (stmtsFx (ps.map (·.1)) ++ stmtsC (ps.map (·.1))))) = true := by
    rw [okFile_append, okFile_append, okFile_append, hokAx, hm1, hokBx, hm2 m1, hm2d, hokFx, hm2f m2, hm3d, hokC]
    rfl
  rw [read_file _ mA hAp hok, List.foldl_append, List.foldl_append, List.foldl_append, hm1, hm2 m1, hm2d, hm2f m2, hm3d, hm3 m3]
  have h4f := frames_after_items (itemsC ps) m3 hu3 (kindsC ps)
  have h4e := ecus_after_items (itemsC ps) m3 (fun it hit => Or.inl (kindsC ps it hit))
  have h4d := items_defs (itemsC ps) m3 (fun it hit => Or.inl (kindsC ps it hit))
  refine ⟨?_, ?_, ?_, ?_, ?_, ?_, ?_⟩
  · rw [h4e, fold_other_ecus _ (kindsC ps), h3e, h2]
  · rw [h4d.1, h3d, h2]
  · rw [h4d.2, h3a, h2]
  · rw [h4f, h3f, h2]
    simp only
    rw [h1f, hAf, List.map_map, List.map_map, List.map_map]
    apply List.map_congr_left
    intro p hp
    simp only [Function.comp_apply]
    exact per_frameF es ps hwf hdist p hp
  · apply fold_pending _ m3 h3p
    intro it hit hd first e
    subst e
    have := kindsC ps _ hit
    simp [itemFrameUpd] at this
  · -- no line error: every statement finds its frame (and, where it must, its signal), every value is accepted
    have hnumAll : ∀ q ∈ ps, keyOfCompound q.1.bo.id = some q.2 := fun q hq => (wf_unpack (hwf q hq)).2.2.1
    have hPA : Shaped (shapesOf ps) mA := by
      refine ⟨huA, ?_⟩
      rw [hAf, List.map_map]
      apply List.map_congr_left
      intro p _
      simp [sigShape, frameOfBlock, sigsOf, WFrame.block, rereadSg_name, Function.comp_def]
    have e1 : m1.errors = mA.errors ∧ Shaped (shapesOf ps) m1 := by
      rw [← hm1d, itemsA_split, List.foldl_append]
      have a1 := fine_fold _ (itemsA3 ps) mA hPA (itemsA3_fine ps hnumAll mA.defs)
      have a2 := ecu_fold_errors _ (ecuCmItems es) (ecuCmItems_form es) _ a1.2
      exact ⟨a2.1.trans a1.1, a2.2⟩
    have e2 : m2.errors = m1.errors ∧ Shaped (shapesOf ps) m2 := by
      rw [h2]
      exact ⟨rfl, ⟨keysUnique_of_keys m1 _ rfl e1.2.1, e1.2.2⟩⟩
    have e3 : m3.errors = m2.errors ∧ Shaped (shapesOf ps) m3 := by
      rw [← hm3d]
      exact fine_fold _ (itemsF ps) m2 e2.2 (fun it hit => ⟨itemsF_fine ps hnumAll it hit, (hallF it hit).2⟩)
    have e4 := fine_fold _ (itemsC ps) m3 e3.2 (itemsC_fine ps hnumAll m3.defs)
    rw [e4.1, e3.1, e2.1, e1.1, hAerr]
  · -- the value tables are never touched after their section
    have t1 : m1.tables = mA.tables := by rw [← hm1d]; exact items_tables _ mA (kindsA' es ps)
    have t2 : m2.tables = m1.tables := by rw [h2]
    have t3 : m3.tables = m2.tables := by
      rw [← hm3d]
      exact items_tables _ m2 (fun it hit => by
        obtain ⟨b, rfl, hs⟩ := isFrameBa_some it (hallF it hit).1
        exact Or.inl hs)
    have t4 := items_tables (itemsC ps) m3 (fun it hit => Or.inl (by rw [itemFrameUpdA_old it (kindsC ps it hit)]; exact kindsC ps it hit))
    rw [t4, t3, t2, t1, hAt]

end CanVerif.Dbc.FileProofs
