import CanVerif.Model.Glob
/-!
# Model of the option pipeline of `canconvert` (convert.py `convert` ~64-347) on an abstract matrix (C18)

The options are applied in the fixed order of the source, whatever their order on the command line:
selection (`ecus`, `frames`), `renameEcu`, `deleteEcu`, `renameFrame`, `deleteFrame`, `addFrameReceiver`,
`changeFrameId`, `setFrameFd`, `unsetFrameFd`, `skipLongDlc`, `cutLongFrames`, `renameSignal`, `deleteSignal`,
`deleteZeroSignals`, `deleteSignalAttributes`, `deleteFrameAttributes`, `deleteObsoleteEcus`, `recalcDLC`.
Each step transcribes the `CanMatrix` method it calls (first-match lookups, `fnmatch` globs, the `*` prefix and
suffix forms of the rename methods).  Attribute definitions, comments, scaling, value tables are not touched by
these options and are carried outside the model (the correspondence check compares them unchanged).
Bit positions are canmatrix's internal `start_bit` (what `get_startbit()` returns).
-/
namespace CanVerif.Conv
open CanVerif

structure KSig where
  name : String
  start : Nat
  size : Nat
  receivers : List String := []
  attrs : List (String × String) := []
  deriving Repr, DecidableEq, Inhabited

structure KFrame where
  name : String
  id : Nat
  ext : Bool
  size : Nat
  fd : Bool := false
  tx : List String := []
  sigs : List KSig := []
  attrs : List (String × String) := []
  frx : List String := []        -- `Frame.receivers`: a list of its own, recomputed only by `update_receiver`
  deriving Repr, DecidableEq, Inhabited

structure KMat where
  ecus : List String := []
  frames : List KFrame := []
  deriving Repr, DecidableEq, Inhabited

inductive Dir | both | rx | tx
  deriving Repr, DecidableEq, Inhabited

structure Opts where
  ecus : Option (List (String × Dir)) := none
  frames : Option (List String) := none
  renameEcu : Option (List (String × String)) := none
  deleteEcu : Option (List String) := none
  renameFrame : Option (List (String × String)) := none
  deleteFrame : Option (List String) := none
  addFrameReceiver : Option (List (String × String)) := none
  changeFrameId : Option (List (Nat × Nat)) := none
  setFrameFd : Option (List String) := none
  unsetFrameFd : Option (List String) := none
  skipLongDlc : Option Nat := none
  cutLongFrames : Option Nat := none
  renameSignal : Option (List (String × String)) := none
  deleteSignal : Option (List String) := none
  deleteZeroSignals : Bool := false
  deleteSignalAttributes : Option (List String) := none
  deleteFrameAttributes : Option (List String) := none
  deleteObsoleteEcus : Bool := false
  recalcDLC : Option Bool := none      -- some true = force, some false = max
  deriving Repr, DecidableEq, Inhabited

/-! ## small list helpers -/

def addUnique (l : List String) (x : String) : List String := if l.contains x then l else l ++ [x]

/-- what `Frame.update_receiver` computes: the receivers of the frame's signals -/
def frameReceivers (f : KFrame) : List String := (f.sigs.flatMap (·.receivers)).foldl addUnique []

def refresh (f : KFrame) : KFrame := { f with frx := frameReceivers f }

/-- first frame with the name (`frame_by_name`) replaced by `g f`; all others unchanged -/
def updFirst (fs : List KFrame) (name : String) (g : KFrame → KFrame) : List KFrame :=
  match fs with
  | [] => []
  | f :: t => if f.name == name then g f :: t else f :: updFirst t name g

/-- first frame with the name removed (`del_frame(name)`) -/
def delFirst (fs : List KFrame) (name : String) : List KFrame :=
  match fs with
  | [] => []
  | f :: t => if f.name == name then t else f :: delFirst t name

/-! ## the rename pattern forms -/

/-- `rename_frame`: `old` ending in `*` renames a prefix, `old` starting with `*` renames a suffix, otherwise the
whole name; the two `if`s are independent, the exact comparison is the `elif` of the second -/
def renameFrameName (old new name : String) : String :=
  let o := old.toList
  let n := name.toList
  let n1 : List Char :=
    if o.getLast? == some '*' then
      let pl := o.length - 1
      if n.take pl == o.dropLast then new.toList ++ n.drop pl else n
    else n
  if o.head? == some '*' then
    let sl := o.length - 1
    -- Python `name[-sl:]`: the last `sl` characters; for `sl = 0` the whole name
    let tail := if sl == 0 then n1 else n1.drop (n1.length - sl)
    if tail == o.drop 1 then String.ofList ((if sl == 0 then [] else n1.take (n1.length - sl)) ++ new.toList) else String.ofList n1
  else if String.ofList n1 == old then new else String.ofList n1

/-- `rename_signal` for one signal name: prefix form, `elif` suffix form, else exact (first signal of that name per frame) -/
def renameSigPattern (old new name : String) : String :=
  let o := old.toList
  let n := name.toList
  if o.getLast? == some '*' then
    let pl := o.length - 1
    if n.take pl == o.dropLast then String.ofList (new.toList ++ n.drop pl) else name
  else if o.head? == some '*' then
    let sl := o.length - 1
    let tail := if sl == 0 then n else n.drop (n.length - sl)
    if tail == o.drop 1 then String.ofList ((if sl == 0 then [] else n.take (n.length - sl)) ++ new.toList) else name
  else name

def renameFirstSig (ss : List KSig) (old new : String) : List KSig :=
  match ss with
  | [] => []
  | s :: t => if s.name == old then { s with name := new } :: t else s :: renameFirstSig t old new

def renameSignalIn (old new : String) (f : KFrame) : KFrame :=
  let o := old.toList
  if o.getLast? == some '*' || o.head? == some '*' then
    { f with sigs := f.sigs.map fun s => { s with name := renameSigPattern old new s.name } }
  else { f with sigs := renameFirstSig f.sigs old new }

/-! ## the steps -/

def renameEcu1 (m : KMat) (old new : String) : KMat :=
  if !m.ecus.contains old then m else
  let rec firstRen : List String → List String
    | [] => []
    | e :: t => if e == old then new :: t else e :: firstRen t
  let ren (l : List String) : List String := if l.contains old then addUnique (l.erase old) new else l
  { ecus := firstRen m.ecus,
    frames := m.frames.map fun f => refresh { f with tx := ren f.tx, sigs := f.sigs.map fun s => { s with receivers := ren s.receivers } } }

/-- `del_ecu(glob)`: every ECU matching the pattern is removed from the matrix, the senders and the receivers -/
def deleteEcu1 (m : KMat) (pat : String) : KMat :=
  let gone := m.ecus.filter (globMatch pat ·)
  gone.foldl (fun m e =>
    if !m.ecus.contains e then m else
    { ecus := m.ecus.erase e,
      frames := m.frames.map fun f => refresh { f with tx := f.tx.erase e, sigs := f.sigs.map fun s => { s with receivers := s.receivers.erase e } } }) m

def addFrameReceiver1 (m : KMat) (pat ecu : String) : KMat :=
  { m with frames := m.frames.map fun f =>
      if globMatch pat f.name then refresh { f with sigs := f.sigs.map fun s => { s with receivers := addUnique s.receivers ecu } } else f }

/-- the first frame with this identifier number (standard or extended) gets the new number -/
def changeFrameId1 (m : KMat) (old new : Nat) : KMat :=
  let rec go : List KFrame → List KFrame
    | [] => []
    | f :: t => if f.id == old then { f with id := new } :: t else f :: go t
  { m with frames := go m.frames }

def sigEnd (s : KSig) : Nat := s.start + s.size

/-- `max over signals of get_startbit() + size`, in bytes -/
def neededBytes (f : KFrame) : Nat := ((f.sigs.map sigEnd).foldl max 0 + 7) / 8

def cutLong (t : Nat) (f : KFrame) : KFrame :=
  if f.size > t then
    let kept := f.sigs.filter fun s => !(sigEnd s > t * 8)
    let f1 := { f with sigs := kept, size := 0 }
    { f1 with size := max 0 (neededBytes f1) }
  else f

def recalc (force : Bool) (f : KFrame) : KFrame :=
  if force then { f with size := neededBytes f } else { f with size := max f.size (neededBytes f) }

def delAttrs (names : List String) (a : List (String × String)) : List (String × String) := a.filter fun kv => !names.contains kv.1

def usedEcus (m : KMat) : List String := m.frames.flatMap fun f => f.tx ++ f.sigs.flatMap (·.receivers)

/-- `delete_obsolete_ecus` also counts the frames' own receiver lists -/
def usedEcusWithFrx (m : KMat) : List String := m.frames.flatMap fun f => f.tx ++ f.frx ++ f.sigs.flatMap (·.receivers)

/-- `--frames`: the named frames of the source, in the order of the option, a frame (identifier) only once -/
def selectFrames (src : KMat) (names : List String) (acc : KMat) : Option KMat :=
  names.foldlM (fun (t : KMat) n =>
    match src.frames.find? (·.name == n) with
    | none => none                                   -- `frame_to_copy` is None: AttributeError
    | some f =>
      if t.frames.any (fun g => g.id == f.id && g.ext == f.ext) then some t
      else
        let refs := (f.tx ++ f.sigs.flatMap (·.receivers)).filter src.ecus.contains
        some { ecus := refs.foldl addUnique t.ecus, frames := t.frames ++ [f] }) acc

/-- `copy.delete_indirect_ecus(target, wanted)`: an ECU stays if it is wanted or sends a frame of the target; the others
are removed from the ECU list and from every receiver list -/
def pruneIndirect (m : KMat) (wanted : List String) : KMat :=
  let gone := m.ecus.filter fun e => !wanted.contains e && !(m.frames.any fun f => f.tx.contains e)
  gone.foldl (fun m e =>
    { ecus := m.ecus.erase e,
      frames := m.frames.map fun f => refresh { f with tx := f.tx.erase e, sigs := f.sigs.map fun s => { s with receivers := s.receivers.erase e } } }) m

/-- `--ecus`: `copy_ecu_with_frames(glob, source, target, rx, tx, direct_ecu_only=False)` per item, then one clean-up with
all selected ECUs -/
def selectEcus (src : KMat) (items : List (String × Dir)) : KMat :=
  let copied := items.foldl (fun (t : KMat) (it : String × Dir) =>
    let ecuList := src.ecus.filter (globMatch it.1 ·)
    let t1 := ecuList.foldl (fun (t : KMat) e =>
      let t0 : KMat := { t with ecus := addUnique t.ecus e }
      let copy (t : KMat) (f : KFrame) : KMat :=
        if t.frames.any (fun g => g.id == f.id && g.ext == f.ext) then t
        else
          let refs := (f.tx ++ f.sigs.flatMap (·.receivers)).filter src.ecus.contains
          { ecus := refs.foldl addUnique t.ecus, frames := t.frames ++ [f] }
      let a := if it.2 != .rx then (src.frames.filter fun f => f.tx.contains e).foldl copy t0 else t0
      if it.2 != .tx then (src.frames.filter fun f => f.sigs.any fun s => s.receivers.contains e).foldl copy a else a) t
    { t1 with ecus := (usedEcus t1).foldl addUnique t1.ecus }) {}
  pruneIndirect copied (items.flatMap fun it => src.ecus.filter (globMatch it.1 ·))

/-- the pipeline; `none` = the converter raises -/
def convert (o : Opts) (m0 : KMat) : Option KMat := do
  let sel : Option KMat := o.ecus.map (selectEcus m0)
  let sel2 : Option KMat ← match o.frames with
    | none => pure sel
    | some names => (selectFrames m0 names (sel.getD {})).map some
  let m := sel2.getD m0
  -- (the input matrix comes from a reader, which ends with `update_receiver` on every frame)
  let m : KMat := { m with frames := m.frames.map fun f => if f.frx.isEmpty then refresh f else f }
  let m := (o.renameEcu.getD []).foldl (fun m p => renameEcu1 m p.1 p.2) m
  let m := (o.deleteEcu.getD []).foldl deleteEcu1 m
  let m := (o.renameFrame.getD []).foldl (fun (m : KMat) p => { m with frames := m.frames.map fun f => { f with name := renameFrameName p.1 p.2 f.name } }) m
  let m := (o.deleteFrame.getD []).foldl (fun (m : KMat) n => { m with frames := delFirst m.frames n }) m
  let m := (o.addFrameReceiver.getD []).foldl (fun m p => addFrameReceiver1 m p.1 p.2) m
  let m := (o.changeFrameId.getD []).foldl (fun m p => changeFrameId1 m p.1 p.2) m
  let m := (o.setFrameFd.getD []).foldl (fun (m : KMat) n => { m with frames := updFirst m.frames n fun f => { f with fd := true } }) m
  let m := (o.unsetFrameFd.getD []).foldl (fun (m : KMat) n => { m with frames := updFirst m.frames n fun f => { f with fd := false } }) m
  let m : KMat := match o.skipLongDlc with
    | some t => { m with frames := m.frames.filter fun f => !(f.size > t) }
    | none => m
  let m : KMat := match o.cutLongFrames with
    | some t => { m with frames := m.frames.map (cutLong t) }
    | none => m
  let m := (o.renameSignal.getD []).foldl (fun (m : KMat) p => { m with frames := m.frames.map (renameSignalIn p.1 p.2) }) m
  let m := (o.deleteSignal.getD []).foldl (fun (m : KMat) pat =>
    { m with frames := m.frames.map fun f => { f with sigs := f.sigs.filter fun s => !globMatch pat s.name } }) m
  let m : KMat := if o.deleteZeroSignals then { m with frames := m.frames.map fun f => { f with sigs := f.sigs.filter (·.size != 0) } } else m
  let m : KMat := match o.deleteSignalAttributes with
    | some ns => { m with frames := m.frames.map fun f => { f with sigs := f.sigs.map fun s => { s with attrs := delAttrs ns s.attrs } } }
    | none => m
  let m : KMat := match o.deleteFrameAttributes with
    | some ns => { m with frames := m.frames.map fun f => { f with attrs := delAttrs ns f.attrs } }
    | none => m
  let m : KMat := if o.deleteObsoleteEcus then { m with ecus := m.ecus.filter (usedEcusWithFrx m).contains } else m
  let m : KMat := match o.recalcDLC with
    | some force => { m with frames := m.frames.map (recalc force) }
    | none => m
  pure m

end CanVerif.Conv
