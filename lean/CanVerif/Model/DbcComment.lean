import CanVerif.Model.DbcAttr
/-!
# Model of the comment statement of a DBC file (C05, C15, C20): `CM_ … "text";` over one or several lines

Writer: formats/dbc.py `create_comment_string`: `CM_ <class> <ident> "` + text with `"` written as `\"` + `";` - a text with line
breaks therefore runs over several lines of the file.
Reader: `load`: on the first line `^CM_ +SG_ +(\S+) +(\S+) +\"(.*)\" *;` (likewise `BO_`, `BU_`) decides whether the comment ends on
that line (greedy: the last `"` that is followed by blanks and a `;`); if not, `^… +\"(.*)` takes the rest of the line (blanks at
its end kept) and the following lines are appended with `\n` until one whose stripped text matches `.*" *;\Z`; then
`comment.rstrip()[:-1].rstrip()[:-1]` removes the `;` and the closing quote.  `\"` is turned back into `"` line by line.
Here: the part of the statement behind the opening quote (the head `CM_ SG_ <id> <name> "` is parsed as in the other statements).
-/
namespace CanVerif.Dbc
open CanVerif

/-- split a text at its line breaks -/
def splitLines (s : Str) : List Str := splitRaw '\n' s

/-- join lines with `\n` -/
def joinLines : List Str → Str
  | [] => []
  | [a] => a
  | a :: b :: r => a ++ '\n' :: joinLines (b :: r)

/-- what the writer puts behind the opening quote, line by line: the text with escaped quotes, then `";` -/
def renderCommentBody (text : Str) : List Str := splitLines (escapeQuotes text ++ ['"', ';'])

/-- does `s` start with blanks followed by a semicolon? (` *;`) -/
def blanksThenSemi (s : Str) : Bool :=
  match s.dropWhile (· == ' ') with
  | ';' :: _ => true
  | _ => false

/-- `\"(.*)\" *;` on the rest of the first line: the text in front of the last `"` that is followed by ` *;` -/
def closeOnLine (s : Str) : Option Str :=
  let rec go (pre : Str) (best : Option Str) : Str → Option Str
    | [] => best
    | c :: r => go (c :: pre) (if c == '"' && blanksThenSemi r then some pre.reverse else best) r
  go [] none s

/-- `re.match(r'.*" *;\Z', stripped line)`: the stripped line ends in `"`, blanks, `;` -/
def endsStatement (line : Str) : Bool :=
  match (stripWs line).reverse with
  | ';' :: r => (match r.dropWhile (· == ' ') with
    | '"' :: _ => true
    | _ => false)
  | _ => false

/-- `str.rstrip()` -/
def rstrip (s : Str) : Str := (s.reverse.dropWhile isBlank).reverse

/-- `comment.rstrip()[:-1].rstrip()[:-1]` -/
def dropClosing (s : Str) : Str := (rstrip (rstrip s).dropLast).dropLast

/-- the follow-up lines: appended until one ends the statement; `none` when the file ends first -/
def followUp (acc : Str) : List Str → Option Str
  | [] => none
  | l :: rest =>
    let acc' := acc ++ '\n' :: unescapeQuotes l
    if endsStatement l then some (dropClosing acc') else followUp acc' rest

/-- blanks at the end of a line removed (the line is stripped as a whole: what stands behind the opening quote loses nothing on the left) -/
def rstripWs (s : Str) : Str := (s.reverse.dropWhile isWs).reverse

/-- the reader on the lines of a comment statement, `first` being the rest of the first line behind the opening quote
(with the blanks at its end; the one-line test is made on the stripped line) -/
def readCommentBody (first : Str) (rest : List Str) : Option Str :=
  match closeOnLine (rstripWs first) with
  | some t => some (unescapeQuotes t)
  | none => followUp (unescapeQuotes first) rest

def quoteThenSemi : Str → Bool
  | [] => false
  | c :: r => (c == '"' && blanksThenSemi r) || quoteThenSemi r

/-- A text the statement can carry.  On one line: every text without a carriage return.  Over several lines, in addition: the first
line holds no quote that is followed (after blanks) by a semicolon - the reader would take it for the end of a one-line comment (known
finding C05-comment-quote-semicolon); no line in the middle ends that way; and the text does not end in a backslash (the writer
does not escape backslashes, so `\` in front of the closing quote reads as an escaped quote on a follow-up line). -/
def wfComment (t : Str) : Bool :=
  !t.contains '\r' && !t.isEmpty &&
  match splitLines t with
  | first :: second :: more =>
    !quoteThenSemi first && ((second :: more).dropLast.all fun l => !endsStatement (escapeQuotes l)) && t.getLast? != some '\\'
  | _ => true

end CanVerif.Dbc
