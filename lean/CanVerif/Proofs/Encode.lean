import CanVerif.Model.Codec
import CanVerif.Spec.Bits
import CanVerif.Proofs.Codec
import CanVerif.Props.C01
/-! helper lemmas for C02: the encoder (`Frame.signalsToBytes`) writes exactly the supplied bits -/
namespace CanVerif

/-! ## slice assignment -/

theorem sliceAssign_length (l v : List α) (a : Nat) (h : a + v.length ≤ l.length) :
    (sliceAssign l a (a + v.length) v).length = l.length := by
  simp [sliceAssign]; omega

theorem sliceAssign_get (l v : List α) (a j : Nat) (h : a + v.length ≤ l.length) :
    (sliceAssign l a (a + v.length) v)[j]?
      = if a ≤ j ∧ j < a + v.length then v[j - a]? else l[j]? := by
  unfold sliceAssign
  have hta : (l.take a).length = a := by simp; omega
  by_cases h1 : j < a
  · rw [List.append_assoc, List.getElem?_append_left (by omega)]
    have : ¬ (a ≤ j ∧ j < a + v.length) := by omega
    simp [this, h1]
  · by_cases h2 : j < a + v.length
    · rw [List.getElem?_append_left (by simp; omega), List.getElem?_append_right (by omega), hta]
      simp [h2, Nat.le_of_not_lt h1]
    · rw [List.getElem?_append_right (by simp; omega)]
      have : ¬ (a ≤ j ∧ j < a + v.length) := by omega
      simp only [this, if_false, List.getElem?_drop, List.length_append, hta]
      congr 1; omega

/-- a sequence of slice assignments `(position, content)` -/
def applyWrites (l : List α) (ws : List (Nat × List α)) : List α :=
  ws.foldl (fun l w => sliceAssign l w.1 (w.1 + w.2.length) w.2) l

theorem applyWrites_length (ws : List (Nat × List α)) (l : List α)
    (h : ∀ w ∈ ws, w.1 + w.2.length ≤ l.length) : (applyWrites l ws).length = l.length := by
  induction ws generalizing l with
  | nil => rfl
  | cons w t ih =>
    have hw := h w (by simp)
    have hl := sliceAssign_length l w.2 w.1 hw
    show (applyWrites (sliceAssign l w.1 (w.1 + w.2.length) w.2) t).length = _
    rw [ih _ (fun w' hw' => by rw [hl]; exact h w' (by simp [hw'])), hl]

theorem applyWrites_untouched (ws : List (Nat × List α)) (l : List α) (j : Nat)
    (h : ∀ w ∈ ws, w.1 + w.2.length ≤ l.length)
    (hj : ∀ w ∈ ws, ¬ (w.1 ≤ j ∧ j < w.1 + w.2.length)) : (applyWrites l ws)[j]? = l[j]? := by
  induction ws generalizing l with
  | nil => rfl
  | cons w t ih =>
    have hw := h w (by simp)
    have hl := sliceAssign_length l w.2 w.1 hw
    show (applyWrites (sliceAssign l w.1 (w.1 + w.2.length) w.2) t)[j]? = _
    rw [ih _ (fun w' hw' => by rw [hl]; exact h w' (by simp [hw'])) (fun w' hw' => hj w' (by simp [hw'])),
      sliceAssign_get _ _ _ _ hw, if_neg (hj w (by simp))]

/-- two writes touch no common index -/
def disjW (w w' : Nat × List α) : Prop :=
  ∀ x y, x < w.2.length → y < w'.2.length → w.1 + x ≠ w'.1 + y

theorem applyWrites_written (ws : List (Nat × List α)) (l : List α)
    (h : ∀ w ∈ ws, w.1 + w.2.length ≤ l.length) (hp : ws.Pairwise disjW)
    (w : Nat × List α) (hw : w ∈ ws) (t : Nat) (ht : t < w.2.length) :
    (applyWrites l ws)[w.1 + t]? = w.2[t]? := by
  induction ws generalizing l with
  | nil => simp at hw
  | cons w0 rest ih =>
    have hw0 := h w0 (by simp)
    have hl := sliceAssign_length l w0.2 w0.1 hw0
    have hfit : ∀ w' ∈ rest, w'.1 + w'.2.length ≤ (sliceAssign l w0.1 (w0.1 + w0.2.length) w0.2).length :=
      fun w' hw' => by rw [hl]; exact h w' (by simp [hw'])
    rw [List.pairwise_cons] at hp
    show (applyWrites (sliceAssign l w0.1 (w0.1 + w0.2.length) w0.2) rest)[w.1 + t]? = _
    rcases List.mem_cons.1 hw with rfl | hw'
    · rw [applyWrites_untouched rest _ _ hfit, sliceAssign_get _ _ _ _ hw0]
      · have : w.1 ≤ w.1 + t ∧ w.1 + t < w.1 + w.2.length := by omega
        rw [if_pos this]; congr 1; omega
      · intro w' hw' hc
        exact hp.1 w' hw' t (w.1 + t - w'.1) ht (by omega) (by omega)
    · exact ih _ hfit hp.2 hw'

/-! ## chunking into bytes and reversing the byte order -/

theorem chunk8_length (n : Nat) (l : List α) : (chunk8 n l).length = n := by
  induction n generalizing l with
  | zero => rfl
  | succ k ih => simp [chunk8, ih]

theorem chunk8_get (n m : Nat) (l : List α) (hm : m < n) :
    (chunk8 n l)[m]? = some ((l.drop (8 * m)).take 8) := by
  induction n generalizing l m with
  | zero => omega
  | succ k ih =>
    cases m with
    | zero => simp [chunk8]
    | succ m' =>
      simp only [chunk8, List.getElem?_cons_succ]
      rw [ih _ _ (by omega), List.drop_drop]
      congr 3; omega

theorem reverseGroups_succ (n : Nat) (l : List α) :
    reverseGroups (n + 1) l = reverseGroups n (l.drop 8) ++ l.take 8 := by
  simp [reverseGroups, chunk8]

theorem reverseGroups_length (n : Nat) (l : List α) (h : l.length = 8 * n) :
    (reverseGroups n l).length = 8 * n := by
  induction n generalizing l with
  | zero => simp [reverseGroups, chunk8]
  | succ k ih =>
    rw [reverseGroups_succ, List.length_append, ih _ (by simp; omega)]
    simp; omega

theorem reverseGroups_get (n : Nat) (l : List α) (j : Nat) (h : l.length = 8 * n) (hj : j < 8 * n) :
    (reverseGroups n l)[j]? = l[8 * (n - 1 - j / 8) + j % 8]? := by
  induction n generalizing l with
  | zero => omega
  | succ k ih =>
    have hlen := reverseGroups_length k (l.drop 8) (by simp; omega)
    rw [reverseGroups_succ]
    by_cases hjk : j < 8 * k
    · rw [List.getElem?_append_left (by omega), ih _ (by simp; omega) hjk, List.getElem?_drop]
      congr 1; omega
    · rw [List.getElem?_append_right (by omega), hlen, List.getElem?_take]
      rw [if_pos (by omega)]
      congr 1; omega

/-! ## bits of numbers -/

theorem specSum_testBit (f : Nat → Bool) (n i : Nat) (hi : i < n) : (specSum f n).testBit i = f i := by
  induction n with
  | zero => omega
  | succ m ih =>
    simp only [specSum]
    rw [Nat.add_comm, Nat.mul_comm, Nat.testBit_two_pow_mul_add _ (specSum_lt f m)]
    by_cases him : i < m
    · simp [him, ih him]
    · have : i = m := by omega
      subst this
      cases f i <;> simp

theorem specSum_testBit_eq_mod (x n : Nat) : specSum (fun i => x.testBit i) n = x % 2 ^ n := by
  apply Nat.eq_of_testBit_eq
  intro i
  rw [Nat.testBit_mod_two_pow]
  by_cases hi : i < n
  · simp [hi, specSum_testBit _ _ _ hi]
  · simp only [hi, decide_false, Bool.false_and]
    apply Nat.testBit_lt_two_pow
    exact Nat.lt_of_lt_of_le (specSum_lt _ _) (Nat.pow_le_pow_right (by decide) (by omega))

theorem bitsToNat_lt (l : List Bool) : bitsToNat l < 2 ^ l.length := by
  rw [bitsToNat_spec]; exact specSum_lt _ _

theorem bitsToNat_testBit (l : List Bool) (i : Nat) (hi : i < l.length) :
    (bitsToNat l).testBit i = l.getD (l.length - 1 - i) false := by
  rw [bitsToNat_spec, specSum_testBit _ _ _ hi]

theorem natToBits_length (len n : Nat) : (natToBits len n).length = len := by simp [natToBits]

theorem natToBits_get (len n t : Nat) (ht : t < len) :
    (natToBits len n)[t]? = some (n.testBit (len - 1 - t)) := by
  simp [natToBits, ht]

/-- the bytes built from an MSB0-sequential bit list hold bit `j` at physical address `flipN j` -/
theorem chunkBytes_payloadBit (n : Nat) (m : List Bool) (hm : m.length = 8 * n) (j : Nat) (hj : j < 8 * n) :
    payloadBit ((chunk8 n m).map bitsToNat) (flipN j) = m.getD j false := by
  have h1 : flipN j / 8 = j / 8 := by unfold flipN; omega
  have h2 : flipN j % 8 = 7 - j % 8 := by unfold flipN; omega
  unfold payloadBit
  rw [h1, h2, List.getD_eq_getElem?_getD, List.getElem?_map, chunk8_get _ _ _ (by omega)]
  simp only [Option.map_some, Option.getD_some]
  have hl : ((m.drop (8 * (j / 8))).take 8).length = 8 := by simp; omega
  rw [bitsToNat_testBit _ _ (by omega), hl]
  simp only [List.getD_eq_getElem?_getD, List.getElem?_take, List.getElem?_drop]
  rw [if_pos (by omega)]
  congr 2; omega

theorem chunkBytes_lt (n : Nat) (m : List Bool) (hm : m.length = 8 * n) :
    ∀ b ∈ (chunk8 n m).map bitsToNat, b < 256 := by
  intro b hb
  rw [List.mem_map] at hb
  obtain ⟨c, hc, rfl⟩ := hb
  obtain ⟨i, hi, hget⟩ := List.getElem_of_mem hc
  rw [chunk8_length] at hi
  have := chunk8_get n i m hi
  rw [List.getElem?_eq_getElem (by rw [chunk8_length]; exact hi), hget] at this
  injection this with this
  subst this
  have hl : ((m.drop (8 * i)).take 8).length = 8 := by simp; omega
  have := bitsToNat_lt ((m.drop (8 * i)).take 8)
  rw [hl] at this
  exact this

/-! ## the encoder's fold -/

/-- the number whose low `size` bits are written for raw value `v` -/
def encNat (s : Sig) (v : Int) : Nat :=
  if s.isFloat then v.toNat else ((2 : Int) ^ (s.size + 1) + v).toNat

/-- the raw range (same as `C02.Sig.inRange`) -/
def rangeOK (s : Sig) (v : Int) : Prop :=
  if s.isFloat then 0 ≤ v ∧ v < (2:Int) ^ s.size
  else if s.signed then -((2:Int) ^ (s.size - 1)) ≤ v ∧ v < (2:Int) ^ (s.size - 1)
  else 0 ≤ v ∧ v < (2:Int) ^ s.size

abbrev OB := List (Option Bool)

/-- one iteration of the loop in `signals_to_bytes` -/
def encStep (nbits : Nat) (data : List (String × Int)) (acc : OB × OB) (s : Sig) : Except Err (OB × OB) :=
  match dictGet data s.name with
  | none => pure acc
  | some v =>
    let bits? : Option (List Bool) :=
      if s.isFloat then (if v < 0 then none else some (natToBits s.size v.toNat)) else packBits s.size v
    match bits? with
    | none => throw Err.unmodelled
    | some bits =>
      let ob := bits.map some
      if s.little then
        let least := nbits - s.start
        let most := least - s.size
        pure (sliceAssign acc.1 most least ob, acc.2)
      else
        let most := s.start
        let least := most + s.size
        pure (acc.1, sliceAssign acc.2 most least ob)

/-- the post-processing of `signals_to_bytes` -/
def finish (n : Nat) (lb bb : OB) : List Nat :=
  let lb' := reverseGroups n lb
  let merged : List Bool := (List.zip lb' bb).map fun (l, b) =>
    match l with
    | some x => x
    | none => match b with
      | some y => y
      | none => false
  (chunk8 n merged).map bitsToNat

theorem signalsToBytes_eq (f : Frame) (data : List (String × Int)) :
    f.signalsToBytes data =
      (f.sigs.foldlM (encStep (f.size * 8) data)
        (List.replicate (f.size * 8) none, List.replicate (f.size * 8) none)) >>=
        fun p => pure (finish f.size p.1 p.2) := rfl

/-- the write a signal performs on the little-endian array -/
def wL (N : Nat) (data : List (String × Int)) (s : Sig) : Nat × OB :=
  match dictGet data s.name with
  | some v => if s.little then (N - s.start - s.size, (natToBits s.size (encNat s v)).map some) else (0, [])
  | none => (0, [])

/-- the write a signal performs on the big-endian array -/
def wB (data : List (String × Int)) (s : Sig) : Nat × OB :=
  match dictGet data s.name with
  | some v => if s.little then (0, []) else (s.start, (natToBits s.size (encNat s v)).map some)
  | none => (0, [])

theorem sliceAssign_nil (l : List α) : sliceAssign l 0 (0 + ([] : List α).length) [] = l := by
  simp [sliceAssign]

theorem two_pow_int_pos (n : Nat) : 0 < (2:Int) ^ n := Int.pow_pos (by decide)

theorem rangeOK_nonneg (s : Sig) (v : Int) (h1 : 1 ≤ s.size) (h : rangeOK s v) (hf : s.isFloat = false) :
    ¬ ((2:Int) ^ (s.size + 1) + v < 0) := by
  have e1 : (2:Int) ^ (s.size + 1) = 4 * (2:Int) ^ (s.size - 1) := by
    have : s.size + 1 = (s.size - 1) + 1 + 1 := by omega
    rw [this, Int.pow_succ, Int.pow_succ]; omega
  have e2 : (2:Int) ^ s.size = 2 * (2:Int) ^ (s.size - 1) := by
    have : s.size = (s.size - 1) + 1 := by omega
    rw [this, Int.pow_succ]; simp; omega
  have hp := two_pow_int_pos (s.size - 1)
  unfold rangeOK at h
  rw [e1]
  rw [e2] at h
  simp only [hf, Bool.false_eq_true, if_false] at h
  split at h <;> omega

theorem encStep_ok (N : Nat) (data : List (String × Int)) (acc : OB × OB) (s : Sig)
    (hin : ∀ v, dictGet data s.name = some v → s.start + s.size ≤ N ∧ 1 ≤ s.size ∧ rangeOK s v) :
    encStep N data acc s = .ok
      (sliceAssign acc.1 (wL N data s).1 ((wL N data s).1 + (wL N data s).2.length) (wL N data s).2,
       sliceAssign acc.2 (wB data s).1 ((wB data s).1 + (wB data s).2.length) (wB data s).2) := by
  unfold encStep wL wB
  cases hd : dictGet data s.name with
  | none => simp; rfl
  | some v =>
    obtain ⟨h1, h2, h3⟩ := hin v hd
    have hbits : (if s.isFloat then (if v < 0 then none else some (natToBits s.size v.toNat)) else packBits s.size v)
        = some (natToBits s.size (encNat s v)) := by
      unfold encNat packBits
      by_cases hf : s.isFloat = true
      · have : ¬ v < 0 := by unfold rangeOK at h3; simp only [hf, if_true] at h3; omega
        simp [hf, this]
      · have hf' : s.isFloat = false := by simpa using hf
        have := rangeOK_nonneg s v h2 h3 hf'
        simp [hf', this]
    simp only [hbits]
    by_cases hl : s.little = true
    · simp only [hl, if_true, sliceAssign_nil, List.length_map, natToBits_length]
      have : N - s.start - s.size + s.size = N - s.start := by omega
      rw [this]; rfl
    · simp only [hl, Bool.false_eq_true, if_false, sliceAssign_nil, List.length_map, natToBits_length]
      rfl

theorem encFold_ok (N : Nat) (data : List (String × Int)) (sigs : List Sig) (acc : OB × OB)
    (hin : ∀ s ∈ sigs, ∀ v, dictGet data s.name = some v → s.start + s.size ≤ N ∧ 1 ≤ s.size ∧ rangeOK s v) :
    sigs.foldlM (encStep N data) acc
      = .ok (applyWrites acc.1 (sigs.map (wL N data)), applyWrites acc.2 (sigs.map (wB data))) := by
  induction sigs generalizing acc with
  | nil => rfl
  | cons s t ih =>
    rw [List.foldlM_cons, encStep_ok N data acc s (hin s (by simp))]
    show List.foldlM (encStep N data) _ t = _
    rw [ih _ (fun s' hs' => hin s' (by simp [hs']))]
    rfl

theorem pairwise_sym_forall {R : α → α → Prop} (hsym : ∀ a b, R a b → R b a) {l : List α}
    (hp : l.Pairwise R) : ∀ a ∈ l, ∀ b ∈ l, a ≠ b → R a b := by
  induction l with
  | nil => intro a ha; simp at ha
  | cons x t ih =>
    rw [List.pairwise_cons] at hp
    intro a ha b hb hne
    rcases List.mem_cons.1 ha with rfl | ha' <;> rcases List.mem_cons.1 hb with rfl | hb'
    · exact absurd rfl hne
    · exact hp.1 b hb'
    · exact hsym _ _ (hp.1 a ha')
    · exact ih hp.2 a ha' b hb' hne

/-- the merge and byte building: the payload bit at address `k` -/
theorem finish_payloadBit (n : Nat) (lb bb : OB) (hl : lb.length = 8 * n) (hb : bb.length = 8 * n)
    (k : Nat) (hk : k < 8 * n) (x y : Option Bool)
    (hx : lb[8 * n - 1 - k]? = some x) (hy : bb[flipN k]? = some y) :
    payloadBit (finish n lb bb) k = x.getD (y.getD false) := by
  have hf : flipN k < 8 * n := flipN_lt hk
  have hlen' := reverseGroups_length n lb hl
  have hx' : (reverseGroups n lb)[flipN k]? = some x := by
    rw [reverseGroups_get n lb _ hl hf, ← hx]
    congr 1; unfold flipN; omega
  unfold finish
  simp only []
  rw [← flipN_flipN k]
  rw [chunkBytes_payloadBit n _ (by simp [hlen', hb]) _ hf]
  have hz : (List.zip (reverseGroups n lb) bb)[flipN k]? = some (x, y) :=
    List.getElem?_zip_eq_some.2 ⟨hx', hy⟩
  rw [List.getD_eq_getElem?_getD, List.getElem?_map, hz]
  cases x <;> cases y <;> rfl

theorem finish_length (n : Nat) (lb bb : OB) : (finish n lb bb).length = n := by
  simp [finish, chunk8_length]

theorem finish_lt (n : Nat) (lb bb : OB) (hl : lb.length = 8 * n) (hb : bb.length = 8 * n) :
    ∀ b ∈ finish n lb bb, b < 256 := by
  have hlen' := reverseGroups_length n lb hl
  exact chunkBytes_lt n _ (by simp [hlen', hb])

theorem payloadBit_out (p : List Nat) (k : Nat) (h : 8 * p.length ≤ k) : payloadBit p k = false := by
  unfold payloadBit
  rw [List.getD_eq_getElem?_getD, List.getElem?_eq_none (by omega)]
  simp

/-! ## what the fold leaves in the two arrays -/

/-- hypotheses on the supplied signals (8·n bits) -/
structure StbHyp (n : Nat) (sigs : List Sig) (data : List (String × Int)) : Prop where
  ok : ∀ s ∈ sigs, ∀ v, dictGet data s.name = some v → s.start + s.size ≤ 8 * n ∧ 1 ≤ s.size ∧ rangeOK s v
  disjoint : sigs.Pairwise fun s t => (dictGet data s.name).isSome = true → (dictGet data t.name).isSome = true →
    ∀ i j, i < s.size → j < t.size →
      sigAddr s.little s.start s.size i ≠ sigAddr t.little t.start t.size j

theorem StbHyp.disj {n : Nat} {sigs : List Sig} {data : List (String × Int)} (h : StbHyp n sigs data)
    (s : Sig) (hs : s ∈ sigs) (t : Sig) (ht : t ∈ sigs) (hne : s ≠ t) (v w : Int)
    (hv : dictGet data s.name = some v) (hw : dictGet data t.name = some w)
    (i j : Nat) (hi : i < s.size) (hj : j < t.size) :
    sigAddr s.little s.start s.size i ≠ sigAddr t.little t.start t.size j := by
  have := pairwise_sym_forall (R := fun s t => (dictGet data s.name).isSome = true → (dictGet data t.name).isSome = true →
    ∀ i j, i < s.size → j < t.size →
      sigAddr s.little s.start s.size i ≠ sigAddr t.little t.start t.size j)
    (fun a b hab h1 h2 i j hi hj heq => hab h2 h1 j i hj hi heq.symm) h.disjoint s hs t ht hne
  exact this (by simp [hv]) (by simp [hw]) i j hi hj

theorem wL_eq (N : Nat) (data : List (String × Int)) (s : Sig) :
    wL N data s = (0, []) ∨ ∃ v, dictGet data s.name = some v ∧ s.little = true ∧
      wL N data s = (N - s.start - s.size, (natToBits s.size (encNat s v)).map some) := by
  unfold wL
  cases hd : dictGet data s.name with
  | none => left; rfl
  | some v =>
    by_cases hl : s.little = true
    · right; exact ⟨v, rfl, hl, by simp [hl]⟩
    · left; simp [hl]

theorem wB_eq (data : List (String × Int)) (s : Sig) :
    wB data s = (0, []) ∨ ∃ v, dictGet data s.name = some v ∧ s.little = false ∧
      wB data s = (s.start, (natToBits s.size (encNat s v)).map some) := by
  unfold wB
  cases hd : dictGet data s.name with
  | none => left; rfl
  | some v =>
    by_cases hl : s.little = true
    · left; simp [hl]
    · right; exact ⟨v, rfl, by simpa using hl, by simp [hl]⟩

section fold
variable {n : Nat} {sigs : List Sig} {data : List (String × Int)}

theorem wL_fit (h : StbHyp n sigs data) (l : OB) (hl : l.length = 8 * n) :
    ∀ w ∈ sigs.map (wL (8 * n) data), w.1 + w.2.length ≤ l.length := by
  intro w hw
  obtain ⟨s, hs, rfl⟩ := List.mem_map.1 hw
  rcases wL_eq (8 * n) data s with e | ⟨v, hv, _, e⟩
  · rw [e]; simp
  · rw [e]; have := (h.ok s hs v hv).1
    simp [natToBits_length]; omega

theorem wB_fit (h : StbHyp n sigs data) (l : OB) (hl : l.length = 8 * n) :
    ∀ w ∈ sigs.map (wB data), w.1 + w.2.length ≤ l.length := by
  intro w hw
  obtain ⟨s, hs, rfl⟩ := List.mem_map.1 hw
  rcases wB_eq data s with e | ⟨v, hv, _, e⟩
  · rw [e]; simp
  · rw [e]; have := (h.ok s hs v hv).1
    simp [natToBits_length]; omega

theorem wL_pairwise (h : StbHyp n sigs data) : (sigs.map (wL (8 * n) data)).Pairwise disjW := by
  rw [List.pairwise_map]
  refine List.Pairwise.imp_of_mem ?_ h.disjoint
  intro s t hs ht hR x y hx hy
  rcases wL_eq (8 * n) data s with e | ⟨v, hv, hls, e⟩
  · rw [e] at hx; simp at hx
  rcases wL_eq (8 * n) data t with e' | ⟨v', hv', hlt, e'⟩
  · rw [e'] at hy; simp at hy
  rw [e] at hx ⊢; rw [e'] at hy ⊢
  simp only [List.length_map, natToBits_length] at hx hy ⊢
  have h1 := (h.ok s hs v hv).1
  have h2 := (h.ok t ht v' hv').1
  have := hR (by simp [hv]) (by simp [hv']) (s.size - 1 - x) (t.size - 1 - y) (by omega) (by omega)
  simp only [sigAddr, hls, hlt, if_true] at this
  omega

theorem wB_pairwise (h : StbHyp n sigs data) : (sigs.map (wB data)).Pairwise disjW := by
  rw [List.pairwise_map]
  refine List.Pairwise.imp_of_mem ?_ h.disjoint
  intro s t hs ht hR x y hx hy
  rcases wB_eq data s with e | ⟨v, hv, hls, e⟩
  · rw [e] at hx; simp at hx
  rcases wB_eq data t with e' | ⟨v', hv', hlt, e'⟩
  · rw [e'] at hy; simp at hy
  rw [e] at hx ⊢; rw [e'] at hy ⊢
  simp only [List.length_map, natToBits_length] at hx hy ⊢
  have h1 := (h.ok s hs v hv).1
  have h2 := (h.ok t ht v' hv').1
  have := hR (by simp [hv]) (by simp [hv']) (s.size - 1 - x) (t.size - 1 - y) (by omega) (by omega)
  simp only [sigAddr, hls, hlt, Bool.false_eq_true, if_false] at this
  intro heq
  apply this
  congr 1; omega

/-- the little-endian array after the loop -/
def lbOf (n : Nat) (sigs : List Sig) (data : List (String × Int)) : OB :=
  applyWrites (List.replicate (8 * n) none) (sigs.map (wL (8 * n) data))
/-- the big-endian array after the loop -/
def bbOf (n : Nat) (sigs : List Sig) (data : List (String × Int)) : OB :=
  applyWrites (List.replicate (8 * n) none) (sigs.map (wB data))

theorem lbOf_length (h : StbHyp n sigs data) : (lbOf n sigs data).length = 8 * n := by
  unfold lbOf; rw [applyWrites_length _ _ (wL_fit h _ (by simp))]; simp

theorem bbOf_length (h : StbHyp n sigs data) : (bbOf n sigs data).length = 8 * n := by
  unfold bbOf; rw [applyWrites_length _ _ (wB_fit h _ (by simp))]; simp

theorem lbOf_written (h : StbHyp n sigs data) (s : Sig) (hs : s ∈ sigs) (v : Int)
    (hv : dictGet data s.name = some v) (hl : s.little = true) (i : Nat) (hi : i < s.size) :
    (lbOf n sigs data)[8 * n - 1 - (s.start + i)]? = some (some ((encNat s v).testBit i)) := by
  have h1 := (h.ok s hs v hv).1
  have e : wL (8 * n) data s = (8 * n - s.start - s.size, (natToBits s.size (encNat s v)).map some) := by
    simp [wL, hv, hl]
  have := applyWrites_written _ (List.replicate (8 * n) none) (wL_fit h _ (by simp)) (wL_pairwise h)
    (wL (8 * n) data s) (List.mem_map.2 ⟨s, hs, rfl⟩) (s.size - 1 - i) (by rw [e]; simp [natToBits_length]; omega)
  rw [e] at this
  simp only [List.getElem?_map, natToBits_get _ _ _ (show s.size - 1 - i < s.size by omega), Option.map_some] at this
  unfold lbOf
  have e1 : 8 * n - 1 - (s.start + i) = 8 * n - s.start - s.size + (s.size - 1 - i) := by omega
  have e2 : s.size - 1 - (s.size - 1 - i) = i := by omega
  rw [e1, this, e2]

theorem bbOf_written (h : StbHyp n sigs data) (s : Sig) (hs : s ∈ sigs) (v : Int)
    (hv : dictGet data s.name = some v) (hl : s.little = false) (i : Nat) (hi : i < s.size) :
    (bbOf n sigs data)[s.start + s.size - 1 - i]? = some (some ((encNat s v).testBit i)) := by
  have h1 := (h.ok s hs v hv).1
  have e : wB data s = (s.start, (natToBits s.size (encNat s v)).map some) := by
    simp [wB, hv, hl]
  have := applyWrites_written _ (List.replicate (8 * n) none) (wB_fit h _ (by simp)) (wB_pairwise h)
    (wB data s) (List.mem_map.2 ⟨s, hs, rfl⟩) (s.size - 1 - i) (by rw [e]; simp [natToBits_length]; omega)
  rw [e] at this
  simp only [List.getElem?_map, natToBits_get _ _ _ (show s.size - 1 - i < s.size by omega), Option.map_some] at this
  unfold bbOf
  have e1 : s.start + s.size - 1 - i = s.start + (s.size - 1 - i) := by omega
  have e2 : s.size - 1 - (s.size - 1 - i) = i := by omega
  rw [e1, this, e2]

theorem lbOf_untouched (h : StbHyp n sigs data) (k : Nat) (hk : k < 8 * n)
    (hno : ∀ s ∈ sigs, ∀ v, dictGet data s.name = some v → s.little = true → ∀ i, i < s.size → s.start + i ≠ k) :
    (lbOf n sigs data)[8 * n - 1 - k]? = some none := by
  unfold lbOf
  rw [applyWrites_untouched _ _ _ (wL_fit h _ (by simp))]
  · rw [List.getElem?_replicate, if_pos (by omega)]
  · intro w hw hc
    obtain ⟨s, hs, rfl⟩ := List.mem_map.1 hw
    rcases wL_eq (8 * n) data s with e | ⟨v, hv, hls, e⟩
    · rw [e] at hc; simp at hc
    · rw [e] at hc
      simp only [List.length_map, natToBits_length] at hc
      have h1 := (h.ok s hs v hv).1
      exact hno s hs v hv hls (k - s.start) (by omega) (by omega)

theorem bbOf_untouched (h : StbHyp n sigs data) (j : Nat) (hj : j < 8 * n)
    (hno : ∀ s ∈ sigs, ∀ v, dictGet data s.name = some v → s.little = false → ∀ i, i < s.size →
      s.start + s.size - 1 - i ≠ j) :
    (bbOf n sigs data)[j]? = some none := by
  unfold bbOf
  rw [applyWrites_untouched _ _ _ (wB_fit h _ (by simp))]
  · rw [List.getElem?_replicate, if_pos (by omega)]
  · intro w hw hc
    obtain ⟨s, hs, rfl⟩ := List.mem_map.1 hw
    rcases wB_eq data s with e | ⟨v, hv, hls, e⟩
    · rw [e] at hc; simp at hc
    · rw [e] at hc
      simp only [List.length_map, natToBits_length] at hc
      have h1 := (h.ok s hs v hv).1
      exact hno s hs v hv hls (s.start + s.size - 1 - j) (by omega) (by omega)

end fold

/-! ## the encoder as a whole -/

theorem signalsToBytes_spec (f : Frame) (data : List (String × Int)) (h : StbHyp f.size f.sigs data) :
    ∃ bytes, f.signalsToBytes data = .ok bytes ∧ bytes.length = f.size ∧ (∀ b ∈ bytes, b < 256) ∧
      (∀ s ∈ f.sigs, ∀ v, dictGet data s.name = some v → ∀ i, i < s.size →
        payloadBit bytes (sigAddr s.little s.start s.size i) = (encNat s v).testBit i) ∧
      (∀ k, (∀ s ∈ f.sigs, ∀ v, dictGet data s.name = some v → ∀ i, i < s.size →
          sigAddr s.little s.start s.size i ≠ k) → payloadBit bytes k = false) := by
  have hL := lbOf_length h
  have hB := bbOf_length h
  refine ⟨finish f.size (lbOf f.size f.sigs data) (bbOf f.size f.sigs data), ?_, finish_length _ _ _,
    finish_lt _ _ _ hL hB, ?_, ?_⟩
  · rw [signalsToBytes_eq, Nat.mul_comm f.size 8, encFold_ok (8 * f.size) data f.sigs _ h.ok]
    rfl
  · intro s hs v hv i hi
    obtain ⟨h1, h2, _⟩ := h.ok s hs v hv
    by_cases hl : s.little = true
    · have hk : s.start + i < 8 * f.size := by omega
      have hx := lbOf_written h s hs v hv hl i hi
      have hfl : flipN (s.start + i) < 8 * f.size := flipN_lt hk
      obtain ⟨y, hy⟩ : ∃ y, (bbOf f.size f.sigs data)[flipN (s.start + i)]? = some y :=
        ⟨_, List.getElem?_eq_getElem (by rw [hB]; exact hfl)⟩
      have := finish_payloadBit f.size _ _ hL hB (s.start + i) hk _ y hx hy
      simp only [sigAddr, hl, if_true]
      rw [this]; rfl
    · have hl' : s.little = false := by simpa using hl
      have hj : s.start + s.size - 1 - i < 8 * f.size := by omega
      have hk : flipN (s.start + s.size - 1 - i) < 8 * f.size := flipN_lt hj
      have hy := bbOf_written h s hs v hv hl' i hi
      have hx := lbOf_untouched h (flipN (s.start + s.size - 1 - i)) hk (by
        intro t ht w hw hlt j hjt heq
        have hne : t ≠ s := by intro e; rw [e] at hlt; rw [hlt] at hl'; cases hl'
        have := h.disj t ht s hs hne w v hw hv j i hjt hi
        simp only [sigAddr, hlt, hl', if_true, Bool.false_eq_true, if_false] at this
        exact this heq)
      rw [← flipN_flipN (s.start + s.size - 1 - i)] at hy
      have := finish_payloadBit f.size _ _ hL hB _ hk _ _ hx hy
      simp only [sigAddr, hl', Bool.false_eq_true, if_false]
      rw [this]; rfl
  · intro k hno
    by_cases hk : k < 8 * f.size
    · have hx := lbOf_untouched h k hk (by
        intro s hs v hv hl i hi
        have := hno s hs v hv i hi
        simpa [sigAddr, hl] using this)
      have hy := bbOf_untouched h (flipN k) (flipN_lt hk) (by
        intro s hs v hv hl i hi heq
        have := hno s hs v hv i hi
        simp only [sigAddr, hl, Bool.false_eq_true, if_false] at this
        apply this
        rw [heq, flipN_flipN])
      rw [finish_payloadBit f.size _ _ hL hB k hk _ _ hx hy]; rfl
    · exact payloadBit_out _ _ (by rw [finish_length]; omega)

/-! ## values -/

/-- the raw value denoted by the unsigned pattern `u` of the signal's bits -/
def dv (s : Sig) (u : Nat) : Int :=
  if s.isFloat then (u : Int) else if s.signed then specSigned u s.size else (u : Int)

theorem rawOf_eq_dv (s : Sig) (p : List Nat) (h : inFrame s p.length) :
    rawOf s p = dv s (specRaw p s.little s.start s.size) := by
  unfold dv
  by_cases hf : s.isFloat = true
  · simp only [hf, if_true]; exact C01.decode_float_pattern s p h hf
  · have hf' : s.isFloat = false := by simpa using hf
    by_cases hs : s.signed = true
    · simp only [hf', hs, Bool.false_eq_true, if_false, if_true]
      exact C01.decode_signed_twos_complement s p h hf' hs
    · have hs' : s.signed = false := by simpa using hs
      simp only [hf', hs', Bool.false_eq_true, if_false]
      exact C01.decode_unsigned s p h hf' hs'

theorem pow_facts (k : Nat) (h1 : 1 ≤ k) : ∃ M : Nat, 0 < M ∧ 2 ^ (k - 1) = M ∧ 2 ^ k = 2 * M ∧
    (2:Int) ^ (k - 1) = (M : Int) ∧ (2:Int) ^ k = ((2 * M : Nat) : Int) ∧
    (2:Int) ^ (k + 1) = ((4 * M : Nat) : Int) := by
  refine ⟨2 ^ (k - 1), Nat.two_pow_pos _, rfl, ?_, by simp, ?_, ?_⟩
  · have : k = (k - 1) + 1 := by omega
    conv => lhs; rw [this, Nat.pow_succ]
    omega
  · have : k = (k - 1) + 1 := by omega
    conv => lhs; rw [this, Int.pow_succ]
    simp; omega
  · have : k + 1 = (k - 1) + 1 + 1 := by omega
    conv => lhs; rw [this, Int.pow_succ, Int.pow_succ]
    simp; omega

theorem mod_of_decomp (a m q r : Nat) (h : a = m * q + r) (hr : r < m) : a % m = r := by
  subst h; rw [Nat.mul_add_mod, Nat.mod_eq_of_lt hr]

theorem dv_encNat (s : Sig) (v : Int) (h1 : 1 ≤ s.size) (h : rangeOK s v) :
    dv s (encNat s v % 2 ^ s.size) = v := by
  obtain ⟨M, hM, e0, e1, e2, e3, e4⟩ := pow_facts s.size h1
  unfold rangeOK at h
  unfold dv encNat specSigned
  rw [e2, e3] at h
  rw [e4, e1, e0, e3]
  by_cases hf : s.isFloat = true
  · simp only [hf, if_true] at h ⊢
    rw [mod_of_decomp v.toNat (2 * M) 0 v.toNat (by omega) (by omega)]; omega
  · have hf' : s.isFloat = false := by simpa using hf
    simp only [hf', Bool.false_eq_true, if_false] at h ⊢
    by_cases hs : s.signed = true
    · simp only [hs, if_true] at h ⊢
      by_cases hv : 0 ≤ v
      · rw [mod_of_decomp _ (2 * M) 2 v.toNat (by omega) (by omega)]
        rw [if_neg (by omega)]; omega
      · rw [mod_of_decomp _ (2 * M) 1 (((2 * M : Nat) : Int) + v).toNat (by omega) (by omega)]
        rw [if_pos (by omega)]; omega
    · have hs' : s.signed = false := by simpa using hs
      simp only [hs', Bool.false_eq_true, if_false] at h ⊢
      rw [mod_of_decomp _ (2 * M) 2 v.toNat (by omega) (by omega)]; omega

theorem encNat_dv (s : Sig) (u : Nat) (h1 : 1 ≤ s.size) (hu : u < 2 ^ s.size) :
    rangeOK s (dv s u) ∧ encNat s (dv s u) % 2 ^ s.size = u := by
  obtain ⟨M, hM, e0, e1, e2, e3, e4⟩ := pow_facts s.size h1
  unfold rangeOK dv encNat specSigned
  rw [e4, e1, e0, e3, e2]
  rw [e1] at hu
  by_cases hf : s.isFloat = true
  · simp only [hf, if_true]
    refine ⟨by omega, mod_of_decomp _ (2 * M) 0 u (by omega) hu⟩
  · have hf' : s.isFloat = false := by simpa using hf
    simp only [hf', Bool.false_eq_true, if_false]
    by_cases hs : s.signed = true
    · simp only [hs, if_true]
      by_cases hc : 1 ≤ s.size ∧ u ≥ M
      · rw [if_pos hc]
        refine ⟨by omega, mod_of_decomp _ (2 * M) 1 u (by omega) hu⟩
      · rw [if_neg hc]
        refine ⟨by omega, mod_of_decomp _ (2 * M) 2 u (by omega) hu⟩
    · have hs' : s.signed = false := by simpa using hs
      simp only [hs', Bool.false_eq_true, if_false]
      refine ⟨by omega, mod_of_decomp _ (2 * M) 2 u (by omega) hu⟩

/-- reading back what was written -/
theorem rawOf_written (s : Sig) (bytes : List Nat) (v : Int) (hin : inFrame s bytes.length)
    (hr : rangeOK s v)
    (hbits : ∀ i, i < s.size → payloadBit bytes (sigAddr s.little s.start s.size i) = (encNat s v).testBit i) :
    rawOf s bytes = v := by
  rw [rawOf_eq_dv s bytes hin]
  have : specRaw bytes s.little s.start s.size = encNat s v % 2 ^ s.size := by
    unfold specRaw
    rw [specSum_congr _ _ _ hbits, specSum_testBit_eq_mod]
  rw [this, dv_encNat s v hin.2 hr]

/-- the bits written for a decoded value are the payload's bits -/
theorem encNat_rawOf_testBit (s : Sig) (p : List Nat) (hin : inFrame s p.length) (i : Nat) (hi : i < s.size) :
    (encNat s (rawOf s p)).testBit i = payloadBit p (sigAddr s.little s.start s.size i) := by
  have hu : specRaw p s.little s.start s.size < 2 ^ s.size := specSum_lt _ _
  have h2 := (encNat_dv s _ hin.2 hu).2
  rw [← rawOf_eq_dv s p hin] at h2
  have : (encNat s (rawOf s p) % 2 ^ s.size).testBit i = (encNat s (rawOf s p)).testBit i := by
    rw [Nat.testBit_mod_two_pow]; simp [hi]
  rw [← this, h2]
  unfold specRaw
  rw [specSum_testBit _ _ _ hi]

theorem rangeOK_rawOf (s : Sig) (p : List Nat) (hin : inFrame s p.length) : rangeOK s (rawOf s p) := by
  rw [rawOf_eq_dv s p hin]
  exact (encNat_dv s _ hin.2 (specSum_lt _ _)).1

/-! ## the dictionary built by decoding -/

theorem dictGet_map (sigs : List Sig) (g : Sig → Int) (hnd : (sigs.map (·.name)).Nodup)
    (s : Sig) (hs : s ∈ sigs) : dictGet (sigs.map fun s => (s.name, g s)) s.name = some (g s) := by
  induction sigs with
  | nil => simp at hs
  | cons t rest ih =>
    simp only [List.map_cons, List.nodup_cons] at hnd
    unfold dictGet
    simp only [List.map_cons, List.find?_cons]
    by_cases hn : t.name = s.name
    · have : s = t := by
        rcases List.mem_cons.1 hs with e | hs'
        · exact e
        · exfalso; apply hnd.1; rw [hn]; exact List.mem_map.2 ⟨s, hs', rfl⟩
      subst this; simp
    · have hs' : s ∈ rest := by
        rcases List.mem_cons.1 hs with e | hs'
        · subst e; exact absurd rfl hn
        · exact hs'
      have : (t.name == s.name) = false := by simpa using hn
      simp only [this]
      exact ih hnd.2 hs'

end CanVerif
