import Driver.J
import CanVerif.Model.Bulk
import CanVerif.Spec.Bulk
open Lean CanVerif

namespace D17

def nm (j : Json) : Except String CanVerif.Name := do pure (← J.str j).toList
def attrsOf (j : Json) : Except String (List (CanVerif.Name × CanVerif.Name)) := do
  (← J.arr j).mapM fun kv => do pure ((← nm (← J.idx kv 0)), (← nm (← J.idx kv 1)))
def sigOf (j : Json) : Except String BSig := do
  pure { name := ← nm (← J.idx j 0), size := ← J.nat (← J.idx j 1), attrs := ← attrsOf (← J.idx j 2) }
def frameOf (j : Json) : Except String BFrame := do
  pure { name := ← nm (← J.idx j 0), attrs := ← attrsOf (← J.idx j 1), sigs := ← (← J.arr (← J.idx j 2)).mapM sigOf }
def ecuOf (j : Json) : Except String BEcu := do
  pure { name := ← nm (← J.idx j 0), attrs := ← attrsOf (← J.idx j 1) }
def nmList (j : Json) : Except String (List CanVerif.Name) := do (← J.arr j).mapM nm
def matOf (j : Json) : Except String BMat := do
  pure { frames := ← (← J.arr (← J.key j "frames")).mapM frameOf, ecus := ← (← J.arr (← J.key j "ecus")).mapM ecuOf,
         frameDefs := ← nmList (← J.key j "fd"), ecuDefs := ← nmList (← J.key j "ed"), sigDefs := ← nmList (← J.key j "sd") }

def sJ (n : CanVerif.Name) : Json := Json.str (String.ofList n)
def attrsJ (a : List (CanVerif.Name × CanVerif.Name)) : Json := J.ofList (a.map fun kv => J.ofList [sJ kv.1, sJ kv.2])
def sigJ (s : BSig) : Json := J.ofList [sJ s.name, J.ofNat s.size, attrsJ s.attrs]
def frameJ (f : BFrame) : Json := J.ofList [sJ f.name, attrsJ f.attrs, J.ofList (f.sigs.map sigJ)]
def matJ (m : BMat) : Json :=
  J.obj [("frames", J.ofList (m.frames.map frameJ)), ("ecus", J.ofList (m.ecus.map fun e => J.ofList [sJ e.name, attrsJ e.attrs])),
         ("fd", J.ofList (m.frameDefs.map sJ)), ("ed", J.ofList (m.ecuDefs.map sJ)), ("sd", J.ofList (m.sigDefs.map sJ))]

def opOf (j : Json) : Except String BOp := do
  let k ← J.str (← J.idx j 0)
  match k with
  | "zero" => pure .zero
  | "obsolete" => pure .obsolete
  | "delSignal" => pure (.delSignal (← nm (← J.idx j 1)))
  | "renameSignal" => pure (.renameSignal (← nm (← J.idx j 1)) (← nm (← J.idx j 2)))
  | "delFrame" => pure (.delFrame (← nm (← J.idx j 1)))
  | "renameFrame" => pure (.renameFrame (← nm (← J.idx j 1)) (← nm (← J.idx j 2)))
  | "delSigAttrs" => pure (.delSigAttrs (← nmList (← J.idx j 1)))
  | "delFrameAttrs" => pure (.delFrameAttrs (← nmList (← J.idx j 1)))
  | _ => throw s!"unknown op {k}"

def toSpec (m : BMat) : SpecBulk.KMat :=
  { frames := m.frames.map fun f => { name := f.name, attrs := f.attrs, sigs := f.sigs.map fun s => { name := s.name, size := s.size, attrs := s.attrs } },
    ecus := m.ecus.map fun e => (e.name, e.attrs), frameDefs := m.frameDefs, ecuDefs := m.ecuDefs, sigDefs := m.sigDefs }

/-- defines are dictionaries: compare them as sets -/
def canonDefs (m : BMat) : BMat := m

def transitionOk (b : SpecBulk.KMat) (op : BOp) (a : SpecBulk.KMat) : Bool :=
  match op with
  | .zero => SpecBulk.zeroOk b a
  | .obsolete => SpecBulk.obsoleteOk b a && (!SpecBulk.exportable b || SpecBulk.exportable a)
  | .delSignal p => SpecBulk.delSignalOk b p a
  | .renameSignal o n => SpecBulk.renameSignalOk b o n a
  | .delFrame n => SpecBulk.delFrameOk b n a
  | .renameFrame o n => SpecBulk.renameFrameOk b o n a
  | .delSigAttrs ns => SpecBulk.delSigAttrsOk b ns a
  | .delFrameAttrs ns => SpecBulk.delFrameAttrsOk b ns a

/-- the property's domain: frame names unique in the matrix, signal names unique within a frame -/
def inDomain (m : SpecBulk.KMat) : Bool :=
  let fn := m.frames.map (·.name)
  fn.eraseDups.length == fn.length &&
  m.frames.all fun f => let sn := f.sigs.map (·.name); sn.eraseDups.length == sn.length

def opName : BOp → String
  | .zero => "delete_zero_signals" | .obsolete => "delete_obsolete_defines" | .delSignal _ => "del_signal"
  | .renameSignal .. => "rename_signal" | .delFrame _ => "del_frame" | .renameFrame .. => "rename_frame"
  | .delSigAttrs _ => "del_signal_attributes" | .delFrameAttrs _ => "del_frame_attributes"

/-- op "bulk": c = {"m": matrix, "ops": [...]}; impl i = {"states":[...]} -/
def handle (op : String) (c i : Json) : Except String (Json × String) := do
  match op with
  | "bulk" =>
    let m0 ← matOf (← J.key c "m")
    let ops ← (← J.arr (← J.key c "ops")).mapM opOf
    let states := (ops.foldl (fun (acc : BMat × List BMat) o => let n := acc.1.apply o; (n, acc.2 ++ [n])) (m0, [])).2
    let mj := J.obj [("states", J.ofList (states.map matJ))]
    let istates ← (← J.arr (← J.key i "states")).mapM matOf
    let befores := m0 :: istates
    let bad := (List.zip ops (List.zip befores istates)).filterMap fun (o, b, a) =>
      if !inDomain (toSpec b) || transitionOk (toSpec b) o (toSpec a) then none else some s!"fail: {opName o} did not hit exactly its targets"
    pure (mj, match bad with
      | [] => "ok"
      | b :: _ => b)
  | _ => throw s!"C17: unknown op {op}"

end D17
