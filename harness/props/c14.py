"""C14 - exporting never changes the matrix and is deterministic."""
import copy as pycopy
import decimal
import hashlib
import json
import os
import subprocess
import sys

import canmatrix.canmatrix as cm
from lib import frames as F
from lib import matrices as M

PID = "C14"
RULE = ("case 'exp' = (matrix, ordered pair of writers (w1, w2) out of arxml, csv, dbc, dbf, fibex, json, json-all, json-canard, kcd, "
        "scapy, sym, wireshark, xls): normal form of the argument (everything incl. list orders, attributes, definitions) before "
        "and after w1; bytes of w2 after w1 against bytes of w2 on a fresh copy; w1 twice; decoding of a payload before/after. "
        "Matrices include long names (> 32 characters), free signals, cycle times, duplicate frame names, receiver lists not yet "
        "propagated to the frames, multiplex groups with many values, attributes with definitions. quick: every ordered pair on 1 "
        "matrix per shard + random pairs; thorough: every ordered pair on 20 matrices. case 'seeds' = the same exports in "
        "The 'seeds' case also exports every matrix in the long-running process after a variant of it (same names, other value texts, comments, units) and compares with a fresh process. The process state decoding depends on (decimal context) is compared before and after every export; comments over two lines occur. subprocesses under 6 (thorough: 12) values of PYTHONHASHSEED, always including a frame with 15 multiplex groups. One matrix in seven has a frame whose length was never set (0) although it has signals. Further configurations of the writers (options of formats.dump: csv delimiters, bit notations and attribute columns of csv/xls/json, encodings of dbc/dbf/sym, dbc without compatibility names and value tables, arxml 3, json native types) are paired with every configuration of the same format in both orders and with random configurations. Matrices also have frames of their own named VECTOR__INDEPENDENT_SIG_MSG (with and without signals without frame), the ECU name Vector__XXX as a transmitter/receiver, definitions of their own under the names the writers define (GenMsgCycleTime, VFrameFormat, GenSigStartValue, System...LongSymbol, BusType) and texts outside ASCII. 'unchanged' also compares what the matrix answers to lookups by name and identifier (frame_by_name, get_frame_by_name, frame_by_id, get_frame_by_id, ecu_by_name, for every name/identifier in the matrix, the reserved ones and all keys of the lookup dictionaries); decoding is also done through CanMatrix.decode. Every 'exp' case starts from the decimal context of a fresh interpreter. In the 'seeds' case every subprocess has its own export history (listed order, reverse order, shuffles of the (configuration, matrix) pairs) and the long-running process exports a variant with every other configuration of the same writer first. One number occurs in several spellings in one matrix (0.5 and 0.50, 1 and 1.00, 100 and 1E+2) and in the variants (every number respelled); the signals of a multiplexed frame are listed in any order and frames carry sym's Sendable/Receivable attributes, so that the writers visit the numbers in different orders. Every export an 'exp' case makes in the long-running process (w1, w1 on a fresh copy, w2 after w1, w2 on a fresh copy) is compared with the same export made ALONE in a fresh process (lib/export_worker.py --serve: a process that has done the imports and exported nothing forks one child per run), and a fresh process with a history of its own (variant to w1, matrix to w1, the same object to w2) is compared with them too (thorough: every case; quick: every random case and a quarter of the exhaustive pairs per shard, rotating). Matrices also have the rarely filled parts (45 %): PDUs inside frames with signals and signal groups of their own (frame.pdus, as the arxml reader keeps container I-PDUs; also frames that are nothing but the container and decode through their header signals), PDU name and header id, signal groups, names and comments per multiplexer value, named value tables, environment variables, baud rates, start values, cycle times and value-table names of signals. 'unchanged' also compares the whole object graph under the matrix field by field without a list of known fields (`everything`: every attribute of every reachable object, list and dictionary orders, types and spellings of numbers, which places hold the same object; only CanMatrix's lookup tables are left to the lookups), and decoding covers the nested results of container frames. Every 'exp' case exports the matrix to w1 once more, alone in a fresh process that runs in ANOTHER ENVIRONMENT (c.env: time zone out of five incl. LINT-14 and AOE12 which are never on the same date, clock moved by 0 / 7 h / 3 days / -400 days / 10 years for everything that reads it through time or datetime, other user/home/host name, working directory, locale) and demands the bytes of the export made alone here; in the 'seeds' case every subprocess has its own environment as well as its own hash seed and history (the first two in the two time zones 26 hours apart). Four matrices in ten have families of frame and signal names that are no identifiers and become one name under a cleaning a writer may apply for its file (Temp.Out / Temp_Out / Temp-Out / 'Temp Out', Temp_Out / TEMP_OUT, anywhere in the matrix: two signals of a frame, signals of different frames, a frame and a signal; one member may really carry the cleaned name). 35 % of the matrices have factors, offsets, limits and start values with many significant digits (powers of two like 0.001953125, 28-digit quotients like 1/3, 64 bit start values), next to the 64 bit signals; decoding compares the raw, physical and named value of every signal and the frame encoded again from the physical values; the process state also covers decimal.DefaultContext, the results of a 28-digit quotient and product, locale, working directory, recursion limit and os.environ. Non-trivial = every distinct case (each exercises >= 1 writer).")
EXHAUSTIVE = {"quick": False, "thorough": False}
PARTIAL = ["the writers' footprint on their argument is recorded in the model by hand (copiesFirst/normalise); that the record is complete "
           "is established only by this correspondence check - the theorems carry least here",
           "xlsx, yaml, ldf, eds writers are not importable in this environment and are outside the quantifier"]
ASSUMPTIONS = ["matrices every listed writer accepts (no extended multiplexing)"]
TRUSTED = ["hashlib, subprocess, os.fork (a forked child of a process that has only imported canmatrix counts as a fresh process)"]
CORRESPONDENCE = "formats.dump leaves its argument's normal form unchanged == CanVerif.exportEffect (Model/Export.lean)"

WRITERS = {
    "arxml": ("arxml", {}), "csv": ("csv", {}), "dbc": ("dbc", {}), "dbf": ("dbf", {}), "fibex": ("fibex", {}),
    "json": ("json", {}), "json-all": ("json", {"jsonExportAll": True}), "json-canard": ("json", {"jsonExportCanard": True}),
    "kcd": ("kcd", {}), "scapy": ("scapy", {}), "sym": ("sym", {}), "wireshark": ("wireshark", {}), "xls": ("xls", {}),
}
WKEYS = sorted(WRITERS)
# further configurations of the same writers: the options formats.dump passes on to them.  The thirteen entries above keep their streams
# (every ordered pair); a configuration below is paired with every configuration of the same format (both orders) and with random ones
VARIANTS = {
    "arxml-3": ("arxml", {"arVersion": "3.2.3"}),
    "csv;": ("csv", {"delimiter": ";"}), "csv-tab": ("csv", {"delimiter": "\t"}),
    "csv-msb-attrs": ("csv", {"xlsMotorolaBitFormat": "msb", "additionalFrameAttributes": "GenMsgSendType", "additionalAttributes": "GenSigNote"}),
    "dbc-utf8": ("dbc", {"dbcExportEncoding": "utf-8"}), "dbc-plain": ("dbc", {"compatibility": False, "writeValTable": False}),
    "dbf-utf8": ("dbf", {"dbfExportEncoding": "utf-8"}),
    "json-msb": ("json", {"jsonMotorolaBitFormat": "msb"}), "json-all-native": ("json", {"jsonExportAll": True, "jsonNativeTypes": True}),
    "sym-utf8": ("sym", {"symExportEncoding": "utf-8"}),
    "xls-lsb-attrs": ("xls", {"xlsMotorolaBitFormat": "lsb", "additionalFrameAttributes": "GenMsgSendType", "additionalSignalAttributes": "GenSigNote"}),
}
CONFIGS = dict(WRITERS, **VARIANTS)
CKEYS = sorted(CONFIGS)
SIBLINGS = {k: [j for j in CKEYS if j != k and CONFIGS[j][0] == CONFIGS[k][0]] for k in CKEYS}
# names the formats use for their own bookkeeping (dbc, dbf: the frame that carries the signals without frame, the ECU that stands for
# "nobody", the definitions the writers add); a caller's matrix may use every one of them for its own objects
FREE_SIGNALS_FRAME = "VECTOR__INDEPENDENT_SIG_MSG"
NOBODY = "Vector__XXX"
RESERVED_FRAME_NAMES = [FREE_SIGNALS_FRAME]


def respell(text, how=0):
    """another text of the same number (None stays None): how=0 two more decimal places (0.5 -> 0.500, 1 -> 1.00: the writers drop
    one trailing '.0' themselves), how=1 one more place (0.5 -> 0.50), how=2 the exponent form if the number ends in zeros
    (100 -> 1E+2), otherwise as how=1.  Equal as numbers (and as dictionary keys), different as texts."""
    if text is None:
        return None
    x = decimal.Decimal(text)
    t = x.as_tuple()
    if how == 2 and x != 0:
        n = x.normalize(decimal.Context(prec=60))
        if str(n) != str(x):
            return str(n)
    more = (0, 0) if (how == 0 or t.exponent == 0) else (0,)
    y = decimal.Decimal((t.sign, tuple(t.digits) + more, t.exponent - len(more)))
    assert y == x and str(y) != str(x), (text, how)
    return str(y)


def variant_of(d):
    """a matrix with the same frames, signals, names and numbers in which every text that may be written differently is written
    differently: other comments, units and value texts, every number (factor, offset, limits) in another spelling.  Exported
    first, it leaves behind whatever a writer keeps under a name or under a number."""
    v = pycopy.deepcopy(d)
    for f in v["frames"]:
        f["comment"] = "variant"
        for sg in f["signals"]:
            sg["values"] = {key: val + "_variant" for key, val in sg.get("values", {}).items()}
            sg["unit"] = "var"
            sg["comment"] = "variant comment"
            for key in ("factor", "offset", "min", "max"):
                sg[key] = respell(sg.get(key), 0)
    return v


def gen_own(rng, **kw):
    """the descriptions of C14's own streams"""
    return long_numbers(rng, gen_rare(rng, gen_desc(rng, own_names=True, spellings=True, listing=True, related=True, **kw)))


# numbers as files really have them, besides the short ones of lib.matrices (at most four digits): powers of two, quotients that the
# arxml / fibex readers compute with the 28 digits of a Decimal, numbers with seven to twenty significant digits, exponent forms.
# A writer that shortens, rounds or reformats a number for its file does so for its file only.
LONG_FACTORS = ["0.001953125", "0.0078125", "0.00390625", "0.0000152587890625", "0.3333333333333333333333333333", "0.1428571428571428571428571429",
                "1.0000001", "3.141592653589793", "0.0625001", "1E-7", "1.25E-9", "1234567.125", "0.000030517578125", "16777216.5",
                "0.6666666666666666666666666667", "1.00000000000000000001"]
LONG_OFFSETS = ["-273.15000001", "0.3333333333333333333333333333", "-1234567.875", "1E-9", "123456789012345678", "-0.0000152587890625",
                "2.718281828459045235"]
LONG_INITIALS = ["9223372036854788153", "18446744073709551615", "1234567890123456789", "0.3333333333333333333333333333", "123456.7890625",
                 "-9223372036854775808", "1.0000001"]


def long_numbers(rng, d):
    """35 %: some signals of the matrix (of the frames and of the PDUs) get a factor, an offset, limits or a start value with many
    significant digits (LONG_*), anywhere in the matrix: next to 64 bit signals, in multiplexed frames, in one signal or in all."""
    if rng.random() >= 0.35:
        return d
    sigs = [sg for f in d["frames"] for sg in f["signals"] if sg.get("mux") != "Multiplexor" and not sg["name"].startswith("Header_")]
    sigs += [sg for f in d["frames"] for p in f.get("pdus", []) for sg in p["signals"]]
    if not sigs:
        return d
    p = rng.choice([0.3, 0.6, 1.0])
    chosen = [sg for sg in sigs if rng.random() < p] or [rng.choice(sigs)]
    for sg in chosen:
        r = rng.random()
        if r < 0.75:
            sg["factor"] = rng.choice(LONG_FACTORS)
        if r > 0.55:
            sg["offset"] = rng.choice(LONG_OFFSETS)
        if rng.random() < 0.3:
            sg["min"], sg["max"] = rng.choice([("0", "18446744073709551615"), ("-0.3333333333333333333333333333", "12345678.90625"),
                                               ("0.001953125", "127.998046875")])
        if rng.random() < 0.4:
            sg["initial"] = rng.choice(LONG_INITIALS)
    d["long_numbers"] = True
    return d


def gen_rare(rng, d):
    """the parts of a matrix that files of one format or another fill and that most matrices leave empty: PDUs inside a frame with
    signals and signal groups of their own (as the arxml reader keeps container / multiplexed / secured I-PDUs: frame.pdus), the name
    and header of the frame's PDU, signal groups of the frame, names and comments per multiplexer value (sym), named value tables,
    environment variables (dbc), baud rates, start values, cycle times and value-table names of signals.  A writer that has no place
    for a part leaves it alone - in its file and in the matrix."""
    if rng.random() >= 0.45:
        return d
    fr = d["frames"]
    rare = d["rare"] = {}
    for k, f in enumerate(fr):
        if rng.random() < 0.6:
            pdus = []
            for p in range(rng.choice([1, 1, 2, 3])):
                used = set()
                sigs = []
                for q in range(rng.choice([0, 1, 2, 2, 3])):
                    sg = M.gen_signal(rng, "pdu%d_%d_sig%d" % (k, p, q), max(1, min(8, f["size"] or 8)), used,
                                      {"maxwidth": 16, "floats": False, "values": rng.random() < 0.3, "limits": True})
                    if sg:
                        sigs.append(sg)
                names = [sg["name"] for sg in sigs]
                pdus.append({"name": "Pdu%d_%d" % (k, p), "size": max(1, min(8, f["size"] or 8)), "id": rng.choice([0, p + 1, 0x1234]),
                             "triggering": rng.choice(["", "PT_Pdu%d_%d" % (k, p)]), "type": rng.choice(["", "I-SIGNAL-I-PDU", "SECURED-I-PDU"]),
                             "port": rng.choice(["", "OUT"]), "cycle": rng.choice([0, 0, 10, 100]), "signals": sigs,
                             "groups": [["pg%d" % p, p, rng.sample(names, rng.randint(1, len(names)))]] if names and rng.random() < 0.5 else []})
            f["pdus"] = pdus
            if rng.random() < 0.4 and not any(sg.get("mux") is not None for sg in f["signals"]):
                # ... a frame that is nothing but the container (Frame.decode reads the two header signals and then the PDUs by their
                # identifiers: one PDU gets the identifier the payloads of decode_all carry)
                hdr = {"little": True, "signed": False, "float": False, "factor": "1", "offset": "0", "unit": "", "receivers": [], "comment": None,
                       "mux": None, "values": {}, "min": None, "max": None}
                f["signals"] = [dict(hdr, name="Header_ID", start=0, size=8), dict(hdr, name="Header_DLC", start=8, size=8)]
                f["size"] = max(f["size"], 4)
                pdus[0]["id"] = rng.choice([0xA5, 0x5A])
        if rng.random() < 0.3:
            f["pdu_name"] = "IPdu_" + f["name"][:20]
        if rng.random() < 0.2:
            f["header_id"] = rng.choice([0, 1, 0x8001])
        names = [sg["name"] for sg in f["signals"]]
        if names and rng.random() < 0.4:
            f["groups"] = [["grp%d_%d" % (k, g), g + 1, rng.sample(names, rng.randint(1, len(names)))] for g in range(rng.choice([1, 1, 2]))]
        mv = [sg["mux"] for sg in f["signals"] if isinstance(sg.get("mux"), int)]
        if mv and rng.random() < 0.6:
            some = rng.sample(mv, rng.randint(1, len(mv)))
            f["mux_names"] = {str(v): "Mode_%d" % v for v in some}
            f["mux_comments"] = {str(v): "mode %d is active" % v for v in rng.sample(some, rng.randint(0, len(some)))}
        for sg in f["signals"]:
            if rng.random() < 0.2:
                sg["initial"] = rng.choice(["0", "1", "0.5", "1.0", "3"])
            if rng.random() < 0.15:
                sg["sig_cycle"] = rng.choice([5, 20, 50])
            if sg.get("values") and rng.random() < 0.3:
                sg["enumeration"] = "VT_" + sg["name"][:16]
    if rng.random() < 0.5:
        rare["value_tables"] = {"Table%d" % k: {str(v): "t%d_%d" % (k, v) for v in rng.sample(range(16), rng.randint(1, 4))} for k in range(rng.randint(1, 3))}
    if rng.random() < 0.4:
        rare["env_vars"] = {"EnvVar%d" % k: {"varType": rng.choice([0, 1]), "min": "0", "max": rng.choice(["1", "255"]), "unit": rng.choice(["", "V"]),
                                            "initialValue": "0", "evId": k + 1, "accessType": "DUMMY_NODE_VECTOR0", "accessNodes": [NOBODY],
                                            **({"attributes": {"EnvNote": "note %d" % k}} if rng.random() < 0.5 else {})}
                            for k in range(rng.randint(1, 2))}
    if rng.random() < 0.4:
        rare["baudrate"] = rng.choice([125000, 500000])
        rare["fd_baudrate"] = rng.choice([0, 2000000])
    if rng.random() < 0.3:
        rare["Baudrate"] = rng.choice(["500000", "250000"])          # (the attribute kcd writes into its Bus element)
    return d


# characters a name may contain that are no part of an identifier of one language or another (lua, python, C, the formats' own
# grammars); a writer that needs identifiers has to translate for its file only
SEPARATORS = [".", "-", " ", "_", "__", ":", "/", "+", "#", "~", "@", "$"]


def related_names(rng, d):
    """families of names that are different names and become one name under some 'cleaning' a writer may apply for its file:
    Temp.Out / Temp_Out / Temp-Out / 'Temp Out' (every character outside [A-Za-z0-9_] replaced), Temp_Out / TEMP_OUT / temp_out
    (letter case), Temp_Out / Temp__Out (runs of separators).  The members are frames and signals anywhere in the matrix (two signals
    of one frame, signals of different frames, a frame and a signal); one member may really carry the cleaned name.  Names of signals
    stay different within a frame.  (Frames under a reserved name and the names longer than 32 characters keep their names.)"""
    objs = [(None, f) for f in d["frames"] if f["name"] not in RESERVED_FRAME_NAMES and len(f["name"]) <= 32]
    objs += [(k, sg) for k, f in enumerate(d["frames"]) for sg in f["signals"] if len(sg["name"]) <= 32]
    fam = []
    for n in range(rng.choice([1, 1, 2])):
        if len(objs) < 2:
            break
        kind = rng.choice(["any", "any", "signals", "frames"])
        pool = [o for o in objs if kind == "any" or (o[0] is None) == (kind == "frames")]
        if len(pool) < 2:
            pool = objs
        members = rng.sample(pool, min(len(pool), rng.choice([2, 2, 3, 4])))
        stem, tail = rng.choice([("Temp", "Out"), ("A", "B"), ("Oil", "Pressure_1"), ("x1", "y")])
        how = rng.choice(["separators", "separators", "separators", "case"])
        if how == "separators":
            seps = rng.sample(SEPARATORS, len(members))
            if "_" not in seps and rng.random() < 0.5:
                seps[rng.randrange(len(seps))] = "_"          # one member really has the name the others clean to
            names = [stem + sep + tail + (sep + "z" if rng.random() < 0.2 else "") for sep in seps]
        else:
            base = stem + rng.choice(["_", "."]) + tail
            spelt = sorted({base, base.upper(), base.lower(), base.swapcase()})
            members = members[:len(spelt)]
            names = rng.sample(spelt, len(members))
        if n:
            names = [x + "2" for x in names]
        for (k, o), name in zip(members, names):
            objs = [x for x in objs if x[1] is not o]
            o["name"] = name
        fam.append(names)
    d["related_names"] = fam
    return d


def gen_desc(rng, many_groups=False, common_prefix=False, own_names=False, spellings=False, listing=False, related=False):
    """own_names: the caller's objects may carry names the formats reserve, definitions under the writers' names, texts outside ASCII
    (C14's own streams ask for it; other users of this generator, C20, get the descriptions they always got)
    spellings: one number occurs in several spellings in one matrix (0.5 and 0.50, 1 and 1.00, 100 and 1E+2), as files have them
    listing: the signals of a multiplexed frame are listed in any order (not by multiplexer value, the multiplexer anywhere), frames
    carry the attributes by which sym sorts them into its SEND / RECEIVE / SENDRECEIVE sections: the writers visit the objects of
    one matrix in different orders
    related: frames and signals carry names that are no identifiers (Temp.Out, 'Temp Out', A-B) and that differ from each other only
    in such characters or in letter case (related_names)"""
    d = _gen_desc(rng, many_groups, common_prefix, own_names)
    fr = d["frames"]
    if related and rng.random() < 0.4:
        related_names(rng, d)
    if spellings and rng.random() < 0.6:
        sigs = [sg for f in fr for sg in f["signals"]]
        for sg in sigs:
            for key in ("factor", "offset", "min", "max"):
                if rng.random() < 0.3:
                    sg[key] = respell(sg.get(key), rng.randrange(3))
        if len(sigs) >= 2:
            # ... and certainly one number in two spellings in two signals, whichever is listed first
            a, b = rng.sample(sigs, 2)
            if a.get("mux") != "Multiplexor" and b.get("mux") != "Multiplexor":
                key = rng.choice(["factor", "offset"])
                b[key] = respell(a[key], rng.randrange(3))
    if listing:
        for f in fr:
            if any(sg.get("mux") == "Multiplexor" for sg in f["signals"]) and rng.random() < 0.5:
                rng.shuffle(f["signals"])
        if rng.random() < 0.3:
            d["sections"] = [rng.choice([None, None, ["True", "False"], ["False", "True"], ["True", "True"]]) for _ in fr]
    return d


def _gen_desc(rng, many_groups=False, common_prefix=False, own_names=False):
    d = M.gen_matrix(rng, {"floats": False, "limits": True, "cycle": True, "maxframes": 4, "multiline_comments": True})
    while common_prefix and len(d["frames"]) < 2:
        d = M.gen_matrix(rng, {"floats": False, "limits": True, "cycle": True, "maxframes": 4, "multiline_comments": True})
    d["opts"] = {"update": rng.random() < 0.5}
    fr = d["frames"]
    if rng.random() < 0.4 and fr:
        fr[0]["name"] = "A_very_long_frame_name_exceeding_thirty_two_chars"
        if fr[0]["signals"]:
            fr[0]["signals"][0]["name"] = "a_signal_name_that_is_longer_than_32_characters"
    r2 = 0.0 if common_prefix else rng.random()
    if r2 < 0.15 and len(fr) >= 2:
        # names longer than 32 characters that agree in their first 32 characters (also ECUs and signals)
        fr[0]["name"] = "A_very_long_frame_name_exceeding_thirty_two_chars_first"
        fr[1]["name"] = "A_very_long_frame_name_exceeding_thirty_two_chars_second"
        if len(fr[0]["signals"]) >= 2:
            fr[0]["signals"][0]["name"] = "a_signal_name_that_is_longer_than_32_characters_x"
            fr[0]["signals"][1]["name"] = "a_signal_name_that_is_longer_than_32_characters_y"
    elif r2 < 0.5 and len(fr) >= 2:
        fr[1]["name"] = fr[0]["name"]          # duplicate frame names
        fr[1]["transmitters"] = sorted(set(fr[1]["transmitters"]) | {"Gw"})
    if (many_groups or rng.random() < 0.3) and fr:
        # a frame with many multiplex groups (sym writes one block per group)
        f = fr[-1]
        used = set()
        mx = M.gen_signal(rng, "mxs", f["size"], used, {"maxwidth": 8, "floats": False, "values": False})
        if mx and f["size"] >= 2:
            mx["size"], mx["start"], mx["little"], mx["signed"], mx["mux"] = 8, 0, True, False, "Multiplexor"
            sigs = [mx]
            allv = [0, 1, 2, 3, 5, 6, 7, 8, 13, 21, 34, 55, 89, 144, 233]
            for v in (allv if many_groups else rng.sample(allv, rng.randint(3, 15))):
                sigs.append({"name": "m%d" % v, "start": 8, "size": 4, "little": True, "signed": False, "float": False, "factor": "1", "offset": "0",
                             "unit": "", "receivers": [], "comment": None, "mux": v, "values": {}, "min": None, "max": None})
            f["signals"] = sigs
    d["free"] = [{"name": "free%d" % k, "size": rng.randint(1, 8)} for k in range(rng.choice([0, 0, 1, 2]))]
    d["attrs"] = rng.random() < 0.5
    if fr and rng.random() < 0.15:
        # a frame whose length was never set (0) although it has signals: the writers must not set it either
        rng.choice(fr)["size"] = 0
    if not own_names:
        return d
    # the caller's own objects carry names the formats use for their bookkeeping
    r3 = rng.random()
    if fr and r3 < 0.3:
        # a frame of the caller's with the name dbc and dbf give to the frame of the signals without frame (any position, also twice,
        # with and without signals without frame in the matrix)
        rng.choice(fr)["name"] = rng.choice(RESERVED_FRAME_NAMES)
        if r3 < 0.06 and len(fr) >= 2:
            rng.choice(fr)["name"] = rng.choice(RESERVED_FRAME_NAMES)
        if r3 < 0.2 and not d["free"]:
            d["free"] = [{"name": "free0", "size": rng.randint(1, 8)}]
    if fr and rng.random() < 0.15:
        # the ECU that stands for "nobody" in dbc and dbf, named by the caller as a transmitter or a receiver
        f = rng.choice(fr)
        if rng.random() < 0.5:
            f["transmitters"] = sorted(set(f["transmitters"]) | {NOBODY})
        elif f["signals"]:
            sg = rng.choice(f["signals"])
            sg["receivers"] = sorted(set(sg["receivers"]) | {NOBODY})
        if rng.random() < 0.5:
            d["ecus"] = sorted(set(d["ecus"]) | {NOBODY})
    if rng.random() < 0.2:
        # definitions of the caller's under the names the writers define themselves, with other value ranges
        d["own_defines"] = True
    if fr and rng.random() < 0.2:
        # texts outside ASCII (inside Latin-1, which dbc, dbf and sym write by default): the encoding options have something to encode
        f = rng.choice(fr)
        f["comment"] = "K\u00fchlwasser-Temperatur \u00b1 2 \u00b0C"
        for sg in f["signals"][:2]:
            sg["unit"] = "\u00b0C"
            if sg.get("values"):
                sg["values"] = {key: val + "_\u00dcberlast" for key, val in sg["values"].items()}
            if rng.random() < 0.5:
                sg["comment"] = "gr\u00f6\u00dfer als 0"
    return d


def mk_signal(s):
    """as lib.matrices.build makes the signals of a frame"""
    kw = {}
    if s.get("min") is not None:
        kw["min"] = decimal.Decimal(s["min"])
        kw["max"] = decimal.Decimal(s["max"])
    sg = cm.Signal(s["name"], start_bit=s["start"], size=s["size"], is_little_endian=s["little"], is_signed=s["signed"],
                   is_float=s.get("float", False), factor=decimal.Decimal(s["factor"]), offset=decimal.Decimal(s["offset"]), unit=s.get("unit", ""),
                   receivers=list(s["receivers"]), comment=s.get("comment"), multiplex=s.get("mux"), **kw)
    for k, v in s.get("values", {}).items():
        sg.add_values(int(k), v)
    return sg


def build_rare(db, d):
    """the rarely filled parts (gen_rare), through the calls the readers use"""
    rare = d["rare"]
    for f, fd in zip(db.frames, d["frames"]):
        for p in fd.get("pdus", []):
            pdu = cm.Pdu(name=p["name"], size=p["size"], id=p["id"], triggering_name=p["triggering"], pdu_type=p["type"], port_type=p["port"],
                         cycle_time=p["cycle"])
            for s in p["signals"]:
                pdu.add_signal(mk_signal(s))
            for name, gid, members in p["groups"]:
                pdu.add_signal_group(name, gid, members)
            f.add_pdu(pdu)
        if "pdu_name" in fd:
            f.pdu_name = fd["pdu_name"]
        if "header_id" in fd:
            f.header_id = fd["header_id"]
        for name, gid, members in fd.get("groups", []):
            f.add_signal_group(name, gid, members)
        if "mux_names" in fd:
            f.mux_names = {int(k): v for k, v in fd["mux_names"].items()}
            mx = [s for s in f.signals if s.is_multiplexer]
            if mx:
                mx[0].comments = {int(k): v for k, v in fd["mux_comments"].items()}
        for s, sd in zip(f.signals, fd["signals"]):
            if "initial" in sd:
                s.initial_value = decimal.Decimal(sd["initial"])
            if "sig_cycle" in sd:
                s.cycle_time = sd["sig_cycle"]
            if "enumeration" in sd:
                s.enumeration = sd["enumeration"]
    for name, table in rare.get("value_tables", {}).items():
        db.add_value_table(name, {int(k): v for k, v in table.items()})
    if "env_vars" in rare:
        db.add_env_defines("EnvNote", "STRING")
        for name, ev in rare["env_vars"].items():
            ev = pycopy.deepcopy(ev)
            attrs = ev.pop("attributes", {})
            db.add_env_var(name, ev)
            for a, v in attrs.items():
                db.add_env_attribute(name, a, v)
    if "baudrate" in rare:
        db.baudrate = rare["baudrate"]
        db.fd_baudrate = rare["fd_baudrate"]
    if "Baudrate" in rare:
        db.add_global_defines("Baudrate", "INT 0 1000000")
        db.add_attribute("Baudrate", rare["Baudrate"])


def build(d):
    db = M.build(d, update=d.get("opts", {}).get("update", True))
    if d.get("rare") is not None:
        build_rare(db, d)
    if d.get("long_numbers"):
        for f, fd in zip(db.frames, d["frames"]):
            for s, sd in zip(f.signals, fd["signals"]):
                if "initial" in sd:
                    s.initial_value = decimal.Decimal(sd["initial"])
            for pdu, pd in zip(f.pdus, fd.get("pdus", [])):
                for s, sd in zip(pdu.signals, pd["signals"]):
                    if "initial" in sd:
                        s.initial_value = decimal.Decimal(sd["initial"])
    for s in d.get("free", []):
        db.add_signal(cm.Signal(s["name"], size=s["size"]))
    if d.get("attrs"):
        db.add_frame_defines("GenMsgSendType", 'ENUM "cyclic","spontaneous"')
        db.add_define_default("GenMsgSendType", "cyclic")
        db.add_signal_defines("GenSigNote", "STRING")
        db.add_ecu_defines("NodeLayer", "INT 0 10")
        db.add_global_defines("BusName", "STRING")
        db.add_attribute("BusName", "bus")
        for k, f in enumerate(db.frames):
            if k % 2 == 0:
                f.add_attribute("GenMsgSendType", "spontaneous")
            for s in f.signals[:1]:
                s.add_attribute("GenSigNote", "note")
        for e in db.ecus[:1]:
            e.add_attribute("NodeLayer", "3")
    if any(d.get("sections") or []):
        # as the sym reader records the section of a frame
        db.add_frame_defines("Receivable", "BOOL False True")
        db.add_frame_defines("Sendable", "BOOL False True")
        for f, sec in zip(db.frames, d["sections"]):
            if sec:
                f.add_attribute("Sendable", sec[0])
                f.add_attribute("Receivable", sec[1])
    if d.get("own_defines"):
        db.add_frame_defines("GenMsgCycleTime", "INT 0 1000")
        db.add_frame_defines("VFrameFormat", 'ENUM "StandardCAN","ExtendedCAN","mine"')
        db.add_frame_defines("SystemMessageLongSymbol", "STRING")
        db.add_signal_defines("GenSigStartValue", "INT 0 10")
        db.add_signal_defines("GenSigCycleTime", "INT 0 50")
        db.add_signal_defines("SystemSignalLongSymbol", "STRING")
        db.add_ecu_defines("SystemNodeLongSymbol", "STRING")
        db.add_global_defines("BusType", "STRING")
        db.add_attribute("BusType", "my bus")
        for k, f in enumerate(db.frames):
            if k % 2 == 1:
                f.add_attribute("GenMsgCycleTime", "7")
                f.add_attribute("SystemMessageLongSymbol", "my long name")
            if k == 0:
                f.add_attribute("VFrameFormat", "mine")
            for s in f.signals[1:2]:
                s.add_attribute("GenSigStartValue", "3")
                s.add_attribute("SystemSignalLongSymbol", "my long signal name")
        for e in db.ecus[1:2]:
            e.add_attribute("SystemNodeLongSymbol", "my long node name")
    return db


def gen(rng, tier, shard, nshards):
    nmat = 1 if tier == "quick" else 20 // nshards + 1
    # "hist": the case also makes its exports in a fresh process with a history of its own (see observe).  Every case does in the
    # thorough tier; in the quick tier every random case and, of the exhaustive pairs, one in four per shard - another quarter in
    # the next shard, so that every ordered pair has its history on three or four matrices of a run; a case without it still compares every
    # export of this process with the export made alone in a fresh process
    # (the first two shards, which also run the 'seeds' case, leave the histories of the exhaustive pairs to the others)
    def hist(i, j):
        return tier != "quick" or nshards < 8 or (shard >= 2 and (i + j + shard) % 4 == 0)
    # "env": the environment of one more fresh process that exports the matrix to w1 alone (another time zone, date, user, ...)
    for _ in range(nmat):
        d = gen_own(rng)
        env = gen_env(rng)
        for i, w1 in enumerate(WKEYS):
            for j, w2 in enumerate(WKEYS):
                yield {"op": "exp", "c": {"m": d, "w1": w1, "w2": w2, "hist": hist(i, j), "env": env}}
    for _ in range({"quick": 60, "thorough": 600}[tier] // nshards + 1):
        yield {"op": "exp", "c": {"m": gen_own(rng), "w1": rng.choice(WKEYS), "w2": rng.choice(WKEYS), "env": gen_env(rng)}}
    # the other configurations of the writers: every ordered pair of configurations of one format (one of them not the plain one) on
    # one matrix, and random pairs of any two configurations
    for _ in range(nmat):
        d = gen_own(rng)
        env = gen_env(rng)
        for i, w1 in enumerate(CKEYS):
            for j, w2 in enumerate([w1] + SIBLINGS[w1]):
                if w1 in VARIANTS or w2 in VARIANTS:
                    yield {"op": "exp", "c": {"m": d, "w1": w1, "w2": w2, "hist": hist(i, j), "env": env}}
    for _ in range({"quick": 60, "thorough": 600}[tier] // nshards + 1):
        w1 = rng.choice(CKEYS)
        yield {"op": "exp", "c": {"m": gen_own(rng), "w1": w1, "w2": rng.choice(CKEYS if w1 in VARIANTS else sorted(VARIANTS)), "env": gen_env(rng)}}
    if shard < 2:
        ms = [gen_own(rng, many_groups=(k == 0), common_prefix=(k == 1)) for k in range(3 if tier == "quick" else 10)]
        # seeds 19, 23, 40 give three further iteration orders of {'Multiplexor', 0, 1, 2, 3, 5, …, 233} on CPython 3.12 (found by search)
        seeds = [0, 19, 23, 40, 7, 31] if tier == "quick" else [0, 19, 23, 40, 7, 31, 35, 47, 51, 54, 59, 1]
        if shard == 1:
            seeds = [rng.randrange(10000) for _ in seeds]
        # every process has its own export history: the (configuration, matrix) pairs in the listed order in the first one, in the
        # reverse order in the second one (so every two exports occur in both orders), shuffled in the others
        plain = [[key, k] for key in CONFIGS for k in range(len(ms))]
        orders = [plain, plain[::-1]]
        while len(orders) < len(seeds):
            o = list(plain)
            rng.shuffle(o)
            orders.append(o)
        # ... and its own place and time (the first two processes in time zones 26 hours apart)
        yield {"op": "seeds", "c": {"ms": ms, "seeds": seeds, "orders": orders, "envs": [gen_env(rng, k) for k in range(len(seeds))]}}


def neighbours(case, rng, shard, nshards):
    if case["op"] != "exp":
        return
    for _ in range(40 // nshards + 1):
        yield {"op": "exp", "c": {"m": gen_own(rng), "w1": case["c"]["w1"], "w2": case["c"]["w2"], "env": gen_env(rng)}}
        yield {"op": "exp", "c": {"m": case["c"]["m"], "w1": case["c"]["w1"], "w2": rng.choice(CKEYS), "env": gen_env(rng)}}


def plain(v):
    """a decoded value as text; the result of a container frame is nested (lists of header values, one dictionary per PDU)"""
    if isinstance(v, dict):
        return sorted((k, plain(x)) for k, x in v.items())
    if isinstance(v, (list, tuple)):
        return [plain(x) for x in v]
    # (the raw value, the physical value as the matrix scales it - raw * factor + offset in Decimal arithmetic - and the named value)
    return [str(getattr(v, k, None)) for k in ("raw_value", "phys_value", "named_value")] if hasattr(v, "raw_value") else str(v)


def decode_all(db):
    out = []
    for f in db.frames:
        if f.is_complex_multiplexed:
            continue
        d = None
        try:
            d = f.decode(bytes([0xA5, 0x3C, 0x96, 0x0F, 0xF0, 0x55, 0xAA, 0x81] * 8)[:f.size])
            out.append(plain(d))
        except Exception as e:  # noqa
            out.append("EXC:" + type(e).__name__)
        # ... and back: the physical values just decoded, encoded again (phys2raw: (value - offset) / factor in Decimal arithmetic)
        try:
            phys = {k: v.phys_value for k, v in d.items() if hasattr(v, "phys_value")} if isinstance(d, dict) else None
            out.append(None if phys is None else bytes(f.encode(phys)).hex())
        except Exception as e:  # noqa
            out.append("EXC:" + type(e).__name__)
        # ... and through the matrix, which looks the frame up by its identifier
        try:
            d = db.decode(cm.ArbitrationId(f.arbitration_id.id, f.arbitration_id.extended), bytes([0x5A, 0xC3, 0x69, 0xF0, 0x0F, 0xAA, 0x55, 0x18] * 8)[:f.size])
            out.append(plain(d))
        except Exception as e:  # noqa
            out.append("EXC:" + type(e).__name__)
    return out


def lookups(db):
    """what the matrix answers when it is asked for a frame or an ECU by name or by identifier (public lookups, incl. the two
    dictionaries CanMatrix keeps for get_frame_by_name / get_frame_by_id): asked for every name and identifier in the matrix, for
    the names the formats reserve for themselves and for everything the dictionaries know.  Answers are positions in db.frames."""
    pos = {id(f): k for k, f in enumerate(db.frames)}

    def who(get, *a):
        try:
            f = get(*a)
        except Exception as e:  # noqa
            return "EXC:" + type(e).__name__
        return None if f is None else pos.get(id(f), "a frame that is not in the matrix")
    names = {f.name for f in db.frames} | set(RESERVED_FRAME_NAMES) | set(getattr(db, "frames_dict_name", {}))
    ids = {f.arbitration_id.id for f in db.frames} | {0x40000000} | {k for k in getattr(db, "frames_dict_id", {}) if isinstance(k, int)}
    out = {}
    for n in sorted(names):
        out["frame_by_name " + n] = who(db.frame_by_name, n)
        out["get_frame_by_name " + n] = who(db.get_frame_by_name, n)
    for i in sorted(ids):
        out["get_frame_by_id %d" % i] = who(db.get_frame_by_id, i)
        for ext in (False, True):
            try:
                a = cm.ArbitrationId(i, ext)
            except Exception:  # noqa
                continue
            out["frame_by_id %d %s" % (i, ext)] = who(db.frame_by_id, a)
    epos = {id(e): k for k, e in enumerate(db.ecus)}
    for n in sorted({e.name for e in db.ecus} | {NOBODY}):
        e = db.ecu_by_name(n)
        out["ecu_by_name " + n] = None if e is None else epos.get(id(e), "an ECU that is not in the matrix")
    return out


def process_state():
    """what decoding depends on besides the matrix: the arithmetic context of the decimal module"""
    import decimal
    import locale

    def context(ctx):
        return [ctx.prec, ctx.rounding, ctx.Emin, ctx.Emax, ctx.capitals, ctx.clamp, sorted(str(t) for t, on in ctx.traps.items() if on)]
    # ... this thread's context, the template of the contexts of threads yet to start, and what the arithmetic does with them (a
    # quotient and a product that need all 28 digits); the settings number <-> text conversions and file access read
    third = decimal.Decimal(1) / decimal.Decimal(3)
    return [context(decimal.getcontext()), context(decimal.DefaultContext), str(third), str(third * decimal.Decimal(2 ** 64 - 1)),
            str(decimal.Decimal("0.001953125") * decimal.Decimal(2 ** 63 + 12345) + decimal.Decimal("0.1")),
            locale.setlocale(locale.LC_NUMERIC), locale.setlocale(locale.LC_CTYPE), os.getcwd(), sys.getrecursionlimit(),
            hashlib.sha256(repr(sorted(os.environ.items())).encode()).hexdigest()]


# what CanMatrix keeps to answer lookups faster (filled by the lookups themselves; judged through `lookups`, not as content)
LOOKUP_TABLES = ("frames_dict_name", "frames_dict_id", "_frames_dict_id_extend")


def everything(x, seen=None, top=True):
    """the whole object graph under the matrix, field by field, whatever the fields are called: every attribute of every object
    (frames, signals, PDUs and their signals and groups, ECUs, definitions, environment variables, end points, ...), lists and
    dictionaries in their order, numbers with their type and spelling, and which places hold one and the same object (an object met
    again is named by the number of its first visit).  normal_form names the parts it knows; this one has no list of parts."""
    seen = {} if seen is None else seen
    if x is None or isinstance(x, str):
        return x
    if isinstance(x, (bool, int, float, decimal.Decimal, bytes)):
        return "%s %r" % (type(x).__name__, x)
    import enum
    if isinstance(x, enum.Enum):
        return "%s.%s" % (type(x).__name__, x.name)
    if id(x) in seen:
        return {"the object visited as number": seen[id(x)]}
    seen[id(x)] = len(seen)
    if isinstance(x, dict):
        return {"dict": [[everything(k, seen, False), everything(v, seen, False)] for k, v in x.items()]}
    if isinstance(x, (list, tuple)):
        return {type(x).__name__: [everything(v, seen, False) for v in x]}
    if isinstance(x, (set, frozenset)):
        return {"set": sorted(json.dumps(everything(v, seen, False), sort_keys=True, default=str) for v in x)}
    fields = dict(getattr(x, "__dict__", {}))
    for cls in type(x).__mro__:
        for name in getattr(cls, "__slots__", ()):
            if hasattr(x, name):
                fields[name] = getattr(x, name)
    if not fields and not hasattr(x, "__dict__"):
        return "%s %s" % (type(x).__name__, x)
    return {"object": type(x).__name__,
            "fields": {k: everything(v, seen, False) for k, v in sorted(fields.items()) if not (top and k in LOOKUP_TABLES)}}


def where_differs(a, b, path="matrix"):
    """the first place in which two results of `everything` differ"""
    if type(a) is not type(b):
        return [path, str(a)[:200], str(b)[:200]]
    if isinstance(a, dict):
        if sorted(a) != sorted(b):
            return [path, sorted(a), sorted(b)]
        for k in a:
            d = where_differs(a[k], b[k], path if k in ("fields", "dict", "list", "tuple") else "%s.%s" % (path, k))
            if d:
                return d
        return None
    if isinstance(a, list):
        for k, (x, y) in enumerate(zip(a, b)):
            d = where_differs(x, y, "%s[%d]" % (path, k))
            if d:
                return d
        return None if len(a) == len(b) else [path, "%d entries" % len(a), "%d entries" % len(b)]
    return None if a == b else [path, str(a)[:200], str(b)[:200]]


# where and when an export is made: nothing of it belongs to the matrix, so nothing of it may show in the file.  Two of the time zones are
# 26 hours apart (never on one calendar date, whatever the clock says); the clock is moved by hours, days and years.
TIME_ZONES = ["LINT-14", "AOE12", "UTC0", "CET-1CEST,M3.5.0,M10.5.0/3", "NST3:30NDT,M3.2.0,M11.1.0"]
CLOCK_SHIFTS = [0, 7 * 3600, 3 * 86400, -400 * 86400, 3653 * 86400]


def gen_env(rng, k=None):
    """another place and time for a process (k: the k-th of several processes that are compared with each other - the first two get
    the two time zones that are never on the same date)"""
    return {"TZ": TIME_ZONES[k] if k is not None and k < 2 else rng.choice(TIME_ZONES[:2] * 2 + TIME_ZONES), "clock": rng.choice(CLOCK_SHIFTS),
            "cwd": rng.choice(["/", "/tmp", None]), "locale": rng.choice(["C", "C.utf8", None]),
            "user": rng.choice([None, "someone_else"])}


def enter_environment(env):
    """make THIS process (a child forked for one run, or a worker started for one history) one that runs somewhere else at another
    time: time zone, user, home and working directory, locale, and a clock that is `clock` seconds ahead - for everything that reads
    it through the time or datetime module (also under names bound by `from datetime import datetime` before)."""
    import datetime
    import locale
    import time
    if env.get("TZ"):
        os.environ["TZ"] = env["TZ"]
        time.tzset()
    if env.get("user"):
        for k in ("USER", "LOGNAME", "USERNAME", "LNAME"):
            os.environ[k] = env["user"]
        os.environ["HOME"] = "/home/" + env["user"]
        os.environ["HOSTNAME"] = "host-of-" + env["user"]
    if env.get("cwd"):
        os.chdir(env["cwd"])
    if env.get("locale"):
        os.environ["LC_ALL"] = os.environ["LANG"] = env["locale"]
        try:
            locale.setlocale(locale.LC_ALL, env["locale"])
        except locale.Error:
            pass
    shift = env.get("clock") or 0
    if not shift:
        return
    real = {k: getattr(time, k) for k in ("time", "time_ns", "localtime", "gmtime", "ctime", "asctime", "strftime")}
    real_date, real_datetime = datetime.date, datetime.datetime

    def now():
        return real["time"]() + shift

    class Date(real_date):
        @classmethod
        def today(cls):
            return cls.fromtimestamp(now())

    class DateTime(real_datetime):
        @classmethod
        def now(cls, tz=None):
            return cls.fromtimestamp(now(), tz)

        @classmethod
        def today(cls):
            return cls.fromtimestamp(now())

        @classmethod
        def utcnow(cls):
            return cls.fromtimestamp(now(), datetime.timezone.utc).replace(tzinfo=None)
    Date.__name__ = Date.__qualname__ = "date"
    DateTime.__name__ = DateTime.__qualname__ = "datetime"
    new = {"time": now, "time_ns": lambda: real["time_ns"]() + shift * 10 ** 9,
           "localtime": lambda secs=None: real["localtime"](now() if secs is None else secs),
           "gmtime": lambda secs=None: real["gmtime"](now() if secs is None else secs),
           "ctime": lambda secs=None: real["ctime"](now() if secs is None else secs),
           "asctime": lambda t=None: real["asctime"](real["localtime"](now()) if t is None else t),
           "strftime": lambda fmt, t=None: real["strftime"](fmt, real["localtime"](now()) if t is None else t)}
    swap = {id(v): new[k] for k, v in real.items()}
    swap[id(real_date)], swap[id(real_datetime)] = Date, DateTime
    for mod in list(sys.modules.values()):
        try:
            names = [(k, v) for k, v in vars(mod).items() if id(v) in swap and not k.startswith("__")]
        except Exception:  # noqa
            continue
        for k, v in names:
            try:
                setattr(mod, k, swap[id(v)])
            except Exception:  # noqa
                pass


WORKER = os.path.join(os.path.dirname(os.path.dirname(os.path.abspath(__file__))), "lib", "export_worker.py")
_FRESH = {}
_ALONE = {}


def fresh_runs(ms, runs, text=False, envs=None):
    """(envs: per run None or the environment the child enters before its first export, see enter_environment)
    every run (a list of steps [index into ms, configuration key]) made in a process of its own that has exported nothing before
    (lib/export_worker.py --serve forks one child per run from a process that has only done the imports); per run the sha256 (or the
    text) of every export, 'EXC:<type>' where it raised.  Within a run one matrix index is one object."""
    from lib.core import Infra
    me = os.getpid()
    z = _FRESH.get(me)
    for attempt in (0, 1):
        if z is None or z.poll() is not None:
            # (own interpreter, own hash seed: what is compared with this process must not depend on either)
            z = subprocess.Popen([sys.executable, WORKER, "--serve"], stdin=subprocess.PIPE, stdout=subprocess.PIPE, stderr=subprocess.DEVNULL,
                                 env=dict(os.environ, PYTHONHASHSEED="0", PYTHONDONTWRITEBYTECODE="1"))
            _FRESH[me] = z
        try:
            z.stdin.write((json.dumps({"ms": ms, "runs": runs, "text": text, "envs": envs or [None] * len(runs)}) + "\n").encode())
            z.stdin.flush()
            line = z.stdout.readline()
        except OSError:
            line = b""
        if line:
            return json.loads(line.decode())
        z.kill()
        z = None
    raise Infra("C14: the export server (lib/export_worker.py --serve) does not answer")


def first_difference(a, b):
    la, lb = a.split("\n"), b.split("\n")
    for k in range(max(len(la), len(lb))):
        x, y = (la[k] if k < len(la) else None), (lb[k] if k < len(lb) else None)
        if x != y:
            return {"line": k + 1, "alone in a fresh process": None if x is None else x[:200], "here": None if y is None else y[:200]}
    return None


def observe(case):
    c = case["c"]
    if case["op"] == "seeds":
        worker = WORKER
        results = []
        for seed in c["seeds"]:
            env = dict(os.environ, PYTHONHASHSEED=str(seed), PYTHONDONTWRITEBYTECODE="1")
            job = c["ms"] if "orders" not in c else {"ms": c["ms"], "order": c["orders"][len(results)]}
            cwd = None
            if "envs" in c and "orders" in c:
                # the process is started in its time zone, directory and locale, and moves its clock before its first export
                job["env"] = e = c["envs"][len(results)]
                env.update({k: v for k, v in (("TZ", e.get("TZ")), ("LC_ALL", e.get("locale")), ("LANG", e.get("locale"))) if v})
                cwd = e.get("cwd")
            p = subprocess.run([sys.executable, worker], input=json.dumps(job).encode(), capture_output=True, env=env, timeout=600, cwd=cwd)
            if p.returncode != 0:
                raise RuntimeError("export worker failed: " + p.stderr.decode()[-500:])
            results.append(json.loads(p.stdout.decode().strip().split("\n")[-1]))
        differs = sorted({w for r in results[1:] for w in r if r[w] != results[0][w]})
        # ... and on nothing the process exported before: in this (long-running) process a variant of each matrix (same names,
        # other value texts, comments and lengths) is exported first, then the matrix itself; a fresh process exported only the matrix
        for k, d in enumerate(c["ms"]):
            v = variant_of(d)
            for key, (fmt, opts) in (CONFIGS if "orders" in c else WRITERS).items():
                try:
                    M.export_bytes(build(v), fmt, **opts)
                    if "orders" in c:
                        # ... also with the other configurations of the same writer: what an export was asked for is no one else's default
                        for sib in SIBLINGS[key]:
                            M.export_bytes(build(v), fmt, **CONFIGS[sib][1])
                    h = hashlib.sha256(M.export_bytes(build(d), fmt, **opts)).hexdigest()
                except Exception as e:  # noqa
                    h = "EXC:" + type(e).__name__
                if h != results[0][key][k]:
                    differs.append("after-a-variant:" + key)
        differs = sorted(set(differs))
        return {"same": not differs, "differs": differs}
    f1, o1 = CONFIGS[c["w1"]]
    f2, o2 = CONFIGS[c["w2"]]
    # every case starts from the process state of a fresh interpreter, so that an export that changes it is seen in every case in
    # which it is the first export, not only in the first such case of the process (what an earlier case left behind must not decide
    # whether this one sees a change; the 'seeds' case keeps whatever the process has accumulated)
    decimal.setcontext(decimal.Context(prec=28, rounding=decimal.ROUND_HALF_EVEN, Emin=-999999, Emax=999999, capitals=1, clamp=0, flags=[],
                                       traps=[decimal.InvalidOperation, decimal.DivisionByZero, decimal.Overflow]))
    db = build(c["m"])
    before = M.normal_form(db, "all")
    before["lookups"] = lookups(db)
    before["everything"] = everything(db)
    dec_before = decode_all(db)
    ctx_before = process_state()
    b1 = M.export_bytes(db, f1, **o1)
    after = M.normal_form(db, "all")
    after["lookups"] = lookups(db)
    after["everything"] = everything(db)
    dec_after = decode_all(db)
    ctx_after = process_state()
    b2 = M.export_bytes(db, f2, **o2)
    fresh = build(c["m"])
    b2_fresh = M.export_bytes(fresh, f2, **o2)
    b1_again = M.export_bytes(build(c["m"]), f1, **o1)
    # ... and against processes that have exported nothing else: what this (long-running) process has exported before, for other
    # cases, and what it keeps from it, must not show either.  "alone": one export, the first of its process.  "history": a process
    # that exports a variant of the matrix (same names and numbers, every text and every number written differently) to w1, then
    # the matrix itself to w1, then (the same object) to w2.
    ms = [c["m"], variant_of(c["m"])]
    history = [[1, c["w1"]], [0, c["w1"]], [0, c["w2"]]]
    with_history = c.get("hist", True)
    mkey = hashlib.sha256(json.dumps(c["m"], sort_keys=True).encode()).hexdigest()
    need = [w for w in sorted({c["w1"], c["w2"]}) if (mkey, w) not in _ALONE]
    # "elsewhere": the export to w1 made alone in a fresh process that runs in another environment (c["env"]: time zone, clock, user,
    # directory, locale) - the same matrix, so the same bytes
    env = c.get("env")
    ekey = (mkey, c["w1"], json.dumps(env, sort_keys=True))
    need_env = bool(env) and ekey not in _ALONE
    runs = ([history] if with_history else []) + [[[0, w]] for w in need] + ([[[0, c["w1"]]]] if need_env else [])
    res = ([] if with_history else [[]]) + (fresh_runs(ms, runs, envs=[None] * (len(runs) - 1) + [env] if need_env else None) if runs else [])
    if len(_ALONE) > 4000:
        _ALONE.clear()
    for w, out in zip(need, res[1:]):
        _ALONE[(mkey, w)] = out[0]
    if need_env:
        _ALONE[ekey] = res[-1][0]
    alone1, alone2 = _ALONE[(mkey, c["w1"])], _ALONE[(mkey, c["w2"])]
    elsewhere1 = _ALONE[ekey] if env else alone1

    def sha(b):
        return hashlib.sha256(b).hexdigest()
    # (name of the comparison: [equal?, which text is compared with the export made alone (for the report)])
    across = {"w2 after w1 of a variant and w1 of the matrix, in a fresh process": [not with_history or res[0][2] == alone2, lambda: fresh_runs(ms, [history], text=True)[0][2]],
              "w2 after w1 in this process": [sha(b2) == alone2, lambda: b2.decode("latin-1")],
              "w2 of a fresh copy in this process": [sha(b2_fresh) == alone2, lambda: b2_fresh.decode("latin-1")]}
    twice = {"w1 after w1 of a variant, in a fresh process": [not with_history or res[0][1] == alone1, lambda: fresh_runs(ms, [history], text=True)[0][1]],
             "w1 in this process": [sha(b1) == alone1, lambda: b1.decode("latin-1")],
             "w1 of a fresh copy in this process": [sha(b1_again) == alone1, lambda: b1_again.decode("latin-1")],
             "w1 alone in a fresh process in another environment (time zone, clock, user, directory, locale)":
                 [elsewhere1 == alone1, lambda: fresh_runs(ms, [[[0, c["w1"]]]], text=True, envs=[env])[0][0]]}
    r = {"unchanged": before == after, "second_same": b2 == b2_fresh and all(v[0] for v in across.values()),
         "twice_same": b1 == b1_again and all(v[0] for v in twice.values()), "decode_same": dec_before == dec_after and ctx_before == ctx_after}
    differ = [(k, v[1], w) for w, grp in ((c["w2"], across), (c["w1"], twice)) for k, v in grp.items() if not v[0]]
    if differ:
        r["differs_from_the_export_made_alone_in_a_fresh_process"] = sorted(k for k, _, _ in differ)
        k, text, w = differ[0]
        r["first_difference"] = dict(first_difference(fresh_runs(ms, [[[0, w]]], text=True)[0][0], text()) or {}, of=k)
        if env and elsewhere1 != alone1:
            r["environment"] = env
    if ctx_before != ctx_after:
        r["process_state"] = [str(ctx_before), str(ctx_after)]
    if not r["unchanged"]:
        r["diff"] = [k for k in before if before[k] != after[k]]
        if "everything" in r["diff"]:
            r["first_change [place, before, after]"] = where_differs(before["everything"], after["everything"])
        if "lookups" in r["diff"]:
            r["lookups"] = {k: [before["lookups"].get(k, "not asked"), after["lookups"].get(k, "not asked")]
                            for k in sorted(set(before["lookups"]) | set(after["lookups"])) if before["lookups"].get(k, "not asked") != after["lookups"].get(k, "not asked")}
    return r


def project(impl):
    if "same" in impl:
        return {"same": impl["same"]}
    return {k: impl[k] for k in ("unchanged", "second_same", "twice_same", "decode_same")}


def features(case, impl):
    yield "op=" + case["op"]
    if case["op"] == "exp":
        yield "w1=" + case["c"]["w1"]
        m = case["c"]["m"]
        names = [f["name"] for f in m["frames"]]
        if len(set(names)) < len(names):
            yield "duplicate frame names"
        if not m.get("opts", {}).get("update", True):
            yield "receivers not propagated"
        if m.get("free"):
            yield "free signals"
        if case["c"]["w1"] in VARIANTS or case["c"]["w2"] in VARIANTS:
            yield "a writer with options"
        if any(n in RESERVED_FRAME_NAMES for n in names):
            yield "a frame with a name the formats reserve" + (" and free signals" if m.get("free") else "")
        if NOBODY in json.dumps(m):
            yield "the ECU name the formats reserve"
        if m.get("own_defines"):
            yield "definitions under the writers' own names"
        if "\\u00" in json.dumps(m):
            yield "texts outside ASCII"
        numbers = [sg[k] for f in m["frames"] for sg in f["signals"] for k in ("factor", "offset", "min", "max") if sg.get(k) is not None]
        if len({decimal.Decimal(x) for x in numbers}) < len(set(numbers)):
            yield "one number in several spellings"
        for f in m["frames"]:
            mv = [sg["mux"] for sg in f["signals"] if isinstance(sg.get("mux"), int)]
            if mv != sorted(mv) or (mv and f["signals"][0].get("mux") != "Multiplexor"):
                yield "multiplexed signals not listed by multiplexer value"
                break
        if m.get("related_names"):
            yield "names that are no identifiers and differ only in such characters or in letter case"
        if any(m.get("sections") or []):
            yield "frames in sym's SEND / RECEIVE sections"
        if m.get("rare") is not None:
            yield "rarely filled parts"
            for f in m["frames"]:
                if f.get("pdus"):
                    yield "a frame with PDUs" + (" and nothing but the header signals" if f["signals"][0]["name"] == "Header_ID" else "")
                    if any(p["signals"] for p in f["pdus"]):
                        yield "a PDU with signals"
                for k, text in (("groups", "signal groups"), ("mux_names", "names per multiplexer value"), ("pdu_name", "a PDU name"), ("header_id", "a header id")):
                    if f.get(k):
                        yield text
            for k in m["rare"]:
                yield "rare: " + k
        if case["c"].get("env"):
            e = case["c"]["env"]
            yield "w1 also alone in a fresh process elsewhere: TZ=%s" % e["TZ"]
            yield "w1 also alone in a fresh process elsewhere: clock %+d days" % (e["clock"] // 86400)
        yield "own history in a fresh process" if case["c"].get("hist", True) else "compared with exports made alone in fresh processes"
    elif "orders" in case["c"]:
        yield "export histories differ between the processes"
        if "envs" in case["c"]:
            yield "time zone, clock, user, directory and locale differ between the processes"


def nontrivial(case, impl):
    return True


def classify(case, impl, spec):
    return None
