import CanVerif.Model.ArbId
import CanVerif.Spec.J1939
/-!
# Helper lemmas for C09: masks and shifts on `Nat` as `%`, `/`, `*`

Every mask used by `ArbitrationId` is rewritten into div/mod form with literal powers of two, after
which `omega` decides the arithmetic.
-/
namespace CanVerif.ArbId

/-! ## generic splitting of `&&&` / `|||` at bit `k` -/

theorem and_split (a b k : Nat) :
    a &&& b = ((a / 2 ^ k) &&& (b / 2 ^ k)) * 2 ^ k + ((a % 2 ^ k) &&& (b % 2 ^ k)) := by
  rw [← Nat.and_div_two_pow, ← Nat.and_mod_two_pow, Nat.mul_comm]
  exact (Nat.div_add_mod _ _).symm

theorem or_split (a b k : Nat) :
    a ||| b = ((a / 2 ^ k) ||| (b / 2 ^ k)) * 2 ^ k + ((a % 2 ^ k) ||| (b % 2 ^ k)) := by
  rw [← Nat.or_div_two_pow, ← Nat.or_mod_two_pow, Nat.mul_comm]
  exact (Nat.div_add_mod _ _).symm

/-- `|||` of a small number with a multiple of `2^k` is addition -/
theorem or_mul_add (a b k : Nat) (ha : a < 2 ^ k) : a ||| b * 2 ^ k = a + b * 2 ^ k := by
  rw [Nat.or_comm, Nat.mul_comm, ← Nat.two_pow_add_eq_or_of_lt ha b, Nat.add_comm]

theorem or_shift_add (a b k : Nat) (ha : a < 2 ^ k) : a ||| (b <<< k) = a + b * 2 ^ k := by
  rw [Nat.shiftLeft_eq]; exact or_mul_add a b k ha

/-! ## the concrete masks -/

theorem and_1 (x : Nat) : x &&& 1 = x % 2 := by
  simp

theorem and_7 (x : Nat) : x &&& 7 = x % 8 := by
  have := Nat.and_two_pow_sub_one_eq_mod x 3; simpa using this

theorem and_3f (x : Nat) : x &&& 63 = x % 64 := by
  have := Nat.and_two_pow_sub_one_eq_mod x 6; simpa using this

theorem and_ff (x : Nat) : x &&& 255 = x % 256 := by
  have := Nat.and_two_pow_sub_one_eq_mod x 8; simpa using this

theorem and_3ffff (x : Nat) : x &&& 0x3FFFF = x % 2 ^ 18 := by
  have := Nat.and_two_pow_sub_one_eq_mod x 18; simpa using this

theorem and_ffffff (x : Nat) : x &&& 0xffffff = x % 2 ^ 24 := by
  have := Nat.and_two_pow_sub_one_eq_mod x 24; simpa using this

theorem and_3ffffff (x : Nat) : x &&& 0x3ffffff = x % 2 ^ 26 := by
  have := Nat.and_two_pow_sub_one_eq_mod x 26; simpa using this

theorem and_std (x : Nat) : x &&& standardMask = x % 2 ^ 11 := by
  have := Nat.and_two_pow_sub_one_eq_mod x 11; simpa [standardMask] using this

theorem and_ext (x : Nat) : x &&& extendedMask = x % 2 ^ 29 := by
  have := Nat.and_two_pow_sub_one_eq_mod x 29; simpa [extendedMask] using this

/-- `0xfc0000ff` keeps bits 26.. (six of them below 2^32) and the low byte -/
theorem and_fc0000ff (x : Nat) : x &&& 0xfc0000ff = (x / 2 ^ 26 % 64) * 2 ^ 26 + x % 256 := by
  rw [and_split x 0xfc0000ff 26]
  have h1 : (0xfc0000ff : Nat) / 2 ^ 26 = 63 := by decide
  have h2 : (0xfc0000ff : Nat) % 2 ^ 26 = 255 := by decide
  rw [h1, h2, and_3f, and_ff]
  omega

theorem and_ffffff00 (x : Nat) : x &&& 0xffffff00 = (x / 256 % 2 ^ 24) * 256 := by
  rw [and_split x 0xffffff00 8]
  have h1 : (0xffffff00 : Nat) / 2 ^ 8 = 0xffffff := by decide
  have h2 : (0xffffff00 : Nat) % 2 ^ 8 = 0 := by decide
  rw [h1, h2, and_ffffff, Nat.and_zero]
  omega

theorem and_3ffff00 (x : Nat) : x &&& 0x3FFFF00 = (x / 256 % 2 ^ 18) * 256 := by
  rw [and_split x 0x3FFFF00 8]
  have h1 : (0x3FFFF00 : Nat) / 2 ^ 8 = 0x3FFFF := by decide
  have h2 : (0x3FFFF00 : Nat) % 2 ^ 8 = 0 := by decide
  rw [h1, h2, and_3ffff, Nat.and_zero]
  omega

/-- bit 31 of a compound integer -/
theorem and_bit31 (x : Nat) : x &&& compoundExtendedMask = (x / 2 ^ 31 % 2) * 2 ^ 31 := by
  have hm : compoundExtendedMask = 2 ^ 31 := by decide
  rw [hm, and_split x (2 ^ 31) 31]
  have h1 : (2 : Nat) ^ 31 / 2 ^ 31 = 1 := by decide
  have h2 : (2 : Nat) ^ 31 % 2 ^ 31 = 0 := by decide
  rw [h1, h2, and_1, Nat.and_zero]
  omega

theorem or_bit31 (x : Nat) (h : x < 2 ^ 31) : x ||| compoundExtendedMask = x + 2 ^ 31 := by
  have hm : compoundExtendedMask = 1 * 2 ^ 31 := by decide
  rw [hm, or_mul_add x 1 31 h]

/-! ## the fields in div/mod form -/

theorem sa_eq (id : Nat) : sa id = id % 256 := by
  unfold sa; exact and_ff id

theorem ps_eq (id : Nat) : ps id = id / 256 % 256 := by
  unfold ps; rw [Nat.shiftRight_eq_div_pow]; exact and_ff _

theorem pf_eq (id : Nat) : pf id = id / 65536 % 256 := by
  unfold pf; rw [Nat.shiftRight_eq_div_pow]; exact and_ff _

theorem dp_eq (id : Nat) : dp id = id / 2 ^ 24 % 2 := by
  unfold dp; rw [Nat.shiftRight_eq_div_pow]; exact and_1 _

theorem edp_eq (id : Nat) : edp id = id / 2 ^ 25 % 2 := by
  unfold edp; rw [Nat.shiftRight_eq_div_pow]; exact and_1 _

theorem prio_eq (id : Nat) : prio id = id / 2 ^ 26 % 8 := by
  unfold prio; rw [Nat.shiftRight_eq_div_pow]; exact and_7 _

theorem pgnOfId_eq (id : Nat) :
    pgnOfId id = id / 2 ^ 25 % 2 * 2 ^ 17 + id / 2 ^ 24 % 2 * 2 ^ 16 + id / 65536 % 256 * 2 ^ 8 +
      (if id / 65536 % 256 ≥ 240 then id / 256 % 256 else 0) := by
  unfold pgnOfId pduFormat
  simp only [Nat.shiftLeft_eq, ps_eq, pf_eq, dp_eq, edp_eq]
  by_cases h : id / 65536 % 256 < 240
  · have h' : ¬ id / 65536 % 256 ≥ 240 := by omega
    simp [h, h']; omega
  · have h' : id / 65536 % 256 ≥ 240 := by omega
    simp [h, h']; omega

/-! ## the setters in div/mod form -/

theorem setPriority_id (a : ArbId) (v : Nat) :
    (a.setPriority v).id = a.id % 2 ^ 26 + (v % 8) * 2 ^ 26 := by
  unfold setPriority
  simp only
  rw [and_3ffffff, and_7, or_shift_add _ _ 26 (Nat.mod_lt _ (by decide))]

theorem setSource_id (a : ArbId) (v : Nat) :
    (a.setSource v).id = (a.id / 256 % 2 ^ 24) * 256 + v % 256 := by
  unfold setSource
  simp only
  rw [and_ffffff00, and_ff, Nat.or_comm]
  have := or_mul_add (v % 256) (a.id / 256 % 2 ^ 24) 8 (Nat.mod_lt _ (by decide))
  simp only [Nat.reducePow] at this ⊢
  rw [this]; omega

theorem setPgn_id (a : ArbId) (v : Nat) :
    (a.setPgn v).id = (a.id / 2 ^ 26 % 64) * 2 ^ 26 + (v % 2 ^ 18) * 256 + a.id % 256 := by
  unfold setPgn
  simp only
  rw [and_fc0000ff, and_3ffff, Nat.shiftLeft_eq, and_3ffff00]
  have e1 : v % 2 ^ 18 * 2 ^ 8 / 256 % 2 ^ 18 = v % 2 ^ 18 := by omega
  rw [e1]
  -- (hi * 2^26 + lo) ||| m * 256  with lo < 256, m < 2^18
  have hlo : a.id % 256 < 2 ^ 8 := by omega
  have h1 : a.id / 2 ^ 26 % 64 * 2 ^ 26 + a.id % 256 = a.id % 256 ||| a.id / 2 ^ 26 % 64 * 2 ^ 26 := by
    rw [or_mul_add _ _ 26 (by omega)]; omega
  rw [h1, Nat.or_assoc, Nat.or_comm (a.id / 2 ^ 26 % 64 * 2 ^ 26), ← Nat.or_assoc]
  have h2 : a.id % 256 ||| v % 2 ^ 18 * 256 = a.id % 256 + v % 2 ^ 18 * 256 := by
    have := or_mul_add (a.id % 256) (v % 2 ^ 18) 8 hlo
    simpa using this
  rw [h2, or_mul_add _ _ 26 (by omega)]
  omega

/-! ## the constructor -/

theorem make_ok_iff (id : Int) (ext : Bool) (a : ArbId) :
    make id ext = .ok a ↔ (0 ≤ id ∧ Spec.validId id.toNat ext = true ∧ a = ⟨id.toNat, ext⟩) := by
  unfold make Spec.validId
  by_cases hneg : id < 0
  · simp [hneg]; omega
  · have h0 : 0 ≤ id := by omega
    simp only [hneg, if_false, h0, true_and]
    cases ext
    · simp only [Bool.false_eq_true, if_false, and_std]
      by_cases hlt : id.toNat < 2 ^ 11
      · have : id.toNat % 2 ^ 11 = id.toNat := Nat.mod_eq_of_lt hlt
        simp [this, hlt, eq_comm]
      · have : id.toNat % 2 ^ 11 ≠ id.toNat := by omega
        simp [hlt, Ne.symm this]
    · simp only [if_true, and_ext]
      by_cases hlt : id.toNat < 2 ^ 29
      · have : id.toNat % 2 ^ 29 = id.toNat := Nat.mod_eq_of_lt hlt
        simp [this, hlt, eq_comm]
      · have : id.toNat % 2 ^ 29 ≠ id.toNat := by omega
        simp [hlt, Ne.symm this]

/-! ## `from_pgn` and PGN based lookup -/

theorem pgnOfId_lt (id : Nat) : pgnOfId id < 2 ^ 18 := by
  rw [pgnOfId_eq]; split <;> omega

theorem fromPgn_ok (p : Nat) (hp : p < 2 ^ 18) : fromPgn p = .ok ⟨p <<< 8, true⟩ := by
  unfold fromPgn
  rw [make_ok_iff]
  have hlt : p <<< 8 < 2 ^ 29 := by rw [Nat.shiftLeft_eq]; omega
  simp only [Int.toNat_natCast, Spec.validId, if_true, decide_eq_true_eq]
  exact ⟨Int.natCast_nonneg _, hlt, trivial⟩

/-- the PGN of `from_pgn p`: the PDU1 destination byte is dropped -/
theorem pgnOfId_shift (p : Nat) (hp : p < 2 ^ 18) :
    pgnOfId (p <<< 8) = (if p / 256 % 256 ≥ 240 then p else p / 256 * 256) := by
  simp only [pgnOfId_eq, Nat.shiftLeft_eq]
  have e1 : p * 2 ^ 8 / 2 ^ 25 % 2 = p / 2 ^ 17 % 2 := by omega
  have e2 : p * 2 ^ 8 / 2 ^ 24 % 2 = p / 2 ^ 16 % 2 := by omega
  have e3 : p * 2 ^ 8 / 65536 % 256 = p / 256 % 256 := by omega
  have e4 : p * 2 ^ 8 / 256 % 256 = p % 256 := by omega
  rw [e1, e2, e3, e4]
  split <;> omega

/-- a value that already is a PGN is a fixed point of `from_pgn(..).pgn` -/
theorem pgnOfId_shift_pgnOfId (id : Nat) : pgnOfId (pgnOfId id <<< 8) = pgnOfId id := by
  rw [pgnOfId_shift _ (pgnOfId_lt id)]
  generalize hP : pgnOfId id = P
  rw [pgnOfId_eq] at hP
  have he : id / 2 ^ 25 % 2 < 2 := Nat.mod_lt _ (by decide)
  have hd : id / 2 ^ 24 % 2 < 2 := Nat.mod_lt _ (by decide)
  have hf : id / 65536 % 256 < 256 := Nat.mod_lt _ (by decide)
  have hs : id / 256 % 256 < 256 := Nat.mod_lt _ (by decide)
  generalize id / 2 ^ 25 % 2 = e at hP he
  generalize id / 2 ^ 24 % 2 = d at hP hd
  generalize id / 65536 % 256 = f at hP hf
  generalize id / 256 % 256 = s at hP hs
  split at hP
  · have key : P / 256 % 256 = f := by subst hP; omega
    clear hP
    split
    · rfl
    · omega
  · have key : P / 256 % 256 = f ∧ P % 256 = 0 := by subst hP; omega
    clear hP
    split
    · rfl
    · omega

end CanVerif.ArbId

namespace CanVerif
open ArbId

theorem frameByPgn_pgnOfId (frames : List FrameKey) (id : Nat) :
    frameByPgn frames (pgnOfId id) =
      .ok (frames.find? (fun f => f.aid.ext && pgnOfId f.aid.id == pgnOfId id)) := by
  unfold frameByPgn
  rw [fromPgn_ok _ (pgnOfId_lt id)]
  simp only [pgnOfId_shift_pgnOfId]

theorem eqv_iff (a b : ArbId) : a.eqv b = true ↔ a.id = b.id ∧ a.ext = b.ext := by
  simp [eqv]

end CanVerif
