"""C18 - canconvert options have exactly their documented effect."""
import collections
import contextlib
import fnmatch
import io
import json
import logging
import os
import random
import shutil
import tempfile

import canmatrix.canmatrix as cm
import canmatrix.cli.convert
import canmatrix.convert
import canmatrix.formats
from lib import dbcgen as G
from lib import matrices as M

PID = "C18"
EXTRA_PROPS = ("C18s",)
RULE = ("case 'conv' = (generated DBC matrix with unique frame names, signal names unique per frame (half of the matrices reuse them across frames), several senders and receivers, ECUs that send and receive, "
        "receive-only and unreferenced ECUs, user attributes on frames and signals, zero-length signals, FD frames, frames of 1..64 bytes; "
        "a third of the frames multiplexed (one multiplexer signal anywhere in the frame, multiplexed signals m<n> - several per value, on shared "
        "bits - and plain signals), a quarter of the signals signed; the multiplexer role, the multiplexer value and the signedness of every signal "
        "are observed in the output and judged as unchanged (they travel as entries of the signal's attribute list, KIND_ATTRS); deleteSignal "
        "lists name signals by role too (the multiplexer while its multiplexed signals stay, one or all multiplexed signals); "
        "no option, one option or a pair of options out of deleteEcu, renameEcu, deleteFrame, renameFrame, deleteSignal, renameSignal, "
        "deleteZeroSignals, deleteSignalAttributes, deleteFrameAttributes, setFrameFd, unsetFrameFd, skipLongDlc, cutLongFrames, "
        "recalcDLC, changeFrameId, addFrameReceiver, deleteObsoleteEcus, frames, ecus with rx/tx suffixes; arguments: existing and "
        "unknown names, comma lists, glob patterns where the called method takes them, `*` prefix/suffix forms of the rename "
        "methods, thresholds below, at and above existing lengths; invocation through canmatrix.convert.convert or through the click "
        "command): the output DBC file re-read and reduced to names, ids, lengths, FD flag, senders, signals with position, length, "
        "30 % of the extended identifiers are numbers below 0x800. receivers and user attributes, and the ECU list closed under references. Non-trivial = distinct case with an option that "
        "changes the matrix.  Two further streams reach the options the model has no field for, by the converter call they are documented "
        "to equal: (merge) a main file and one or two other files (frame names disjoint, some identifiers shared with the main file), "
        "--merge file[:frame=A][:ecu=X][:frame=B]...[,file2] with no, one or several frame= and ecu= selectors per file, in any order (repeated and "
        "unknown names among them; ECUs of the other file that send, that only receive, that do both, that have no frame there, names the "
        "other file does not know, glob patterns), alone, after --frames, or followed by one other option; judged as the selection of the main "
        "frames followed by the merged frames out of the union of the files (copy.copy_frame one by one, the clause of --frames), where ecu=X "
        "stands for the frames of that file X sends, then the frames one of whose signals X receives, in file order.  (signals) --signals with one to three names or "
        "glob patterns (names that occur in several frames, overlapping patterns, unknown names), alone, with --frames or with a frame-level "
        "option; the free signals of the output (the DBC pseudo frame) are observed as a last frame and must be every signal a pattern "
        "selects, pattern by pattern and frame by frame, unchanged.  (definitions) --deleteObsoleteDefines, alone, with --deleteSignalAttributes / "
        "--deleteFrameAttributes or with one or two other options, and the same calls without the flag as control, on input files that also "
        "define an ECU attribute (carried by some, one or no ECU); judged as the call without the flag, and - unless an option removes frames, "
        "signals or ECUs - the attribute definitions of the output (frame, signal, ECU level) are observed as the name of a last empty frame "
        "and must be all of them without the flag, exactly those still carried by something with it.  Lists documented as lists of NAMES "
        "(deleteFrame, setFrameFd, unsetFrameFd, deleteSignalAttributes, deleteFrameAttributes, the old names of renameEcu / renameFrame / "
        "renameSignal) hold, in a quarter of the cases, an entry with `*`, `?` or `[..]` that is no name but would select existing items as a "
        "pattern (alone, before or after the names): nothing may happen for it.  Two streams with input files that are no DBC files: "
        "(buses) a KCD file with one to three named buses, a third of them without a frame, no option, an option that removes every frame of "
        "a bus (skipLongDlc below every length, deleteFrame of all its frames) or one or two other options; one bus is judged as usual from "
        "out_<bus>.dbc, and the set of output files must be one file per bus of the input (what load + dump through the API write).  "
        "(container) an ARXML file with a CAN frame holding a CONTAINER-I-PDU (short or long header; one to four contained PDUs with header "
        "ids 0, small and large, one to three signals each) and at most one plain frame, alone, with --ignorePduContainer (judged as "
        "--deleteFrame of the container frame) or with one frame-level option; judged against the multiplexed image of the container frame "
        "(container_image: Header_ID the multiplexer, Header_DLC, every signal of a contained PDU behind the header and multiplexed with the "
        "header id of its PDU).  (histories) 3 % of the plain cases and 30 % of the cases of the other streams are observed after one or two "
        "earlier conversions of the same stream in the same process and on the same file names (input file, merge files, output), whose "
        "output is thrown away; the judged call must not depend on them.  (ECU definitions of a merged file) in 70 % of the merge cases the "
        "first merged file defines an ECU attribute (with or without default, values on no, one or several ECUs; a quarter of the main files "
        "define it too, with another default): whether the output defines it and the value the ECUs named by ecu= have there are observed "
        "as the name of a last empty frame (ecu_definitions_expected).")
PARTIAL = ["ECU attribute definitions after --merge: not judged when an ECU with a value only comes along with a merged frame, and the value of "
           "a named ECU with a value of its own that the main file knows already is not judged (merge_ecu_value_note); frame and signal "
           "level definitions of a merged file are those of the main file in the generated inputs",
           "compressFrame (C16) and signalNameFromAttrib are not modelled; the PDU-container rewrite has no function in the Lean model: its documented "
           "result (container_image in harness/props/c18.py) is computed by the harness and handed to the judge as the input matrix; containers "
           "without header and contained PDUs without header id are not generated",
           "KCD input (several buses): only what KCD carries (no FD flag, no attributes, no zero-length signals, no multiplexed frames - the KCD "
           "writer loops over 2^width values of a multiplexer); ARXML input: several plain frames are not generated (the ARXML reader does not "
           "keep their file order)",
           "deleteObsoleteDefines has no field in the model: judged as the call without it on frames, signals, attribute values and ECUs; the "
           "expected attribute definitions are computed by the harness (definitions_expected) and handed to the Lean judge as the name of a "
           "frame of the input, only for calls whose other options leave all frames, signals and ECUs in place", "only DBC output files; DBC input files except for the streams buses (KCD) and container (ARXML)", "the selection options are specified by the model of copy.py (C12), not by "
           "an independent clause",
           "merge: whole files, frame= and ecu= selectors, reduced to the --frames clause over the union of the files.  That clause lists exactly "
           "the ECUs the selected frames refer to, so an ECU-list entry without a frame cannot be expected through it: the ECU list of the main "
           "file holds referenced ECUs only in this stream, and an ecu=X selector is generated only when X ends up referenced by a frame of the "
           "result (X sends or receives a merged frame, or a frame of the main file refers to X) - that the named ECU itself is listed when "
           "none of its frames arrives (no frame in the other file, or all identifiers taken in the main file) is not judged "
           "(merge_ecu_listing_note in harness/props/c18.py)",
           "signals: the expected free signals (fnmatch selection, pattern by pattern, and the numbering the DBC writer gives to equal names within "
           "one frame) are computed by the harness and handed to the Lean judge as a frame of the input; options that edit signals are not "
           "paired with --signals (what they do to free signals is not documented)"]
ASSUMPTIONS = ["unique frame names, signal names unique within a frame (the same name may occur in several frames); new names of renames and new identifiers of changeFrameId are not in use",
               "the DBC round trip of the output is lossless on the compared fields (C05)"]
TRUSTED = ["click.testing.CliRunner", "DBC reader used to observe the output (C05)"]
CORRESPONDENCE = "re-read output of convert()/cli_convert == CanVerif.Conv.convert (Model/Convert.lean) on the abstract matrix"
NSHARDS = {"quick": 16, "thorough": 16}

ECUS = ["ECU_A", "ECU_B", "Gw", "Body", "Diag", "Brake"]
logging.getLogger("canmatrix").setLevel(logging.CRITICAL)


def gen_matrix(rng):
    ecus = rng.sample(ECUS, rng.randint(2, 6))
    frames = []
    ids = set()
    signo = 0
    shared_names = rng.random() < 0.5       # the same signal names ("Counter", "Checksum") in several frames
    for k in range(rng.randint(1, 5)):
        if shared_names:
            signo = 0
        ext = rng.random() < 0.3
        while True:
            arbid = rng.randrange(1, 1 << 29) if ext else rng.randrange(1, 1 << 11)
            if ext and rng.random() < 0.3:
                arbid = rng.randrange(1, 1 << 11)        # an extended identifier may be a small number
            if arbid not in ids:
                ids.add(arbid)
                break
        fd = rng.random() < 0.25
        size = rng.choice([1, 2, 3, 4, 6, 8, 8] + ([12, 16, 24, 64] if fd else []))
        sigs = []
        pos = 0
        # the kinds of signals (KIND_ATTRS): a third of the frames are multiplexed - one signal is the multiplexer (at any place in
        # the frame, of any width), each of the others is multiplexed (m<n>, several signals per value, values left out, signals of
        # different values on the same bits) or plain; a quarter of all signals are signed
        muxed = rng.random() < 0.35
        nsig = rng.randint(0, 5)
        muxer = rng.randrange(nsig) if muxed and nsig else None
        last = None                              # (start, size, value) of the multiplexed signal before this one
        for j in range(nsig):
            w = rng.choice([0, 1, 2, 4, 8, 8, 12, 16]) if rng.random() < 0.9 else rng.randint(1, 32)
            gap = rng.choice([0, 0, 1, 4, 8])
            kind = []
            start = pos + gap
            if muxed and j == muxer:
                kind.append(["mux", "M"])
            elif muxed and rng.random() < 0.75:
                val = rng.choice([0, 0, 1, 1, 2, 3, 7])
                if last is not None and last[2] != val and rng.random() < 0.5:
                    start, w = last[0], (last[1] if rng.random() < 0.5 else min(w, last[1]))
                kind.append(["mux", "m%d" % val])
            if max(start + w, pos) > size * 8:
                break
            if rng.random() < 0.25:
                kind.append(["signed", "1"])
            if kind and kind[0][0] == "mux" and kind[0][1] != "M":
                last = (start, w, val)
            sigs.append({"name": "%s%d" % (rng.choice(["sig", "Speed", "st", "st1_1"]), signo), "start": start, "size": w,
                         "receivers": rng.sample(ecus, rng.choice([0, 1, 1, 2])),
                         "attrs": [["SgInt", str(rng.randint(0, 9))]] * (rng.random() < 0.3) + [["SgStr", rng.choice(["a", "b c"])]] * (rng.random() < 0.2) + kind})
            signo += 1
            pos = max(pos, start + w)
        frames.append({"name": "%s%d" % (rng.choice(["Frame", "Msg", "Frame_x", "Msg0_0"]), k), "id": arbid, "ext": ext, "size": size, "fd": fd,
                       "tx": rng.sample(ecus, rng.choice([0, 1, 1, 1, 2])), "sigs": sigs,
                       "attrs": [["FrInt", str(rng.randint(0, 9))]] * (rng.random() < 0.3) + [["FrStr", rng.choice(["x", "y z"])]] * (rng.random() < 0.2)})
    return {"ecus": ecus, "frames": frames}


def build(m, ecu_attrs=None, ecu_other=None):
    """ecu_other: {"default": text or None, "values": [[ecu, text], ...]} - the file also defines the ECU attribute EcOther"""
    db = cm.CanMatrix()
    db.add_frame_defines("FrInt", "INT 0 100")
    db.add_frame_defines("FrStr", "STRING")
    db.add_signal_defines("SgInt", "INT 0 100")
    db.add_signal_defines("SgStr", "STRING")
    if ecu_attrs is not None:
        db.add_ecu_defines("EcInt", "INT 0 100")
    for e in m["ecus"]:
        db.add_ecu(cm.Ecu(e))
    for e, v in ecu_attrs or ():
        db.ecu_by_name(e).add_attribute("EcInt", v)
    if ecu_other is not None:
        db.add_ecu_defines(OTHER_ECU_ATTR, "INT 0 100")
        if ecu_other["default"] is not None:
            db.add_define_default(OTHER_ECU_ATTR, ecu_other["default"])
        for e, v in ecu_other["values"]:
            if db.ecu_by_name(e) is not None:
                db.ecu_by_name(e).add_attribute(OTHER_ECU_ATTR, v)
    for f in m["frames"]:
        fr = cm.Frame(f["name"], arbitration_id=cm.ArbitrationId(f["id"], f["ext"]), size=f["size"], transmitters=list(f["tx"]), is_fd=f["fd"])
        for s in f["sigs"]:
            kind = dict(kv for kv in s["attrs"] if kv[0] in KIND_ATTRS)
            sg = cm.Signal(s["name"], start_bit=s["start"], size=s["size"], is_little_endian=True, is_signed="signed" in kind,
                           receivers=list(s["receivers"]), multiplex=mux_arg(kind.get("mux")))
            for k, v in s["attrs"]:
                if k not in KIND_ATTRS:
                    sg.add_attribute(k, v)
            fr.add_signal(sg)
        for k, v in f["attrs"]:
            fr.add_attribute(k, v)
        fr.update_receiver()
        db.add_frame(fr)
    return db


USER_ATTRS = {"FrInt", "FrStr", "SgInt", "SgStr"}
# What kind of signal it is - properties no option is documented to touch - travels in the place of the judge's matrix that no option
# but deleteSignalAttributes (never called with these names) touches, the attribute list of the signal: ["mux", "M"] the multiplexer of
# its frame, ["mux", "m<n>"] multiplexed with the value n, ["signed", "1"] a signed value.  build() makes the real signal of that kind,
# kind_of() reads the kind of a signal of the output back, so "and in no other way" covers them, and every option meets multiplexers
# and multiplexed signals among its targets and among the bystanders.
KIND_ATTRS = ("mux", "signed")


def mux_arg(text):
    """the `multiplex` argument of canmatrix.Signal for ["mux", text]"""
    if text is None:
        return None
    return "Multiplexor" if text == "M" else int(text[1:])


def kind_of(s):
    kind = []
    if s.is_multiplexer or s.mux_val is not None:
        kind.append(["mux", ("m%d" % s.mux_val if s.mux_val is not None else "") + ("M" if s.is_multiplexer else "")])
    if s.is_signed:
        kind.append(["signed", "1"])
    return kind


def sig_attrs(s):
    return sorted([[k, str(v)] for k, v in s.attributes.items() if k in USER_ATTRS] + kind_of(s))
# what the DBC format makes of signals without a frame (dbc.py dump/load): a frame of this name and identifier, no length, no sender
PSEUDO = {"name": "VECTOR__INDEPENDENT_SIG_MSG", "id": 0x40000000, "ext": True, "size": 0, "fd": False, "tx": [], "sigs": [], "attrs": []}


def abstract(db):
    frames = []
    for f in db.frames:
        frames.append({"name": f.name, "id": int(f.arbitration_id.id), "ext": bool(f.arbitration_id.extended), "size": int(f.size), "fd": bool(f.is_fd),
                       "tx": list(f.transmitters),
                       "sigs": [{"name": s.name, "start": int(s.get_startbit()), "size": int(s.size), "receivers": list(s.receivers),
                                 "attrs": sig_attrs(s)} for s in f.signals],
                       "attrs": sorted([k, str(v)] for k, v in f.attributes.items() if k in USER_ATTRS)})
    if db.signals:
        # signals without a frame (--signals): the DBC reader takes them out of the pseudo frame again; observed as a last frame
        frames.append(dict(PSEUDO, sigs=[{"name": s.name, "start": int(s.get_startbit()), "size": int(s.size), "receivers": list(s.receivers),
                                          "attrs": sig_attrs(s)} for s in db.signals]))
    ecus = [e.name for e in db.ecus]
    for f in frames:
        for e in f["tx"] + [r for s in f["sigs"] for r in s["receivers"]]:
            if e not in ecus:
                ecus.append(e)
    return {"ecus": sorted(ecus), "frames": frames}


def names_of(m):
    return [f["name"] for f in m["frames"]], [s["name"] for f in m["frames"] for s in f["sigs"]]


def role_of(sig):
    mux = dict(kv for kv in sig["attrs"] if kv[0] == "mux").get("mux")
    return "plain" if mux is None else ("multiplexer" if mux == "M" else "multiplexed")


def signals_by_role(m):
    """the signal names of the multiplexed frames by their role there ({} without a multiplexed frame)"""
    out = collections.defaultdict(list)
    for f in m["frames"]:
        roles = [role_of(s) for s in f["sigs"]]
        if "multiplexer" not in roles:
            continue
        for s, r in zip(f["sigs"], roles):
            if r == "multiplexer":
                out["multiplexer, multiplexed signals in the frame" if "multiplexed" in roles else "multiplexer, no multiplexed signal"].append(s["name"])
            elif r == "multiplexed":
                out["multiplexed"].append(s["name"])
            else:
                out["plain in a multiplexed frame"].append(s["name"])
        if "multiplexed" in roles and "all multiplexed" not in out:
            out["all multiplexed"] = [s["name"] for s, r in zip(f["sigs"], roles) if r == "multiplexed"]
    return dict(out)


def pick(rng, pool, extra=("Nope",), lo=1, hi=2):
    cands = list(pool) + list(extra)
    return rng.sample(cands, min(len(cands), rng.randint(lo, hi)))


def pattern_for(rng, names, inner_only=False):
    """a text with fnmatch characters (`*`, `?`, `[..]`) that is the name of none of `names` but, read as a pattern, selects at least
    one of them.  inner_only: no `*` at the beginning or the end (the rename methods give those a meaning of their own)"""
    names = [n for n in names if n]
    if not names:
        return "No*pe"
    n = rng.choice(names)
    k = rng.randrange(len(n))
    forms = [n[:k] + "?" + n[k + 1:], n[:k] + "[" + n[k] + "]" + n[k + 1:], "?" * len(n),
             n[:k] + "[" + min(n[k], "A") + "-" + max(n[k], "z") + "]" + n[k + 1:]]
    if len(n) > 1:
        forms.append(n[:1] + "*" + n[-1:])
    if not inner_only:
        forms += [n[:k] + "*", "*" + n[k + 1:], "*", n[:max(1, k)] + "*", "*" + n[-1:]]
    return rng.choice(forms)


def with_pattern(rng, entries, names, p=0.3, inner_only=False):
    """the list of an option that is documented to take names, with (probability p) one entry that is no name but would select existing
    items if it were read as a pattern: alone, before or after the names"""
    if rng.random() >= p:
        return entries
    pat = pattern_for(rng, names, inner_only)
    r = rng.random()
    out = [pat] if r < 0.4 else ([pat] + entries if r < 0.7 else entries + [pat])
    return [e for k, e in enumerate(out) if e not in out[:k]]


def gen_option(rng, m, name):
    fnames, snames = names_of(m)
    sizes = sorted({f["size"] for f in m["frames"]})
    if name == "deleteEcu":
        return with_pattern(rng, pick(rng, m["ecus"], ("Nope", "ECU_*", "*")), m["ecus"], 0.2)
    if name == "renameEcu":
        olds = with_pattern(rng, pick(rng, m["ecus"]), m["ecus"], 0.25)
        return [[e, "New_" + "".join(ch for ch in e if ch.isalnum() or ch == "_")] for e in olds]
    if name == "deleteFrame":
        return with_pattern(rng, pick(rng, fnames), fnames, 0.35)
    if name == "renameFrame":
        r = rng.random()
        if r < 0.2:
            return [["Frame*", "Rahmen"]]
        if r < 0.3:
            return [["*0", "_null"]]
        olds = with_pattern(rng, pick(rng, fnames), fnames, 0.2, inner_only=True)
        return [[n, "New_" + "".join(ch for ch in n if ch.isalnum() or ch == "_")] for n in olds]
    if name == "deleteSignal":
        names = with_pattern(rng, pick(rng, snames, ("Nope", "sig*", "S?eed*")), snames, 0.15)
        by_role = signals_by_role(m)
        if by_role and rng.random() < 0.4:
            # a signal chosen by what it is in its frame (the multiplexer while multiplexed signals stay, one or all of the multiplexed
            # signals, a plain signal next to them), alone, before or after the other entries of the list
            role = rng.choice(sorted(by_role))
            extra = list(by_role[role]) if role == "all multiplexed" else [rng.choice(by_role[role])]
            r = rng.random()
            names = extra if r < 0.4 else (extra + names if r < 0.7 else names + extra)
            names = [n for k, n in enumerate(names) if n not in names[:k]]
        return names
    if name == "renameSignal":
        r = rng.random()
        if r < 0.2:
            return [["sig*", "signal"]]
        if r < 0.3:
            return [["*1", "_one"]]
        olds = with_pattern(rng, pick(rng, snames), snames, 0.2, inner_only=True)
        return [[n, "New_" + "".join(ch for ch in n if ch.isalnum() or ch == "_")] for n in olds]
    if name in ("deleteZeroSignals", "deleteObsoleteEcus"):
        return True
    if name == "deleteSignalAttributes":
        return with_pattern(rng, pick(rng, ["SgInt", "SgStr"], ("Nope",)), ["SgInt", "SgStr"], 0.25)
    if name == "deleteFrameAttributes":
        return with_pattern(rng, pick(rng, ["FrInt", "FrStr"], ("Nope",)), ["FrInt", "FrStr"], 0.25)
    if name in ("setFrameFd", "unsetFrameFd"):
        return with_pattern(rng, pick(rng, fnames), fnames, 0.3)
    if name in ("skipLongDlc", "cutLongFrames"):
        base = rng.choice(sizes) if sizes else 8
        return max(0, base + rng.choice([-1, 0, 0, 1])) if rng.random() < 0.8 else rng.choice([0, 1, 8, 64])
    if name == "recalcDLC":
        return rng.choice(["max", "force"])
    if name == "changeFrameId":
        fr = rng.choice(m["frames"])
        used = {f["id"] for f in m["frames"]}
        free = [i for i in (rng.randrange(1, 0x7FF) for _ in range(20)) if i not in used] or [0x7FD]
        return [[fr["id"], free[0]]] if rng.random() < 0.8 else [[0x7FE, free[0]]]
    if name == "addFrameReceiver":
        return [[rng.choice(fnames + ["Frame*", "*", "Nope"]), rng.choice(m["ecus"] + ["NewEcu"])]]
    if name == "frames":
        return pick(rng, fnames, (), 1, 3)
    if name == "ecus":
        return [[e, rng.choice(["", "", "rx", "tx"])] for e in pick(rng, m["ecus"], ("ECU_*",), 1, 3)]
    raise ValueError(name)


OPTIONS = ["deleteEcu", "renameEcu", "deleteFrame", "renameFrame", "deleteSignal", "renameSignal", "deleteZeroSignals", "deleteSignalAttributes",
           "deleteFrameAttributes", "setFrameFd", "unsetFrameFd", "skipLongDlc", "cutLongFrames", "recalcDLC", "changeFrameId", "addFrameReceiver",
           "deleteObsoleteEcus", "frames", "ecus"]


# ---------------------------------------------------------------------------------------------------------------------
# --merge and --signals: options the Lean model has no field for.  A case of these streams carries under "real" what the converter
# is really called with (files, merge / signals argument, the other option); "m" and "o" are the converter call this is documented to
# equal, in the shape the judge knows (reduce_real).  The driver ignores "real".
# ---------------------------------------------------------------------------------------------------------------------
# `--merge other.dbc:ecu=X` is copy.copy_ecu_with_frames(X, other, main, direct_ecu_only=False): X (a glob pattern over the ECU list of the
# other file) is added to the ECU list of the main matrix, then every frame X sends, then every frame one of whose signals X receives is
# copied with copy.copy_frame, in the order of the other file; everything of the main matrix stays.  In the judge's shape that is the
# --frames clause over the union of the files with these frame names appended (ecu_frame_names).
# merge_ecu_listing_note: the --frames clause lists the ECUs the selected frames refer to and no others.  The one part of the documented
# effect it cannot say is "X is listed although no frame refers to it" (X has no frame in the other file, or every frame of X has an
# identifier the main file uses already, and no frame of the main file refers to X).  reduce_real returns None for these calls and the
# generator draws the selectors again; they are not judged.
SAFE_WITH_SIGNALS = ["deleteFrame", "renameFrame", "setFrameFd", "unsetFrameFd", "skipLongDlc", "deleteFrameAttributes", "changeFrameId"]


def frame_names(m):
    return [f["name"] for f in m["frames"]]


def union_of(main, others):
    ecus = list(main["ecus"])
    frames = list(main["frames"])
    for om in others:
        ecus += [e for e in om["ecus"] if e not in ecus]
        frames += om["frames"]
    return {"ecus": ecus, "frames": frames}


def select_signals(m, pats):
    """the documented effect of --signals=p1,p2: every signal a pattern selects, pattern by pattern and frame by frame (each one as
    often as it is selected), unchanged; names as the DBC writer numbers equal names within one frame.  None: the numbering runs into
    another name (the output file would be ambiguous, C05)"""
    sel = [s for p in pats for f in m["frames"] for s in f["sigs"] if fnmatch.fnmatchcase(s["name"], p)]
    totals = collections.Counter(s["name"] for s in sel)
    seen = collections.Counter()
    out = []
    for s in sel:
        name = s["name"]
        if totals[name] > 1:
            name += str(seen[s["name"]])
        seen[s["name"]] += 1
        out.append(dict(s, name=name))
    if len({s["name"] for s in out}) != len(out):
        return None
    if sum(role_of(s) == "multiplexer" for s in out) > 1:
        # free_signals_two_multiplexers_note: a frame of a DBC file has one multiplexer; of several multiplexers among the free signals
        # (multiplexers of two frames, or one selected by two patterns) dbc.dump writes the first and leaves the others out without a
        # word (dbc.py dump: `if signal.multiplex == 'Multiplexor' and multiplex_written and not frame.is_complex_multiplexed: continue`).
        # Not generated for now; reported as found.
        return None
    return out


def is_ecu_sel(item):
    """a selector of a merged file: a frame name (text) or ["ecu", name or glob pattern]"""
    return not isinstance(item, str)


def sel_text(sel):
    return "".join((":ecu=" + it[1]) if is_ecu_sel(it) else (":frame=" + it) for it in (sel or []))


def refs_of(f):
    return f["tx"] + [r for s in f["sigs"] for r in s["receivers"]]


def ecus_matching(om, pat):
    return [e for e in om["ecus"] if fnmatch.fnmatchcase(e, pat)]


def ecu_frame_names(om, pat):
    """the documented effect of ecu=pat on the file om, as frame names in the order they are merged: per selected ECU the frames it
    sends, then the frames one of whose signals it receives"""
    names = []
    for e in ecus_matching(om, pat):
        names += [f["name"] for f in om["frames"] if e in f["tx"]]
        names += [f["name"] for f in om["frames"] if any(e in s["receivers"] for s in f["sigs"])]
    return names


def ecu_kind(om, pat):
    if any(ch in pat for ch in "*?["):
        return "glob pattern"
    if pat not in om["ecus"]:
        return "unknown to the file"
    tx = any(pat in f["tx"] for f in om["frames"])
    rx = any(pat in s["receivers"] for f in om["frames"] for s in f["sigs"])
    return {(True, True): "sends and receives", (True, False): "only sends", (False, True): "only receives", (False, False): "has no frame"}[(tx, rx)]


def frames_selected(m, names):
    """the frames the --frames clause selects (a name the matrix does not know: None; an identifier only once)"""
    out = []
    for n in names:
        f = next((g for g in m["frames"] if g["name"] == n), None)
        if f is None:
            return None
        if all((g["id"], g["ext"]) != (f["id"], f["ext"]) for g in out):
            out.append(f)
    return out


def reduce_real(real):
    """(m, o) in the judge's shape, or None"""
    o = dict(real["o"])
    if real["kind"] == "merge":
        m = union_of(real["main"], real["others"])
        names = list(o["frames"]) if "frames" in o else frame_names(real["main"])
        named = []
        for k, sel in real["merge"]:
            om = real["others"][k]
            if sel is None:
                names += frame_names(om)
                continue
            for it in sel:
                if is_ecu_sel(it):
                    names += ecu_frame_names(om, it[1])
                    named += ecus_matching(om, it[1])
                else:
                    names.append(it)
        result = frames_selected(m, names)
        if result is not None:
            referenced = {e for f in result for e in refs_of(f)}
            if any(e not in referenced for e in named):
                return None                  # merge_ecu_listing_note
        o["frames"] = names
        expected = ecu_definitions_expected(real) if real.get("ecu_defs") else None
        if expected is not None:
            # the ECU attribute definition of the merged file and the values of the named ECUs: a last frame without content
            f = ecu_definitions_frame(*expected)
            m = dict(m, frames=m["frames"] + [f])
            o["frames"] = names + [f["name"]]
        return m, o
    if real["kind"] == "buses":
        return dict(real["buses"][real["pick"]][1], ecus=bus_ecus(real)), o
    if real["kind"] == "container":
        m = {"ecus": [], "frames": real["plain"] + [container_image(real)]}      # the rewritten frame is the last one of the matrix
        if real["ignore"]:
            o["deleteFrame"] = list(o.get("deleteFrame", [])) + [real["frame"]["name"]]
        return m, o
    if real["kind"] == "defines":
        m = real["main"]
        if definitions_judged(real):
            m = dict(m, frames=m["frames"] + [definitions_frame(definitions_expected(real))])
        return m, o
    free = select_signals(real["main"], real["signals"])
    if free is None:
        return None
    m = dict(real["main"], frames=real["main"]["frames"] + ([dict(PSEUDO, sigs=free)] if free else []))
    o["frames"] = list(o.get("frames", [])) + ([PSEUDO["name"]] if free else [])
    return m, o


def make_case(real, cli):
    mo = reduce_real(real)
    if mo is None:
        return None
    return {"op": "conv", "c": {"m": mo[0], "o": mo[1], "cli": cli, "real": real}}


# ---------------------------------------------------------------------------------------------------------------------
# --deleteObsoleteDefines ("this will remove all defines which no attribute exist for", docs/cli.rst): an option about the attribute
# DEFINITIONS of the matrix, which the judge's matrix has no place for.  On everything the judge's matrix holds - frames, signals, their
# attribute VALUES, ECUs - the documented effect is none, so a call with the flag is judged as the same call without it (kind
# "defines"; real["flag"] says whether the flag is really given - the calls without it are the control for the definitions).
# The definitions themselves are observed in the output (definitions_frame) whenever what is documented about them can be said
# without re-stating what the other options do to frames and signals (definitions_judged): no other option is documented to touch a
# definition, so without the flag all of them are there; with it exactly those are there for which one frame / signal / ECU carries a
# value, after --deleteSignalAttributes / --deleteFrameAttributes (earlier in the pipeline) took theirs away.  They travel as the NAME
# of a last frame without content (identifier 0, no length, no signal, no sender: no option of these calls selects or changes it),
# expected name in case["c"]["m"], observed name made from the definitions of the re-read output.
# ---------------------------------------------------------------------------------------------------------------------
ECU_ATTRS = {"EcInt"}
DEFINITIONS = {"frame": ["FrInt", "FrStr"], "signal": ["SgInt", "SgStr"], "ecu": ["EcInt"]}
CHANGES_USERS = {"frames", "ecus", "deleteFrame", "skipLongDlc", "cutLongFrames", "deleteSignal", "deleteZeroSignals", "deleteEcu"}


def definitions_frame(defs):
    name = "DEFINITIONS " + " ".join("%s=%s" % (k, "+".join(sorted(defs[k]))) for k in ("frame", "signal", "ecu"))
    return {"name": name, "id": 0, "ext": False, "size": 0, "fd": False, "tx": [], "sigs": [], "attrs": []}


def definitions_judged(real):
    """the options of the call leave every frame, signal and ECU in place (they may rename them, move them, take attributes away)"""
    return real["kind"] == "defines" and not (set(real["o"]) & CHANGES_USERS)


def definitions_expected(real):
    if not real["flag"]:
        return DEFINITIONS
    m, o = real["main"], real["o"]
    used = {"frame": {kv[0] for f in m["frames"] for kv in f["attrs"]} - set(o.get("deleteFrameAttributes") or []),
            "signal": {kv[0] for f in m["frames"] for s in f["sigs"] for kv in s["attrs"]} - set(o.get("deleteSignalAttributes") or []),
            "ecu": {"EcInt"} if real["ecu_attrs"] else set()}
    return {k: [d for d in DEFINITIONS[k] if d in used[k]] for k in DEFINITIONS}


def definitions_observed(db):
    return {"frame": [d for d in db.frame_defines if d in USER_ATTRS], "signal": [d for d in db.signal_defines if d in USER_ATTRS],
            "ecu": [d for d in db.ecu_defines if d in ECU_ATTRS]}

# ---------------------------------------------------------------------------------------------------------------------
# --merge and the attribute definitions (real["ecu_defs"], drawn for most cases of the merge stream): `--merge other.dbc:ecu=X` is
# copy.copy_ecu_with_frames, documented to "additionally copy all relevant Frames and Defines"; copy.copy_ecu: "additionally copy all
# relevant Defines" - the ECU attribute definitions of the other file for which X has a value there (its own or the default of the
# definition), whether or not the main matrix knows an ECU of that name already.  The first merged file defines the ECU attribute EcOther
# (with or without default, values on some, one or no ECU); the main file defines it too in some cases (with another default).  Observed in
# the output: whether EcOther is defined, and for every ECU an ecu= selector names the value it has there (own or default).  Judged:
#   defined      - yes if the main file defines it or an ECU named by ecu= has a value in the other file; no if no ECU with a value is
#                  named or referred to by a frame that is asked for; otherwise (an ECU with a value is only referred to by a merged frame:
#                  copy_frame copies "relevant ECUs and Defines", which says nothing about an ECU the main matrix knows already or a
#                  frame whose identifier is taken) not judged;
#   value of X   - without a value of its own in the other file: the default there (what X "has" in that file), else the default of the
#                  main file's definition, else none; with a value of its own: that value if the main file does not know X
#                  (merge_ecu_value_note: if it does, add_ecu keeps the ECU of the main matrix and the value of the other file does not
#                  arrive - not documented either way, not judged); not judged when an option edits the ECU list afterwards.
# Both travel as the name of a last frame without content (ecu_definitions_frame), as the definitions of the stream "defines" do.
# ---------------------------------------------------------------------------------------------------------------------
OTHER_ECU_ATTR = "EcOther"
EDITS_ECU_LIST = {"deleteEcu", "renameEcu", "deleteObsoleteEcus"}


def ecu_definitions_frame(defined, values):
    name = "ECU DEFINITIONS %s=%s values %s ." % (OTHER_ECU_ATTR, "yes" if defined else "no", " ".join("%s=%s" % (e, v) for e, v in values))
    return {"name": name, "id": 0, "ext": False, "size": 0, "fd": False, "tx": [], "sigs": [], "attrs": []}


def ecu_definitions_named(real):
    """the ECUs of the first merged file that its ecu= selectors name (None: the file is not merged at all), and its selectors"""
    om = real["others"][0]
    sels = [sel for k, sel in real["merge"] if k == 0]
    if not sels:
        return None, None
    sel = sels[0]
    named = []
    for it in (sel or []):
        if is_ecu_sel(it):
            named += [e for e in ecus_matching(om, it[1]) if e not in named]
    return named, sel


def ecu_definitions_expected(real):
    """(defined, [[ecu, value], ...]) or None (not judged)"""
    ed, om, o = real["ecu_defs"], real["others"][0], real["o"]
    own = dict(ed["values"])

    def val(e):
        return own.get(e, ed["default"]) if e in om["ecus"] else None
    named, sel = ecu_definitions_named(real)
    if named is None:
        return ed["main"] is not None, []
    if ed["main"] is not None or any(val(e) is not None for e in named):
        defined = True
    else:
        asked = frame_names(om) if sel is None else [it for it in sel if not is_ecu_sel(it)] + [n for e in named for n in ecu_frame_names(om, e)]
        if any(val(e) is not None for f in om["frames"] if f["name"] in asked for e in refs_of(f)):
            return None
        defined = False
    values = []
    if not (set(o) & EDITS_ECU_LIST):
        for e in named:
            if e in own:
                if e not in real["main"]["ecus"]:
                    values.append([e, own[e]])                  # else merge_ecu_value_note
            elif ed["default"] is not None:
                values.append([e, ed["default"]])
            else:
                values.append([e, ed["main"] if ed["main"] is not None else "-"])
    return defined, values


def ecu_definitions_observed(real, db):
    expected = ecu_definitions_expected(real)
    values = []
    for e, _ in expected[1]:
        ecu = db.ecu_by_name(e)
        v = None if ecu is None else ecu.attribute(OTHER_ECU_ATTR, db=db)
        values.append([e, "absent" if ecu is None else ("-" if v is None else str(v))])
    return OTHER_ECU_ATTR in db.ecu_defines, values


def gen_ecu_defs(rng, real):
    """the ECU attribute definition of the first merged file (and of the main file)"""
    om = real["others"][0]
    r = rng.random()
    carriers = [] if r < 0.3 else ([rng.choice(om["ecus"])] if r < 0.6 else [e for e in om["ecus"] if rng.random() < 0.5])
    return {"default": str(rng.randint(10, 19)) if rng.random() < 0.5 else None,
            "values": [[e, str(rng.randint(20, 29))] for e in carriers],
            "main": str(rng.randint(1, 9)) if "frames" not in real["o"] and rng.random() < 0.25 else None}


# ---------------------------------------------------------------------------------------------------------------------
# Input files that are no DBC files (kinds "buses" and "container"): the part of convert() that only runs for them.
# (buses) a KCD file with one to three named buses, some of them without any frame (from the start, or because the options remove
# every frame): convert() is documented to write what load + dump through the API writes, i.e. one output file out_<bus>.dbc per bus of
# the input.  One bus (real["pick"]) is judged against the model in the usual way (the ECU list of a KCD file is one list for all buses);
# the set of output files is observed too: a missing or additional file is reported through "raised".  What KCD does not carry (FD flag,
# attributes, signals without bits, the order of the signals in a multiplexed frame) is not generated here.
# (container) an ARXML file with a CAN frame that holds a CONTAINER-I-PDU (short or long header, little-endian header) with one to
# four contained PDUs (header ids 0, small, large; one to three signals each), next to it at most one plain frame with an I-SIGNAL-I-PDU: without
# --ignorePduContainer the output holds the documented multiplexed image of the container frame (container_image: Header_ID the
# multiplexer, Header_DLC, the signals of every contained PDU behind the header and multiplexed with the header id of their PDU), with
# it the output is that of --deleteFrame=<container frame>; alone or with one frame-level option.
# ---------------------------------------------------------------------------------------------------------------------
BUS_NAMES = ["Powertrain", "Diagnosis", "Body_1"]
BUS_OPTIONS = [x for x in OPTIONS if x != "frames"]        # a frame name of one bus is unknown to the others: --frames raises there


def bus_ecus(real):
    out = []
    for _, m in real["buses"]:
        out += [e for e in m["ecus"] if e not in out]
    return out


def gen_bus_matrix(rng, empty):
    m = gen_matrix(rng)
    frames = []
    for f in ([] if empty else m["frames"]):
        sigs = [dict(s, attrs=[kv for kv in s["attrs"] if kv[0] == "signed"]) for s in f["sigs"] if s["size"]]
        frames.append(dict(f, fd=False, sigs=sigs, attrs=[]))
    return {"ecus": m["ecus"], "frames": frames}


def gen_buses(rng):
    names = rng.sample(BUS_NAMES, rng.choice([1, 2, 2, 3]))
    buses = [[n, gen_bus_matrix(rng, rng.random() < 0.3)] for n in names]
    all_frames = {"ecus": bus_ecus({"buses": buses}), "frames": [f for _, m in buses for f in m["frames"]]}
    o = {}
    r = rng.random()
    if all_frames["frames"] and r > 0.25:
        if r < 0.55:
            # an option that takes every frame of one bus (or of all) away
            k = rng.choice(["skipLongDlc", "deleteFrame"])
            one = rng.choice([m for _, m in buses if m["frames"]])
            o[k] = rng.choice([0, min(f["size"] for f in one["frames"]) - 1]) if k == "skipLongDlc" else frame_names(one)
        else:
            for name in rng.sample(BUS_OPTIONS, rng.choice([1, 1, 2])):
                o[name] = gen_option(rng, all_frames, name)
    return {"kind": "buses", "buses": buses, "pick": rng.randrange(len(buses)), "o": o}


def bus_files(real):
    return sorted("out_%s.dbc" % n for n, _ in real["buses"])


def gen_container(rng):
    long_header = rng.random() < 0.3
    ids = rng.sample([0, 0, 0, 1, 2, 5, 0x7F, 0x1234, 0xFFFFFF], 4)
    pdus = []
    signo = 0
    for k in range(rng.randint(1, 4)):
        if ids[k] in [p["id"] for p in pdus]:
            continue
        sigs = []
        pos = 0
        for _ in range(rng.randint(1, 3)):
            w = rng.choice([1, 4, 8, 8, 16])
            pos += rng.choice([0, 0, 8])
            sigs.append({"name": "PSig%d" % signo, "start": pos, "size": w})
            signo += 1
            pos += w
        pdus.append({"name": "Pdu%d" % k, "id": ids[k], "size": (pos + 7) // 8, "sigs": sigs})
    frame = {"name": rng.choice(["ContainerFrame", "Frame_c", "Msg9"]), "id": rng.randrange(1, 0x7FF), "size": rng.choice([16, 32, 64])}
    plain = []
    for k in range(rng.choice([0, 1, 1])):         # one: the order in which the ARXML reader lists several frames is not that of the file
        arbid = rng.choice([i for i in range(0x100, 0x110) if i != frame["id"] and all(i != f["id"] for f in plain)])
        sigs = [{"name": "QSig%d_%d" % (k, j), "start": 16 * j, "size": rng.choice([4, 8, 16]), "receivers": [], "attrs": []} for j in range(1)]
        plain.append({"name": "Plain%d" % k, "id": arbid, "ext": False, "size": 8, "fd": False, "tx": [], "sigs": sigs, "attrs": []})
    real = {"kind": "container", "header": "LONG-HEADER" if long_header else "SHORT-HEADER", "frame": frame, "pdus": pdus, "plain": plain,
            "ignore": rng.random() < 0.2, "o": {}}
    if not real["ignore"] and rng.random() < 0.5:
        name = rng.choice(SAFE_WITH_SIGNALS)
        real["o"][name] = gen_option(rng, {"ecus": [], "frames": plain + [container_image(real)]}, name)
    return real


def container_image(real):
    """the documented multiplexed image of the container frame"""
    id_bits, dlc_bits = (32, 32) if real["header"] == "LONG-HEADER" else (24, 8)
    sigs = [{"name": "Header_ID", "start": 0, "size": id_bits, "receivers": [], "attrs": [["mux", "M"], ["signed", "1"]]},
            {"name": "Header_DLC", "start": id_bits, "size": dlc_bits, "receivers": [], "attrs": [["signed", "1"]]}]       # as the ARXML reader makes them
    for p in real["pdus"]:
        for s in p["sigs"]:
            sigs.append({"name": s["name"], "start": s["start"] + id_bits + dlc_bits, "size": s["size"], "receivers": [], "attrs": [["mux", "m%d" % p["id"]]]})
    f = real["frame"]
    return {"name": f["name"], "id": f["id"], "ext": False, "size": f["size"], "fd": True, "tx": [], "sigs": sigs, "attrs": []}


def container_arxml(real):
    root = "/Demo"
    frame = real["frame"]
    header_tag = "HEADER-ID-LONG-HEADER" if real["header"] == "LONG-HEADER" else "HEADER-ID-SHORT-HEADER"
    pdus = [(p["name"], p, True) for p in real["pdus"]] + [("Pdu_" + f["name"], {"size": f["size"], "sigs": f["sigs"]}, False) for f in real["plain"]]
    sig_names = [s["name"] for _, p, _ in pdus for s in p["sigs"]]

    def mapping(s):
        return ("<I-SIGNAL-TO-I-PDU-MAPPING><SHORT-NAME>Map_%s</SHORT-NAME><I-SIGNAL-REF DEST=\"I-SIGNAL\">%s/I_SIGNALS/%s</I-SIGNAL-REF>"
                "<PACKING-BYTE-ORDER>MOST-SIGNIFICANT-BYTE-LAST</PACKING-BYTE-ORDER><START-POSITION>%d</START-POSITION>"
                "</I-SIGNAL-TO-I-PDU-MAPPING>" % (s["name"], root, s["name"], s["start"]))

    def pdu_xml(name, p, contained):
        props = ("<CONTAINED-I-PDU-PROPS><COLLECTION-SEMANTICS>LAST-IS-BEST</COLLECTION-SEMANTICS><%s>%d</%s><TRIGGER>ALWAYS</TRIGGER>"
                 "</CONTAINED-I-PDU-PROPS>" % (header_tag, p["id"], header_tag)) if contained else ""
        return ("<I-SIGNAL-I-PDU><SHORT-NAME>%s</SHORT-NAME><LENGTH>%d</LENGTH>%s<I-SIGNAL-TO-PDU-MAPPINGS>%s</I-SIGNAL-TO-PDU-MAPPINGS>"
                "</I-SIGNAL-I-PDU>" % (name, p["size"], props, "".join(mapping(s) for s in p["sigs"])))

    def pdu_triggering(name, p):
        return ("<PDU-TRIGGERING><SHORT-NAME>PT_%s</SHORT-NAME><I-PDU-REF DEST=\"I-SIGNAL-I-PDU\">%s/PDUS/%s</I-PDU-REF><I-SIGNAL-TRIGGERINGS>%s"
                "</I-SIGNAL-TRIGGERINGS></PDU-TRIGGERING>" % (name, root, name, "".join(
                    "<I-SIGNAL-TRIGGERING-REF-CONDITIONAL><I-SIGNAL-TRIGGERING-REF DEST=\"I-SIGNAL-TRIGGERING\">%s/CLUSTER/Bus/Channel/ST_%s"
                    "</I-SIGNAL-TRIGGERING-REF></I-SIGNAL-TRIGGERING-REF-CONDITIONAL>" % (root, s["name"]) for s in p["sigs"])))

    def frame_triggering(name, arbid, pdu_name, fd):
        return ("<CAN-FRAME-TRIGGERING><SHORT-NAME>FT_%s</SHORT-NAME><FRAME-REF DEST=\"CAN-FRAME\">%s/FRAME/%s</FRAME-REF><PDU-TRIGGERINGS>"
                "<PDU-TRIGGERING-REF-CONDITIONAL><PDU-TRIGGERING-REF DEST=\"PDU-TRIGGERING\">%s/CLUSTER/Bus/Channel/PT_%s</PDU-TRIGGERING-REF>"
                "</PDU-TRIGGERING-REF-CONDITIONAL></PDU-TRIGGERINGS><CAN-ADDRESSING-MODE>STANDARD</CAN-ADDRESSING-MODE>"
                "<CAN-FRAME-TX-BEHAVIOR>%s</CAN-FRAME-TX-BEHAVIOR><IDENTIFIER>%d</IDENTIFIER></CAN-FRAME-TRIGGERING>"
                % (name, root, name, root, pdu_name, "CAN-FD" if fd else "CAN-20", arbid))

    def can_frame(name, size, pdu_name, dest):
        return ("<CAN-FRAME><SHORT-NAME>%s</SHORT-NAME><FRAME-LENGTH>%d</FRAME-LENGTH><PDU-TO-FRAME-MAPPINGS><PDU-TO-FRAME-MAPPING>"
                "<SHORT-NAME>Map_%s</SHORT-NAME><PACKING-BYTE-ORDER>MOST-SIGNIFICANT-BYTE-LAST</PACKING-BYTE-ORDER>"
                "<PDU-REF DEST=\"%s\">%s/PDUS/%s</PDU-REF><START-POSITION>0</START-POSITION></PDU-TO-FRAME-MAPPING></PDU-TO-FRAME-MAPPINGS>"
                "</CAN-FRAME>" % (name, size, pdu_name, dest, root, pdu_name))

    return ("<?xml version=\"1.0\" encoding=\"utf-8\"?>\n<AUTOSAR xsi:schemaLocation=\"http://autosar.org/schema/r4.0 AUTOSAR_4-3-0.xsd\" "
            "xmlns=\"http://autosar.org/schema/r4.0\" xmlns:xsi=\"http://www.w3.org/2001/XMLSchema-instance\"><AR-PACKAGES><AR-PACKAGE>"
            "<SHORT-NAME>Demo</SHORT-NAME><AR-PACKAGES>"
            "<AR-PACKAGE><SHORT-NAME>CLUSTER</SHORT-NAME><ELEMENTS><CAN-CLUSTER><SHORT-NAME>Bus</SHORT-NAME><CAN-CLUSTER-VARIANTS>"
            "<CAN-CLUSTER-CONDITIONAL><BAUDRATE>500000</BAUDRATE><PHYSICAL-CHANNELS><CAN-PHYSICAL-CHANNEL><SHORT-NAME>Channel</SHORT-NAME>"
            "<FRAME-TRIGGERINGS>" + frame_triggering(frame["name"], frame["id"], "Container", True) +
            "".join(frame_triggering(f["name"], f["id"], "Pdu_" + f["name"], False) for f in real["plain"]) + "</FRAME-TRIGGERINGS>"
            "<I-SIGNAL-TRIGGERINGS>" + "".join(
                "<I-SIGNAL-TRIGGERING><SHORT-NAME>ST_%s</SHORT-NAME><I-SIGNAL-REF DEST=\"I-SIGNAL\">%s/I_SIGNALS/%s</I-SIGNAL-REF>"
                "</I-SIGNAL-TRIGGERING>" % (n, root, n) for n in sig_names) + "</I-SIGNAL-TRIGGERINGS>"
            "<PDU-TRIGGERINGS><PDU-TRIGGERING><SHORT-NAME>PT_Container</SHORT-NAME><I-PDU-REF DEST=\"CONTAINER-I-PDU\">" + root +
            "/PDUS/Container</I-PDU-REF></PDU-TRIGGERING>" + "".join(pdu_triggering(n, p) for n, p, _ in pdus) + "</PDU-TRIGGERINGS>"
            "</CAN-PHYSICAL-CHANNEL></PHYSICAL-CHANNELS></CAN-CLUSTER-CONDITIONAL></CAN-CLUSTER-VARIANTS></CAN-CLUSTER></ELEMENTS></AR-PACKAGE>"
            "<AR-PACKAGE><SHORT-NAME>FRAME</SHORT-NAME><ELEMENTS>" + can_frame(frame["name"], frame["size"], "Container", "CONTAINER-I-PDU") +
            "".join(can_frame(f["name"], f["size"], "Pdu_" + f["name"], "I-SIGNAL-I-PDU") for f in real["plain"]) + "</ELEMENTS></AR-PACKAGE>"
            "<AR-PACKAGE><SHORT-NAME>PDUS</SHORT-NAME><ELEMENTS>" + "".join(pdu_xml(n, p, c) for n, p, c in pdus) +
            "<CONTAINER-I-PDU><SHORT-NAME>Container</SHORT-NAME><LENGTH>%d</LENGTH><CONTAINED-PDU-TRIGGERING-REFS>" % frame["size"] + "".join(
                "<CONTAINED-PDU-TRIGGERING-REF DEST=\"PDU-TRIGGERING\">%s/CLUSTER/Bus/Channel/PT_%s</CONTAINED-PDU-TRIGGERING-REF>" % (root, p["name"])
                for p in real["pdus"]) + "</CONTAINED-PDU-TRIGGERING-REFS><CONTAINER-TIMEOUT>0</CONTAINER-TIMEOUT>"
            "<CONTAINER-TRIGGER>DEFAULT-TRIGGER</CONTAINER-TRIGGER><HEADER-TYPE>" + real["header"] + "</HEADER-TYPE>"
            "<RX-ACCEPT-CONTAINED-I-PDU>ACCEPT-CONFIGURED</RX-ACCEPT-CONTAINED-I-PDU><THRESHOLD-SIZE>0</THRESHOLD-SIZE></CONTAINER-I-PDU>"
            "</ELEMENTS></AR-PACKAGE>"
            "<AR-PACKAGE><SHORT-NAME>I_SIGNALS</SHORT-NAME><ELEMENTS>" + "".join(
                "<I-SIGNAL><SHORT-NAME>%s</SHORT-NAME><DATA-TYPE-POLICY>OVERRIDE</DATA-TYPE-POLICY><LENGTH>%d</LENGTH>"
                "<SYSTEM-SIGNAL-REF DEST=\"SYSTEM-SIGNAL\">%s/SYSTEM_SIGNALS/%s</SYSTEM-SIGNAL-REF></I-SIGNAL>" % (s["name"], s["size"], root, s["name"])
                for _, p, _ in pdus for s in p["sigs"]) + "</ELEMENTS></AR-PACKAGE>"
            "<AR-PACKAGE><SHORT-NAME>SYSTEM_SIGNALS</SHORT-NAME><ELEMENTS>" + "".join(
                "<SYSTEM-SIGNAL><SHORT-NAME>%s</SHORT-NAME></SYSTEM-SIGNAL>" % n for n in sig_names) + "</ELEMENTS></AR-PACKAGE>"
            "<AR-PACKAGE><SHORT-NAME>ECUC</SHORT-NAME><ELEMENTS><ECUC-MODULE-CONFIGURATION-VALUES><SHORT-NAME>IpduM</SHORT-NAME>"
            "<CONTAINER-I-PDU-HEADER-BYTE-ORDER>MOST-SIGNIFICANT-BYTE-LAST</CONTAINER-I-PDU-HEADER-BYTE-ORDER>"
            "</ECUC-MODULE-CONFIGURATION-VALUES></ELEMENTS></AR-PACKAGE>"
            "</AR-PACKAGES></AR-PACKAGE></AR-PACKAGES></AUTOSAR>\n")


def gen_defines(rng):
    main = gen_matrix(rng)
    r = rng.random()
    o = {}
    if r < 0.35:
        # the documented companions: take attributes away, then the definitions nothing carries a value for any more
        for name in rng.sample(["deleteSignalAttributes", "deleteFrameAttributes"], rng.choice([1, 1, 2])):
            o[name] = gen_option(rng, main, name)
    elif r < 0.75:
        for name in rng.sample(OPTIONS, rng.choice([1, 1, 2])):
            o[name] = gen_option(rng, main, name)
    ecu_attrs = [[e, str(rng.randint(0, 9))] for e in main["ecus"] if rng.random() < 0.3] if rng.random() < 0.7 else []
    return {"kind": "defines", "main": main, "o": o, "flag": rng.random() < 0.8, "ecu_attrs": ecu_attrs}


def gen_ecu_selector(rng, om, main):
    """an ECU of the other file by what it does there, a name that file does not know, or a glob pattern"""
    by_kind = collections.defaultdict(list)
    for e in om["ecus"]:
        by_kind[ecu_kind(om, e)].append(e)
    want = rng.choice(["sends and receives", "only sends", "only receives", "only receives", "has no frame", "unknown", "glob"])
    if want == "unknown":
        return rng.choice(["Nope"] + [e for e in ECUS if e not in om["ecus"]])      # among them names only the main file knows
    if want == "glob":
        return rng.choice(["ECU_*", "*", "B*", "[DG]*", "?w"])
    return rng.choice(by_kind[want] or om["ecus"])


def gen_selectors(rng, om, main):
    names = frame_names(om)
    n = rng.choice([1, 2, 2, 3, 3, 4])
    mode = rng.choice(["frames", "ecus", "ecus", "mixed", "mixed"])
    if mode == "frames":
        sel = [rng.choice(names) for _ in range(n)] if rng.random() < 0.3 else rng.sample(names, min(n, len(names)))
    else:
        sel = []
        for _ in range(n):
            if mode == "mixed" and rng.random() < 0.5:
                sel.append(rng.choice(names))
            else:
                sel.append(["ecu", gen_ecu_selector(rng, om, main)])
        if rng.random() < 0.15:
            sel.append(rng.choice(sel))                                             # one selector twice
    if rng.random() < 0.08:
        sel.insert(rng.randrange(len(sel) + 1), "Nope")
    return sel


def gen_merge(rng):
    main = gen_matrix(rng)
    used = {e for f in main["frames"] for e in f["tx"] + [r for s in f["sigs"] for r in s["receivers"]]}
    main["ecus"] = [e for e in main["ecus"] if e in used]
    others = []
    for j in range(1 if rng.random() < 0.7 else 2):
        om = gen_matrix(rng)
        for k, f in enumerate(om["frames"]):
            f["name"] = f["name"][:-len(str(k))] + str(k + 10 * (j + 1))          # frame names differ between the files
            if rng.random() < 0.15:                                                # an identifier the main file uses too
                g = rng.choice(main["frames"])
                if all((h["id"], h["ext"]) != (g["id"], g["ext"]) for h in om["frames"]):
                    f["id"], f["ext"] = g["id"], g["ext"]
        others.append(om)
    o = {}
    if rng.random() < 0.6:
        name = rng.choice([x for x in OPTIONS if x != "ecus"])
        o[name] = gen_option(rng, main if name == "frames" else union_of(main, others), name)
    for _ in range(20):
        merge = []
        for k, om in enumerate(others):
            merge.append([k, None if rng.random() < 0.2 else gen_selectors(rng, om, main)])
        real = {"kind": "merge", "main": main, "others": others, "merge": merge, "o": o}
        if reduce_real(real) is not None:
            return real
    return {"kind": "merge", "main": main, "others": others, "merge": [[k, None] for k in range(len(others))], "o": o}


def gen_signals(rng):
    while True:
        main = gen_matrix(rng)
        _, snames = names_of(main)
        if snames:
            break
    several = sorted({n for n in snames if snames.count(n) > 1})
    for _ in range(20):
        pats = []
        for _ in range(rng.choice([1, 1, 2, 2, 3])):
            r = rng.random()
            if r < 0.35 and several:
                pats.append(rng.choice(several))
            elif r < 0.6:
                pats.append(rng.choice(snames))
            else:
                pats.append(rng.choice(["sig*", "S?eed*", "st*", "*1", "*", "s*", "Nope", "[sS]*0"]))
        if select_signals(main, pats) is not None:
            break
    else:
        pats = [rng.choice(snames)]
    o = {}
    r = rng.random()
    if r < 0.4:
        o["frames"] = gen_option(rng, main, "frames")
    elif r < 0.6:
        name = rng.choice(SAFE_WITH_SIGNALS)
        o[name] = gen_option(rng, main, name)
    return {"kind": "signals", "main": main, "signals": pats, "o": o}


def gen_plain(rng):
    m = gen_matrix(rng)
    r = rng.random()
    n = 0 if r < 0.05 else (1 if r < 0.5 else 2)
    o = {}
    for name in rng.sample(OPTIONS, n):
        o[name] = gen_option(rng, m, name)
    return {"op": "conv", "c": {"m": m, "o": o, "cli": rng.random() < 0.4}}


# ---------------------------------------------------------------------------------------------------------------------
# Histories (case["c"]["before"]): "for all input matrices, all options" is said about every call of the converter, not about the first
# call of a process.  A case with "before" is observed as a history: the conversions listed there (complete cases of the same stream, with
# their own input files, merge files, options and entry point) run first, in the same process and on the SAME file names (in.dbc,
# other<k>.dbc, o/out.dbc - a tool that is run again after its input files were edited), their output is thrown away, then the judged
# conversion runs on its own files.  The judge sees the judged call only: whatever an earlier call leaves behind (a cache keyed by a
# path, a module-level table, an option that sticks) shows as a difference to the documented effect.  The driver ignores "before".
# ---------------------------------------------------------------------------------------------------------------------
def gen(rng, tier, shard, nshards):
    # what was added to the streams later (histories, the ECU definitions of merged files) is drawn from a generator of its own, so the
    # cases of the older streams stay what they were for a given VERIF_SEED
    rng2 = random.Random("C18 additions %s" % (rng.getstate()[1][:8],))
    total = {"quick": 4000, "thorough": 40000}[tier] // nshards + 1
    for _ in range(total):
        case = gen_plain(rng)
        if rng2.random() < 0.03:
            case["c"]["before"] = [gen_plain(rng2)["c"] for _ in range(rng2.choice([1, 1, 2]))]
        yield case
    extra = {"quick": 400, "thorough": 4000}[tier] // nshards + 1
    for make in (gen_merge, gen_signals, gen_defines, gen_buses, gen_container):
        for _ in range(extra):
            case = make_extra(rng, rng2, make)
            if case is None:
                continue
            if rng2.random() < 0.3:
                before = [make_extra(rng2, rng2, make) for _ in range(rng2.choice([1, 1, 2]))]
                case["c"]["before"] = [b["c"] for b in before if b is not None]
            yield case


def make_extra(rng, rng2, make):
    real = make(rng)
    cli = rng.random() < 0.4
    if real["kind"] == "merge" and rng2.random() < 0.7:
        real["ecu_defs"] = gen_ecu_defs(rng2, real)
    return make_case(real, cli)


def cli_args(o):
    args = []
    for k, v in o.items():
        if v is True:
            args.append("--" + k)
        elif k in ("renameEcu", "renameFrame", "renameSignal", "addFrameReceiver", "changeFrameId"):
            args.append("--%s=%s" % (k, ",".join("%s:%s" % (a, b) for a, b in v)))
        elif k == "ecus":
            args.append("--ecus=" + ",".join(e + (":" + d if d else "") for e, d in v))
        elif isinstance(v, list):
            args.append("--%s=%s" % (k, ",".join(v)))
        else:
            args.append("--%s=%s" % (k, v))
    return args


def api_opts(o):
    out = {}
    for k, v in o.items():
        if v is True:
            out[k] = True
        elif k in ("renameEcu", "renameFrame", "renameSignal", "addFrameReceiver", "changeFrameId"):
            out[k] = ",".join("%s:%s" % (a, b) for a, b in v)
        elif k == "ecus":
            out[k] = ",".join(e + (":" + d if d else "") for e, d in v)
        elif isinstance(v, list):
            out[k] = ",".join(v)
        else:
            out[k] = str(v)
    return out


def real_call(c, d):
    """the matrix of the input file, the options the converter is really called with, and the files to be merged (written into d)"""
    real = c.get("real")
    if real is None:
        return c["m"], c["o"], {}
    extra = {}
    if real["kind"] == "merge":
        items = []
        for k, sel in real["merge"]:
            path = os.path.join(d, "other%d.dbc" % k)
            with open(path, "wb") as f:             # written anew for every call (a history uses the same names again)
                canmatrix.formats.dump(build(real["others"][k], ecu_other=real["ecu_defs"] if k == 0 and real.get("ecu_defs") else None), f, "dbc")
            items.append(path + sel_text(sel))
        extra["merge"] = ",".join(items)
    elif real["kind"] == "defines":
        if real["flag"]:
            extra["deleteObsoleteDefines"] = True
    elif real["kind"] == "buses":
        return None, real["o"], extra
    elif real["kind"] == "container":
        return None, real["o"], ({"ignorePduContainer": True} if real["ignore"] else {})
    else:
        extra["signals"] = ",".join(real["signals"])
    return real["main"], real["o"], extra


def observe(case):
    c = case["c"]
    d = tempfile.mkdtemp(prefix="c18_")
    try:
        for earlier in c.get("before") or []:
            # the history: earlier conversions in this process, on the same file names; what they wrote is thrown away
            convert_once(earlier, d)
            shutil.rmtree(os.path.join(d, "o"), ignore_errors=True)
        return convert_once(c, d)
    finally:
        shutil.rmtree(d, ignore_errors=True)


def convert_once(c, d):
    if True:
        m_in, o_in, extra = real_call(c, d)
        real = c.get("real") or {}
        os.mkdir(os.path.join(d, "o"))
        dst = os.path.join(d, "o", "out.dbc")
        files, result = ["out.dbc"], dst
        if real.get("kind") == "buses":
            src = os.path.join(d, "in.kcd")
            canmatrix.formats.dumpp(collections.OrderedDict((n, build(bm)) for n, bm in real["buses"]), src)
            files = bus_files(real)
            result = os.path.join(d, "o", "out_%s.dbc" % real["buses"][real["pick"]][0])
        elif real.get("kind") == "container":
            src = os.path.join(d, "in.arxml")
            with open(src, "w") as f:
                f.write(container_arxml(real))
            files = ["out_Bus.dbc"]
            result = os.path.join(d, "o", files[0])
        else:
            main_def = (real.get("ecu_defs") or {}).get("main")
            db = build(m_in, real.get("ecu_attrs"), ecu_other={"default": main_def, "values": []} if main_def is not None else None)
            src = os.path.join(d, "in.dbc")
            with open(src, "wb") as f:
                canmatrix.formats.dump(db, f, "dbc")
        raised = None
        sink = io.StringIO()
        with contextlib.redirect_stdout(sink), contextlib.redirect_stderr(sink):
            try:
                if c.get("cli"):
                    from click.testing import CliRunner
                    res = CliRunner().invoke(canmatrix.cli.convert.cli_convert,
                                             ["-s"] + cli_args(o_in) + cli_args(extra) + [src, dst])
                    if res.exception is not None and not isinstance(res.exception, SystemExit):
                        raised = type(res.exception).__name__ + ": " + str(res.exception)[:120]
                    elif res.exit_code != 0:
                        raised = "exit %s" % res.exit_code
                else:
                    canmatrix.convert.convert(src, dst, **dict(api_opts(o_in), **extra))
            except Exception as e:  # noqa
                raised = type(e).__name__ + ": " + str(e)[:120]
            out = None
            if raised is None:
                # the files of the output: one per bus of the input (out_<bus>.dbc; a DBC input has one bus without a name: out.dbc),
                # as load + dump through the API write them
                written = sorted(os.listdir(os.path.join(d, "o")))
                if written != sorted(files):
                    raised = "output files %s instead of %s" % (written, sorted(files))
            if raised is None:
                with open(result, "rb") as f:
                    db2 = canmatrix.formats.load_flat(f, "dbc")
                out = abstract(db2)
                if real and definitions_judged(real):
                    out["frames"].append(definitions_frame(definitions_observed(db2)))
                if real.get("ecu_defs") and ecu_definitions_expected(real) is not None:
                    out["frames"].append(ecu_definitions_frame(*ecu_definitions_observed(real, db2)))
        return {"raised": raised, "out": out}


def project(impl):
    return {"raised": impl["raised"] is not None, "out": canon_out(impl["out"])}


def canon_out(out):
    return out


def features(case, impl):
    c = case["c"]
    real = c.get("real")
    o = real["o"] if real else c["o"]
    yield "options=%d" % (len(o) + (1 if real else 0))
    yield "via=%s" % ("cli" if c.get("cli") else "convert()")
    for k in o:
        yield "opt:" + k
    m_in = real["main"] if real and "main" in real else c["m"]
    if real and real["kind"] == "buses":
        yield "input:kcd file, buses=%d" % len(real["buses"])
        empty = [not bm["frames"] for _, bm in real["buses"]]
        yield "buses:%s without a frame in the input" % ("none" if not any(empty) else ("all" if all(empty) else "some"))
        yield "buses:judged bus %s" % ("has no frame in the input" if empty[real["pick"]] else "has frames")
        if impl.get("out") is not None and not impl["out"]["frames"] and not empty[real["pick"]]:
            yield "buses:the options remove every frame of the judged bus"
    if real and real["kind"] == "container":
        yield "input:arxml file with a PDU container (%s)" % real["header"]
        yield "container:contained PDUs=%d" % len(real["pdus"])
        yield "container:plain frames=%d" % len(real["plain"])
        for pd in real["pdus"]:
            yield "container:header id %s" % ("0" if pd["id"] == 0 else ("< 256" if pd["id"] < 256 else ">= 256"))
        yield "opt:ignorePduContainer" if real["ignore"] else "container:rewritten as multiplexed frame"
    by_role = signals_by_role(m_in)
    if by_role:
        yield "input:multiplexed frame"
    if any(kv[0] == "signed" for f in m_in["frames"] for s in f["sigs"] for kv in s["attrs"]):
        yield "input:signed signal"
    for opt in ("deleteSignal", "renameSignal"):
        pats = [(p if isinstance(p, str) else p[0]) for p in o.get(opt) or []]
        for role, names in sorted(by_role.items()):
            if role != "all multiplexed" and any(fnmatch.fnmatchcase(n, p) for n in names for p in pats):
                yield "%s:hits a %s" % (opt, role)
        for f in m_in["frames"]:
            roles = {s["name"]: role_of(s) for s in f["sigs"]}
            for p in pats:
                hit = [n for n in roles if fnmatch.fnmatchcase(n, p)]
                if opt == "deleteSignal" and any(roles[n] == "multiplexer" for n in hit) and any(r == "multiplexed" and n not in hit for n, r in roles.items()):
                    yield "deleteSignal:list entry takes the multiplexer and leaves multiplexed signals"
    if c.get("before"):
        yield "history:earlier conversions in the process, same file names=%d" % len(c["before"])
        if real and real["kind"] == "merge" and any((b.get("real") or {}).get("kind") == "merge" for b in c["before"]):
            yield "history:merge file of an earlier conversion rewritten"
    if real and real.get("ecu_defs"):
        ed = real["ecu_defs"]
        exp = ecu_definitions_expected(real)
        yield "merge:ECU definition in the merged file, %s default, values on %s ECUs%s" % (
            "with" if ed["default"] is not None else "without", len(ed["values"]) if len(ed["values"]) < 2 else "2+",
            ", defined in the main file too" if ed["main"] is not None else "")
        yield "merge:ECU definition %s" % ("not judged (an ECU with a value only comes with a frame)" if exp is None else
                                           ("expected in the output" if exp[0] else "expected to be absent"))
        if exp is not None:
            yield "merge:ECU values judged=%s" % (len(exp[1]) if len(exp[1]) < 3 else "3+")
            named, _ = ecu_definitions_named(real)
            if exp[0] and ed["main"] is None and named and all(e in real["main"]["ecus"] for e in named):
                yield "merge:ECU definition expected, every named ECU known to the main file"
    if real and real["kind"] == "merge":
        yield "opt:merge"
        yield "merge:files=%d" % len(real["merge"])
        for k, sel in real["merge"]:
            if sel is None:
                yield "merge:whole file"
                continue
            fsel = [it for it in sel if not is_ecu_sel(it)]
            esel = [it[1] for it in sel if is_ecu_sel(it)]
            if fsel:
                yield "merge:frame selectors=%d%s" % (len(fsel), " (one twice)" if len(set(fsel)) < len(fsel) else "")
            if esel:
                yield "merge:ecu selectors=%d%s" % (len(esel), " (one twice)" if len(set(esel)) < len(esel) else "")
                om = real["others"][k]
                for pat in esel:
                    yield "merge:ecu selector, ECU " + ecu_kind(om, pat)
                    if pat in real["main"]["ecus"]:
                        yield "merge:ecu selector, ECU also in the main file"
                got = [n for pat in esel for n in ecu_frame_names(om, pat)]
                yield "merge:ecu selectors bring %s frames" % (len(set(got)) if len(set(got)) < 3 else "3+")
                if len(set(got)) < len(got):
                    yield "merge:ecu selectors, one frame selected several times"
            if fsel and esel:
                yield "merge:ecu and frame selectors mixed"
        main_ids = {(f["id"], f["ext"]) for f in real["main"]["frames"]}
        if any((f["id"], f["ext"]) in main_ids for om in real["others"] for f in om["frames"]):
            yield "merge:identifier of the main file in another file"
    if real and real["kind"] == "defines":
        yield "opt:deleteObsoleteDefines" if real["flag"] else "definitions:call without deleteObsoleteDefines (control)"
        yield "definitions:" + ("observed and judged" if definitions_judged(real) else "not judged (an option removes frames, signals or ECUs)")
        if real["flag"]:
            for k, ds in sorted(definitions_expected(real).items()):
                yield "definitions:%s, %d of %d in use" % (k, len(ds), len(DEFINITIONS[k]))
            # signal definitions whose users come in another order than the definitions (one signal with both, or the user of the
            # second before the user of the first)
            carriers = [[kv[0] for kv in s["attrs"] if kv[0] in USER_ATTRS] for f in m_in["frames"] for s in f["sigs"]]
            first = {d: next((k for k, c in enumerate(carriers) if d in c), None) for d in DEFINITIONS["signal"]}
            if None not in first.values():
                yield "definitions:first users of the signal definitions %s" % (
                    "are one signal" if first["SgInt"] == first["SgStr"] else ("in definition order" if first["SgInt"] < first["SgStr"] else "in reverse order"))
    for opt, pool in (("deleteFrame", "f"), ("setFrameFd", "f"), ("unsetFrameFd", "f"), ("renameFrame", "f"), ("renameEcu", "e"), ("renameSignal", "s"),
                      ("deleteSignalAttributes", "a"), ("deleteFrameAttributes", "a")):
        for p in o.get(opt) or []:
            p = p if isinstance(p, str) else p[0]
            if any(ch in p for ch in "*?[") and not (opt.startswith("rename") and (p[:1] == "*" or p[-1:] == "*")):
                names = {"f": [f["name"] for f in m_in["frames"]], "e": m_in["ecus"], "s": [s["name"] for f in m_in["frames"] for s in f["sigs"]],
                         "a": sorted(USER_ATTRS)}[pool]
                yield "%s:entry that is no name, %s" % (opt, "would select as a pattern" if any(fnmatch.fnmatchcase(n, p) for n in names) else "selects nothing either way")
    if real and real["kind"] == "signals":
        yield "opt:signals"
        yield "signals:patterns=%d" % len(real["signals"])
        free = [s["name"] for p in real["signals"] for f in real["main"]["frames"] for s in f["sigs"] if fnmatch.fnmatchcase(s["name"], p)]
        yield "signals:selected=%s" % (len(free) if len(free) < 3 else "3+")
        if len(set(free)) < len(free):
            yield "signals:one name selected several times"
    if impl.get("raised"):
        yield "raised"


def nontrivial(case, impl):
    return bool(case["c"]["o"]) or bool(case["c"].get("real"))


def classify(case, impl, spec):
    o = case["c"]["o"]
    if spec.startswith("fail: ECUs that nothing refers to any more") and o.get("deleteObsoleteEcus") and \
            any(k in o for k in ("deleteSignal", "cutLongFrames", "deleteZeroSignals")):
        return "C18-obsolete-ecus-after-signal-removal"
    return None


def less_of(m):
    """the matrix with one frame or one signal less"""
    for i in range(len(m["frames"])):
        if len(m["frames"]) > 1:
            yield dict(m, frames=m["frames"][:i] + m["frames"][i + 1:])
    for i, f in enumerate(m["frames"]):
        for j in range(len(f["sigs"])):
            f2 = dict(f, sigs=f["sigs"][:j] + f["sigs"][j + 1:])
            yield dict(m, frames=m["frames"][:i] + [f2] + m["frames"][i + 1:])


def shrink_real(real):
    for k in real["o"]:
        yield dict(real, o={a: b for a, b in real["o"].items() if a != k})
    if real.get("ecu_defs"):
        ed = real["ecu_defs"]
        yield {a: b for a, b in real.items() if a != "ecu_defs"}
        for j in range(len(ed["values"])):
            yield dict(real, ecu_defs=dict(ed, values=ed["values"][:j] + ed["values"][j + 1:]))
        if ed["main"] is not None:
            yield dict(real, ecu_defs=dict(ed, main=None))
    if real["kind"] == "merge":
        for i, (k, sel) in enumerate(real["merge"]):
            if len(real["merge"]) > 1:
                yield dict(real, merge=real["merge"][:i] + real["merge"][i + 1:])
            for j in range(len(sel or [])):
                if len(sel) > 1:
                    yield dict(real, merge=real["merge"][:i] + [[k, sel[:j] + sel[j + 1:]]] + real["merge"][i + 1:])
        for k, om in enumerate(real["others"]):
            for om2 in less_of(om):
                yield dict(real, others=real["others"][:k] + [om2] + real["others"][k + 1:])
    elif real["kind"] == "defines":
        for j in range(len(real["ecu_attrs"])):
            yield dict(real, ecu_attrs=real["ecu_attrs"][:j] + real["ecu_attrs"][j + 1:])
    elif real["kind"] == "buses":
        for k, (n, bm) in enumerate(real["buses"]):
            if k != real["pick"]:
                yield dict(real, buses=real["buses"][:k] + real["buses"][k + 1:], pick=real["pick"] - (k < real["pick"]))
            for bm2 in less_of(bm):
                yield dict(real, buses=real["buses"][:k] + [[n, bm2]] + real["buses"][k + 1:])
        return
    elif real["kind"] == "container":
        for k in range(len(real["plain"])):
            yield dict(real, plain=real["plain"][:k] + real["plain"][k + 1:])
        for k, pd in enumerate(real["pdus"]):
            if len(real["pdus"]) > 1:
                yield dict(real, pdus=real["pdus"][:k] + real["pdus"][k + 1:])
            for j in range(len(pd["sigs"])):
                if len(pd["sigs"]) > 1:
                    yield dict(real, pdus=real["pdus"][:k] + [dict(pd, sigs=pd["sigs"][:j] + pd["sigs"][j + 1:])] + real["pdus"][k + 1:])
        return
    else:
        for j in range(len(real["signals"])):
            if len(real["signals"]) > 1:
                yield dict(real, signals=real["signals"][:j] + real["signals"][j + 1:])
    for m2 in less_of(real["main"]):
        if real["kind"] == "merge":
            used = {e for f in m2["frames"] for e in f["tx"] + [r for s in f["sigs"] for r in s["receivers"]]}
            m2 = dict(m2, ecus=[e for e in m2["ecus"] if e in used])
        yield dict(real, main=m2)
    if real["kind"] == "defines":
        # an attribute less
        m = real["main"]
        for i, f in enumerate(m["frames"]):
            for a in range(len(f["attrs"])):
                f2 = dict(f, attrs=f["attrs"][:a] + f["attrs"][a + 1:])
                yield dict(real, main=dict(m, frames=m["frames"][:i] + [f2] + m["frames"][i + 1:]))
            for j, sg in enumerate(f["sigs"]):
                for a, kv in enumerate(sg["attrs"]):
                    if kv[0] in KIND_ATTRS:
                        continue
                    s2 = dict(sg, attrs=sg["attrs"][:a] + sg["attrs"][a + 1:])
                    f2 = dict(f, sigs=f["sigs"][:j] + [s2] + f["sigs"][j + 1:])
                    yield dict(real, main=dict(m, frames=m["frames"][:i] + [f2] + m["frames"][i + 1:]))


def shrink_candidates(case):
    c = case["c"]
    before = c.get("before")
    if before:
        # a shorter history (none at all first), then the same steps as for a single call, with the history kept
        for k in range(len(before)):
            rest = before[:k] + before[k + 1:]
            yield {"op": "conv", "c": dict({a: b for a, b in c.items() if a != "before"}, **({"before": rest} if rest else {}))}
        for cand in shrink_candidates({"op": "conv", "c": {a: b for a, b in c.items() if a != "before"}}):
            yield {"op": "conv", "c": dict(cand["c"], before=before)}
        return
    if c.get("real"):
        for real in shrink_real(c["real"]):
            cand = make_case(real, c.get("cli"))
            if cand is not None:
                yield cand
        return
    m = c["m"]
    for k in list(c["o"]):
        if len(c["o"]) > 1:
            o2 = dict(c["o"])
            del o2[k]
            yield {"op": "conv", "c": dict(c, o=o2)}
    for i in range(len(m["frames"])):
        if len(m["frames"]) > 1:
            yield {"op": "conv", "c": dict(c, m=dict(m, frames=m["frames"][:i] + m["frames"][i + 1:]))}
    for i, f in enumerate(m["frames"]):
        for j in range(len(f["sigs"])):
            f2 = dict(f, sigs=f["sigs"][:j] + f["sigs"][j + 1:])
            yield {"op": "conv", "c": dict(c, m=dict(m, frames=m["frames"][:i] + [f2] + m["frames"][i + 1:]))}


def recipe(case):
    c = case["c"]
    if c.get("before"):
        return ("in ONE process and one directory, on the same file names: first " + "; then ".join(recipe({"c": b}) for b in c["before"]) +
                "; the output is deleted; then, judged: " + recipe({"c": {a: b for a, b in c.items() if a != "before"}}) +
                "   (replay: props.c18.observe(case))")
    real = c.get("real")
    if real and real["kind"] == "merge":
        arg = ",".join("other%d.dbc" % k + sel_text(sel) for k, sel in real["merge"])
        return ("canconvert " + " ".join(cli_args(real["o"]) + ["--merge=" + arg]) + " in.dbc out.dbc   (in.dbc = canmatrix.formats.dump("
                "props.c18.build(case['c']['real']['main']), 'dbc'), other<k>.dbc likewise from case['c']['real']['others'][k]; expected: "
                "canconvert " + " ".join(cli_args(c["o"])) + " on the file holding the frames of all of them" +
                ("; other0.dbc also defines the ECU attribute EcOther as case['c']['real']['ecu_defs'] says (build(..., ecu_other=...)), 'main' there: "
                 "the default of the same definition in in.dbc; the last frame of case['c']['m'], if it is called ECU DEFINITIONS ..., says "
                 "whether the output must define EcOther and which value the ECUs named by ecu= must have" if real.get("ecu_defs") else "") + ")")
    if real and real["kind"] == "buses":
        return ("canconvert " + " ".join(cli_args(real["o"])) + " in.kcd out.dbc   (in.kcd = canmatrix.formats.dumpp({name: props.c18.build(m) "
                "for name, m in case['c']['real']['buses']}, 'in.kcd'); expected: the files " + ", ".join(bus_files(real)) + "; judged: out_%s.dbc "
                "against case['c']['m'])" % real["buses"][real["pick"]][0])
    if real and real["kind"] == "container":
        return ("canconvert " + " ".join(cli_args(real["o"]) + ["--ignorePduContainer"] * real["ignore"]) + " in.arxml out.dbc   (in.arxml = "
                "props.c18.container_arxml(case['c']['real']); expected: out_Bus.dbc with the multiplexed image of the container frame, "
                "case['c']['m'], under the options case['c']['o'])")
    if real and real["kind"] == "defines":
        return ("canconvert " + " ".join(cli_args(real["o"]) + ["--deleteObsoleteDefines"] * real["flag"]) + " in.dbc out.dbc   (in.dbc = "
                "canmatrix.formats.dump(props.c18.build(case['c']['real']['main'], case['c']['real']['ecu_attrs']), 'dbc'); expected: what the call "
                "without --deleteObsoleteDefines gives; the last frame of case['c']['m'], if it is called DEFINITIONS ..., names the expected "
                "attribute definitions of the output)")
    if real:
        return ("canconvert " + " ".join(cli_args(real["o"]) + ["--signals=" + ",".join(real["signals"])]) + " in.dbc out.dbc   (in.dbc = "
                "canmatrix.formats.dump(props.c18.build(case['c']['real']['main']), 'dbc'); expected free signals: the last frame of case['c']['m'])")
    return "canconvert " + " ".join(cli_args(c["o"])) + " in.dbc out.dbc   (in.dbc = canmatrix.formats.dump(props.c18.build(case['c']['m']), 'dbc'))"
