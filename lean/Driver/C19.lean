import Driver.Common
import CanVerif.Model.Exports
import CanVerif.Spec.Exports
open Lean CanVerif

namespace D19

def sameAddrs (s : Sig) (f : Nat → Nat) : Bool :=
  (List.range s.size).all fun i => f i == sigAddr s.little s.start s.size i

/-- op "rec": c = {"size": frame bytes, "sig": sigdesc, "probe": [bytes]}
impl i = {"scapy": [start,size,fmt], "fibex": [pos,highlow,bitlen], "canard": key, "csv": {"msb":[byte,bit,order,sign],...},
          "ws": [which, off, len, fix|null]} (any of them may be missing) -/
def handle (op : String) (c i : Json) : Except String (Json × String) := do
  match op with
  | "rec" =>
    let n ← J.nat (← J.key c "size")
    let s ← DC.sig (← J.key c "sig")
    let probe ← J.natList (← J.key c "probe")
    let ws := wiresharkField n s
    let csvJ (fmt : String) := let (b, t, o, g) := csvColumns fmt s; J.ofList [J.ofInt b, J.ofInt t, Json.str o, Json.str g]
    let m := J.obj [("scapy", J.ofList [J.ofInt (dbcStartOf s), J.ofNat s.size, Json.str (scapyFmt s)]),
                    ("fibex", J.ofList [J.ofInt (dbcStartOf s), Json.bool (fibexHighLow s), J.ofNat s.size,
                                        match fibexBaseType s with | some t => Json.str t | none => .null]),
                    ("canard", J.ofList [J.ofInt (lsbStartOf s), J.ofNat s.size]),
                    ("csv", J.obj [("msb", csvJ "msb"), ("msbreverse", csvJ "msbreverse"), ("lsb", csvJ "lsb")]),
                    ("ws", J.ofList [Json.str ws.1, J.ofNat ws.2.1, J.ofNat ws.2.2, J.ofOptNat (wiresharkSignFix s),
                                     if (wiresharkSignFix s).isSome then Json.str (wiresharkProbe n s).1 else .null,
                                     if (wiresharkSignFix s).isSome then J.ofNat (wiresharkProbe n s).2 else .null])]
    -- spec: read each record with the tool's convention
    let chk (name : String) (ok : Except String Bool) : Except String (Option String) := do
      pure (if (← ok) then none else some s!"fail: the {name} record does not select the signal's payload bits / type")
    let r1 ← chk "Scapy" (do
      let a ← J.key i "scapy"
      let p ← J.nat (← J.idx a 0); let sz ← J.nat (← J.idx a 1); let fmt ← J.str (← J.idx a 2)
      let little := fmt.startsWith "<"
      pure (sz == s.size && little == s.little && sameAddrs s (Spec.dbcAddr little p sz) &&
            (fmt.endsWith "f") == s.isFloat && (s.isFloat || (fmt.endsWith "b") == s.signed)))
    let r2 ← chk "FIBEX" (do
      let a ← J.key i "fibex"
      let p ← J.nat (← J.idx a 0); let hl ← J.bool (← J.idx a 1); let sz ← J.nat (← J.idx a 2)
      let tj ← J.idx a 3
      let ty ← if J.isNull tj then pure none else some <$> J.str tj
      pure (sz == s.size && hl == !s.little && sameAddrs s (Spec.dbcAddr (!hl) p sz) && Spec.fibexTypeOk ty s.size s.signed s.isFloat))
    let r3 ← chk "Canard" (do
      let a ← J.key i "canard"
      let p ← J.nat (← J.idx a 0); let sz ← J.nat (← J.idx a 1)
      pure (sz == s.size && sameAddrs s (Spec.lsbAddr s.little p)))
    let r4 ← chk "CSV" (do
      let a ← J.key i "csv"
      let one (fmt : String) : Except String Bool := do
        let r ← J.key a fmt
        let b ← J.nat (← J.idx r 0); let t ← J.nat (← J.idx r 1); let o ← J.str (← J.idx r 2); let g ← J.str (← J.idx r 3)
        let p := 8 * (b - 1) + t
        let little := o == "i"
        let f := if fmt == "msb" then Spec.dbcAddr little p s.size else if fmt == "lsb" then Spec.lsbAddr little p else Spec.msbrevAddr little p s.size
        pure (b ≥ 1 && t < 8 && little == s.little && (g == "s") == s.signed && sameAddrs s f)
      pure ((← one "msb") && (← one "msbreverse") && (← one "lsb")))
    let r5 ← chk "Wireshark" (do
      let a ← J.key i "ws"
      let which ← J.str (← J.idx a 0); let off ← J.nat (← J.idx a 1); let len ← J.nat (← J.idx a 2)
      let fix ← J.optNat (← J.idx a 3)
      let pwj ← J.idx a 4
      let pw ← if J.isNull pwj then pure which else J.str pwj
      let po ← J.optNat (← J.idx a 5)
      let want := Spec.valueOf (DC.specSig { s with isFloat := false }) probe
      pure (s.isFloat || Spec.wiresharkValueProbe probe which off len pw (po.getD off) fix == want))
    let bad := [r1, r2, r3, r4, r5].filterMap id
    pure (m, match bad with
      | [] => "ok"
      | b :: _ => b)
  | "frame" =>
    let f ← DC.frame (← J.key c "f")
    let id ← J.nat (← J.key c "id")
    let ext ← J.bool (← J.key c "ext")
    let hexl := String.ofList (Nat.toDigits 16 id)
    let hexu := hexl.toUpper
    let fr := J.obj [("scapy", J.ofList [J.ofNat id, Json.bool ext]), ("ws", J.ofList [J.ofNat id]),
                     ("fibex", J.ofList [J.ofNat id, J.ofNat f.size]),
                     ("csv", J.ofList [Json.str (hexu ++ (if ext then "xh" else "h"))]),
                     ("canard", J.ofList [Json.str ("0x" ++ hexl)])]
    let m := J.obj [("frame", fr), ("scale_ok", Json.bool true)]
    let ifr ← J.key i "frame"
    let sok ← J.bool (← J.key i "scale_ok")
    let s := if !sok then "fail: a recorded factor/offset/length differs from the matrix's"
             else if ifr != fr then "fail: a recorded frame identifier, format or length differs from the matrix's"
             else "ok"
    pure (m, s)
  | _ => throw s!"C19: unknown op {op}"

end D19
