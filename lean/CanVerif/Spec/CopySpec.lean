import CanVerif.Model.Glob
/-!
# Independent specification of copy / merge (C12), as predicates on (source, target before, request, target after)

`effective value of an attribute` = explicit value, else the default of the definition of that kind.
-/
namespace CanVerif.SpecCopy

structure D where
  name : String
  definition : String
  kind : String
  values : List String
  default : Option String
  deriving Repr, DecidableEq, Inhabited

abbrev A := List (String × String)

structure E where
  name : String
  body : String
  attrs : A
  deriving Repr, DecidableEq, Inhabited

structure S where
  name : String
  body : String
  receivers : List String
  attrs : A
  deriving Repr, DecidableEq, Inhabited

structure F where
  id : Nat
  ext : Bool
  name : String
  body : String
  transmitters : List String
  attrs : A
  sigs : List S
  deriving Repr, DecidableEq, Inhabited

structure M where
  ecus : List E
  frames : List F
  free : List S
  fd : List D
  sd : List D
  ed : List D
  deriving Repr, DecidableEq, Inhabited

def eff (attrs : A) (defs : List D) (a : String) : Option String :=
  match attrs.find? (·.1 == a) with
  | some kv => some kv.2
  | none => (defs.find? (·.name == a)).bind (·.default)

def names (defs : List D) : List String := defs.map (·.name)

/-- same frame up to explicit attributes gained -/
def sameFrameCore (a b : F) : Bool :=
  a.id == b.id && a.ext == b.ext && a.name == b.name && a.body == b.body && a.transmitters == b.transmitters &&
  a.sigs.length == b.sigs.length &&
  (List.zip a.sigs b.sigs).all fun (s, t) => s.name == t.name && s.body == t.body && s.receivers == t.receivers

/-- a value the target's definition of the attribute can hold: an ENUM definition lists it -/
def expressible (tgtDefs : List D) (a v : String) : Bool :=
  match tgtDefs.find? (·.name == a) with
  | some d => d.kind != "ENUM" || d.values.contains v
  | none => true

/-- every attribute with an effective value in the source has the same effective value on the copy, and the target's definition
of the attribute can hold that value (an ENUM definition lists it; asked only for attributes the source defines - a value without a
definition in the source brings no definition along) -/
def effPreserved (srcAttrs : A) (srcDefs : List D) (cpAttrs : A) (tgtDefs : List D) : Bool :=
  (names srcDefs ++ srcAttrs.map (·.1)).all fun a =>
    match eff srcAttrs srcDefs a with
    | some v => eff cpAttrs tgtDefs a == some v && (!(names srcDefs).contains a || expressible tgtDefs a v)
    | none => true

/-- an object already in the target keeps the effective value of every attribute the target already defined,
and its explicit attributes -/
def bystander (attrs attrs' : A) (defsBefore defsAfter : List D) : Bool :=
  attrs' == attrs && (names defsBefore).all fun a => eff attrs' defsAfter a == eff attrs defsBefore a

def bystandersOk (b a : M) : Bool :=
  -- frames of the target stay, in order, as a prefix
  b.frames.length ≤ a.frames.length &&
  (List.zip b.frames a.frames).all (fun (f, g) =>
    sameFrameCore f g && bystander f.attrs g.attrs b.fd a.fd &&
    (List.zip f.sigs g.sigs).all fun (s, t) => bystander s.attrs t.attrs b.sd a.sd) &&
  b.ecus.length ≤ a.ecus.length &&
  (List.zip b.ecus a.ecus).all (fun (e, e') => e.name == e'.name && e.body == e'.body && bystander e.attrs e'.attrs b.ed a.ed) &&
  -- definitions of the target stay (name and default; ENUM value lists may grow)
  (b.fd.all fun d => a.fd.any fun d' => d'.name == d.name && d'.default == d.default && d'.kind == d.kind) &&
  (b.sd.all fun d => a.sd.any fun d' => d'.name == d.name && d'.default == d.default && d'.kind == d.kind) &&
  (b.ed.all fun d => a.ed.any fun d' => d'.name == d.name && d'.default == d.default && d'.kind == d.kind)

/-- the copy `g` of source frame `f` in target `a` -/
def copiedFrameOk (src : M) (f g : F) (b a : M) : Bool :=
  sameFrameCore f g &&
  effPreserved f.attrs src.fd g.attrs a.fd &&
  (List.zip f.sigs g.sigs).all (fun (s, t) => effPreserved s.attrs src.sd t.attrs a.sd) &&
  -- every ECU the frame references that the source defines exists in the target; those copied now keep their effective values
  (f.transmitters ++ f.sigs.flatMap (·.receivers)).all fun n =>
    match src.ecus.find? (·.name == n) with
    | none => true
    | some se =>
      match a.ecus.find? (·.name == n) with
      | none => false
      | some te => (b.ecus.any (·.name == n)) || (te.body == se.body && effPreserved se.attrs src.ed te.attrs a.ed)

/-- copy_frame -/
def copyFrameOk (src b : M) (id : Nat) (ext : Bool) (result : Bool) (a : M) : Bool :=
  match src.frames.find? (fun f => f.id == id && f.ext == ext) with
  | none => true
  | some f =>
    if b.frames.any (fun g => g.id == id && g.ext == ext) then result == false && a == b
    else
      result == true && a.frames.length == b.frames.length + 1 && bystandersOk b a &&
      (match a.frames.getLast? with
       | some g => copiedFrameOk src f g b a
       | none => false)

/-- merge: the frame rule for every frame of the merged matrix -/
def mergeOk (src b a : M) : Bool :=
  bystandersOk b a &&
  (src.frames.all fun f =>
    -- first frame of that id in the source wins; afterwards the id exists in the target
    a.frames.any fun g => g.id == f.id && g.ext == f.ext) &&
  ((a.frames.drop b.frames.length).all fun g =>
    match src.frames.find? (fun f => f.id == g.id && f.ext == g.ext) with
    | some f => copiedFrameOk src f g b a && !(b.frames.any fun h => h.id == g.id && h.ext == g.ext)
    | none => false)

/-- copy ECU with frames: exactly the frames it sends and/or receives, as requested -/
def copyEcuFramesOk (src b : M) (pattern : String) (rx tx : Bool) (a : M) : Bool :=
  let wanted := src.ecus.filter fun e => globMatch pattern e.name
  let wantedFrame := fun (f : F) =>
    wanted.any fun e => (tx && f.transmitters.contains e.name) || (rx && f.sigs.any fun s => s.receivers.contains e.name)
  let newFrames := a.frames.drop b.frames.length
  b.frames.length ≤ a.frames.length &&
  (List.zip b.frames a.frames).all (fun (f, g) => f.id == g.id && f.ext == g.ext && f.name == g.name && f.attrs == g.attrs) &&
  -- all and only the wanted frames that were not yet in the target are new (first occurrence per id)
  (newFrames.all fun g => match src.frames.find? (fun f => f.id == g.id && f.ext == g.ext) with
    | some f => wantedFrame f && f.name == g.name && f.body == g.body && !(b.frames.any fun h => h.id == g.id && h.ext == g.ext)
    | none => false) &&
  (src.frames.all fun f => !wantedFrame f || a.frames.any fun g => g.id == f.id && g.ext == f.ext) &&
  -- the wanted ECUs exist in the target afterwards
  (wanted.all fun e => a.ecus.any (·.name == e.name))

end CanVerif.SpecCopy
