"""C15: an AUTOSAR 4 system description writer for the subset CAN-CLUSTER / CAN-FRAME-TRIGGERING / CAN-FRAME / I-SIGNAL-I-PDU /
I-SIGNAL / SYSTEM-SIGNAL / COMPU-METHOD (rational coefficients with denominators, text tables) / SW-BASE-TYPE / DATA-CONSTR / UNIT /
ECU-INSTANCE with ports, following the element skeleton of tests/files/arxml/ARXML_min_max.arxml (Vector AUTOSAR Explorer),
independent of canmatrix's writer.  Freedom: package layout and element order, insignificant whitespace, optional elements left
out, denominators other than 1, equivalent number renderings, and the places the schema offers for one and the same statement:
the computation method and the data constraint of a signal stand in the NETWORK-REPRESENTATION-PROPS of the I-SIGNAL, in the
PHYSICAL-PROPS of its SYSTEM-SIGNAL (the layout of the shipped Vector samples) or in both; the unit is referenced by the COMPU-METHOD, by the I-SIGNAL's properties or by both; the I-SIGNAL may state its
DATA-TYPE-POLICY (LEGACY, OVERRIDE) and I-SIGNAL-TYPE, the SYSTEM-SIGNAL its DYNAMIC-LENGTH.  None of these changes what the
file describes.  The choices are recorded in `lex.notes` (signal name -> list of texts) for the distribution in the evidence."""
import random
from xml.sax.saxutils import escape

from lib.c15 import net as N
from lib.c15.dbc import Lex  # noqa: F401

NET_OPTS = {"lengths": [1, 2, 4, 8, 8, 8], "attributes": False, "mux": True, "arxml": True}
SKIP = ("attrs", "group", "txset")
ROOT = "Net"


def start_position(sig):
    return sig["anchor"]      # Intel: least significant bit; Motorola: most significant bit (the 8*byte+bit numbering)


class X(object):
    """tiny XML builder with optional compact layout"""

    def __init__(self, L):
        self.L = L
        self.compact = bool(L.level and L.rng.random() < 0.2)

    def el(self, tag, children=None, text=None, attrs=None, depth=0):
        pad = "" if self.compact else "  " * depth
        nl = "" if self.compact else "\n"
        a = "".join(' %s="%s"' % (k, v) for k, v in (attrs or {}).items())
        if text is not None:
            return pad + "<%s%s>%s</%s>" % (tag, a, escape(str(text)), tag) + nl
        kids = [c for c in (children or []) if c]
        if not kids:
            return pad + "<%s%s/>" % (tag, a) + nl
        return pad + "<%s%s>" % (tag, a) + nl + "".join(kids) + pad + "</%s>" % tag + nl


def render(net, lex, opts=None):
    L = lex
    # the places of the statements are drawn from a stream of their own (derived from the lexical stream without drawing from it)
    places = random.Random("arxml places %r" % (L.rng.getstate()[1][:8],))
    L.notes = {}
    x = X(L)
    d = 6

    def ref(tag, dest, path, depth):
        return x.el(tag, text=path, attrs={"DEST": dest}, depth=depth)

    def sn(name, depth):
        return x.el("SHORT-NAME", text=name, depth=depth)

    def desc(text, depth):
        if not text:
            return ""
        return x.el("DESC", [x.el("L-2", text=text, attrs={"L": "EN"}, depth=depth + 1)], depth=depth)
    P = "/" + ROOT
    ecus = net["ecus"]
    # ports per ECU: frame ports / pdu ports / signal ports
    ports = {e: [] for e in ecus}
    frame_trigs, pdu_trigs, sig_trigs = [], [], []
    frames_x, pdus_x, isigs_x, ssigs_x, compu_x, units_x, base_x, constr_x = [], [], [], [], [], [], [], []
    base_types = {}
    units = {}
    # further clusters (net["clusters"], optional): one and the same CAN-FRAME / PDU / I-SIGNAL is triggered on another CAN-CLUSTER too,
    # with the ports (senders, receivers) of that cluster; nothing is drawn from the lexical stream for them
    extra = net.get("clusters") or []
    xtrigs = {c["name"]: {"frame": [], "pdu": [], "sig": []} for c in extra}
    xports = {c["name"]: {} for c in extra}

    def base_type(s):
        enc = "IEEE754" if s["float"] else ("2C" if s["signed"] else "NONE")
        if enc == "NONE" and s["size"] == 1 and L.level and L.rng.random() < 0.5:
            enc = "BOOLEAN"          # a one-bit flag may have a boolean base type (unsigned)
        key = (enc, s["size"])
        if key not in base_types:
            name = "BT_%s_%d" % (enc, s["size"])
            base_types[key] = name
            kids = [sn(name, d + 1), x.el("CATEGORY", text="FIXED_LENGTH", depth=d + 1), x.el("BASE-TYPE-SIZE", text=s["size"], depth=d + 1),
                    x.el("BASE-TYPE-ENCODING", text=enc, depth=d + 1)]
            base_x.append(x.el("SW-BASE-TYPE", kids, depth=d))
        return P + "/BaseTypes/" + base_types[key]

    def unit(u):
        if u not in units:
            name = "Unit_%d" % len(units)
            units[u] = name
            units_x.append(x.el("UNIT", [sn(name, d + 1), x.el("DISPLAY-NAME", text=u, depth=d + 1)], depth=d))
        return P + "/Units/" + units[u]

    for fi, f in enumerate(net["frames"]):
        fname = f["name"]
        pdu_name = fname + "_Pdu"
        ft_name = "FT_" + fname
        pt_name = "PT_" + fname
        receivers = sorted({r for s in f["signals"] for r in s["receivers"]})
        fports, pports = [], []
        for e in f["tx"]:
            ports[e].append(("FRAME-PORT", "fp_%s_%s" % (fname, e), "OUT"))
            ports[e].append(("I-PDU-PORT", "pp_%s_%s" % (fname, e), "OUT"))
            fports.append(P + "/Ecus/%s/Conn_%s/fp_%s_%s" % (e, e, fname, e))
            pports.append(P + "/Ecus/%s/Conn_%s/pp_%s_%s" % (e, e, fname, e))
        for e in receivers:
            ports[e].append(("FRAME-PORT", "fp_%s_%s_rx" % (fname, e), "IN"))
            ports[e].append(("I-PDU-PORT", "pp_%s_%s_rx" % (fname, e), "IN"))
            fports.append(P + "/Ecus/%s/Conn_%s/fp_%s_%s_rx" % (e, e, fname, e))
            pports.append(P + "/Ecus/%s/Conn_%s/pp_%s_%s_rx" % (e, e, fname, e))
        kids = [sn(ft_name, d + 5)]
        if fports:
            kids.append(x.el("FRAME-PORT-REFS", [ref("FRAME-PORT-REF", "FRAME-PORT", p, d + 7) for p in fports], depth=d + 6))
        kids.append(ref("FRAME-REF", "CAN-FRAME", P + "/Frames/" + fname, d + 6))
        kids.append(x.el("PDU-TRIGGERINGS", [x.el("PDU-TRIGGERING-REF-CONDITIONAL", [ref("PDU-TRIGGERING-REF", "PDU-TRIGGERING", P + "/Cluster/Main/Ch/" + pt_name, d + 8)], depth=d + 7)], depth=d + 6))
        if f["ext"] or not (L.level and L.rng.random() < 0.5):
            kids.append(x.el("CAN-ADDRESSING-MODE", text="EXTENDED" if f["ext"] else "STANDARD", depth=d + 6))
        if f["size"] > 8:
            kids.append(x.el("CAN-FRAME-TX-BEHAVIOR", text="CAN-FD", depth=d + 6))
        idtext = str(f["id"]) if not (L.level and L.rng.random() < 0.3) else hex(f["id"])
        kids.append(x.el("IDENTIFIER", text=idtext, depth=d + 6))
        frame_trigs.append(x.el("CAN-FRAME-TRIGGERING", kids, depth=d + 5))
        trig_tail = kids[(4 if fports else 3):]        # addressing mode, CAN-FD behaviour, identifier: the same wherever the frame is triggered
        # frame
        fk = [sn(fname, d + 1), desc(f["comment"], d + 1), x.el("FRAME-LENGTH", text=f["size"], depth=d + 1),
              x.el("PDU-TO-FRAME-MAPPINGS", [x.el("PDU-TO-FRAME-MAPPING", [sn("map_" + fname, d + 4), x.el("PACKING-BYTE-ORDER", text="MOST-SIGNIFICANT-BYTE-LAST", depth=d + 4),
                                                                           ref("PDU-REF", "MULTIPLEXED-I-PDU" if any(s["mux"] == "M" for s in f["signals"]) else "I-SIGNAL-I-PDU", P + "/Pdus/" + pdu_name, d + 4),
                                                                           x.el("START-POSITION", text=0, depth=d + 4)], depth=d + 3)], depth=d + 2)]
        frames_x.append(x.el("CAN-FRAME", fk, depth=d))
        # pdu with mappings
        maps = []
        st_refs = []
        for s in f["signals"]:
            if s["mux"] == "M":
                maps.append("")
                continue
            isig = s["name"]
            st_name = "ST_" + isig
            sports = []
            for e in s["receivers"]:
                ports[e].append(("I-SIGNAL-PORT", "sp_%s_%s" % (isig, e), "IN"))
                sports.append(P + "/Ecus/%s/Conn_%s/sp_%s_%s" % (e, e, isig, e))
            for e in f["tx"]:
                ports[e].append(("I-SIGNAL-PORT", "sp_%s_%s_tx" % (isig, e), "OUT"))
                sports.append(P + "/Ecus/%s/Conn_%s/sp_%s_%s_tx" % (e, e, isig, e))
            stk = [sn(st_name, d + 5)]
            if sports:
                stk.append(x.el("I-SIGNAL-PORT-REFS", [ref("I-SIGNAL-PORT-REF", "I-SIGNAL-PORT", p, d + 7) for p in sports], depth=d + 6))
            stk.append(ref("I-SIGNAL-REF", "I-SIGNAL", P + "/ISignals/" + isig, d + 6))
            sig_trigs.append(x.el("I-SIGNAL-TRIGGERING", stk, depth=d + 5))
            st_refs.append(x.el("I-SIGNAL-TRIGGERING-REF-CONDITIONAL", [ref("I-SIGNAL-TRIGGERING-REF", "I-SIGNAL-TRIGGERING", P + "/Cluster/Main/Ch/" + st_name, d + 8)], depth=d + 7))
            maps.append(x.el("I-SIGNAL-TO-I-PDU-MAPPING", [
                sn("m_" + isig, d + 4),
                ref("I-SIGNAL-REF", "I-SIGNAL", P + "/ISignals/" + isig, d + 4),
                x.el("PACKING-BYTE-ORDER", text="MOST-SIGNIFICANT-BYTE-LAST" if s["little"] else "MOST-SIGNIFICANT-BYTE-FIRST", depth=d + 4),
                x.el("START-POSITION", text=start_position(s), depth=d + 4),
                x.el("TRANSFER-PROPERTY", text="PENDING", depth=d + 4)], depth=d + 3))
            # one statement, several places: level 0 keeps computation method and data constraint in the I-SIGNAL, the unit in the computation method
            policy, cm_at, dc_at, unit_at, sig_type, dyn_len = None, "I-SIGNAL", "I-SIGNAL", "COMPU-METHOD", False, False
            if L.level:
                policy = places.choice([None, "LEGACY", "OVERRIDE", "OVERRIDE"])
                cm_at = places.choice(["I-SIGNAL", "SYSTEM-SIGNAL", "SYSTEM-SIGNAL", "both"])
                dc_at = places.choice(["I-SIGNAL", "SYSTEM-SIGNAL", "SYSTEM-SIGNAL", "both"])
                sig_type = places.random() < 0.3
                dyn_len = places.random() < 0.3
                # (a UNIT-REF in the PHYSICAL-PROPS of the SYSTEM-SIGNAL alone was not read before the repair of round 9: the unit came back empty)
                unit_at = places.choice(["COMPU-METHOD", "COMPU-METHOD", "I-SIGNAL", "both", "SYSTEM-SIGNAL"])
            # compu method: factor = n1/den, offset = n0/den
            den, mult = L.rng.choice([("1", 1), ("1", 1), ("2", 2), ("4", 4), ("5", 5), ("10", 10)]) if L.level else ("1", 1)
            n1 = str(N.D(s["factor"]) * mult)
            n0 = str(N.D(s["offset"]) * mult)
            scales = []
            lo, hi = (-(1 << (s["size"] - 1)), (1 << (s["size"] - 1)) - 1) if s["signed"] else (0, (1 << s["size"]) - 1)
            lin = [x.el("COMPU-RATIONAL-COEFFS", [x.el("COMPU-NUMERATOR", [x.el("V", text=n0, depth=d + 7), x.el("V", text=n1, depth=d + 7)], depth=d + 6),
                                                  x.el("COMPU-DENOMINATOR", [x.el("V", text=den, depth=d + 7)], depth=d + 6)], depth=d + 5)]
            if not s["float"] and not (L.level and L.rng.random() < 0.5):
                lin = [x.el("LOWER-LIMIT", text=lo, depth=d + 5), x.el("UPPER-LIMIT", text=hi, depth=d + 5)] + lin
            scales.append(x.el("COMPU-SCALE", lin, depth=d + 4))
            for k, v in sorted(s["values"].items(), key=lambda kv: int(kv[0])):
                scales.append(x.el("COMPU-SCALE", [x.el("LOWER-LIMIT", text=k, depth=d + 5), x.el("UPPER-LIMIT", text=k, depth=d + 5),
                                                   x.el("COMPU-CONST", [x.el("VT", text=v, depth=d + 6)], depth=d + 5)], depth=d + 4))
            scales = [scales[0]] + L.order(scales[1:])
            cm_name = "CM_" + isig
            cmk = [sn(cm_name, d + 1), x.el("CATEGORY", text="SCALE_LINEAR_AND_TEXTTABLE" if s["values"] else "LINEAR", depth=d + 1)]
            unit_ref = ""
            sys_unit_ref = ""
            if s["unit"]:
                if unit_at not in ("I-SIGNAL", "SYSTEM-SIGNAL"):
                    cmk.append(ref("UNIT-REF", "UNIT", unit(s["unit"]), d + 1))
                if unit_at not in ("COMPU-METHOD", "SYSTEM-SIGNAL"):
                    unit_ref = ref("UNIT-REF", "UNIT", unit(s["unit"]), d + 4)
                if unit_at == "SYSTEM-SIGNAL":
                    sys_unit_ref = ref("UNIT-REF", "UNIT", unit(s["unit"]), d + 4)
            cmk.append(x.el("COMPU-INTERNAL-TO-PHYS", [x.el("COMPU-SCALES", scales, depth=d + 3)], depth=d + 2))
            compu_x.append(x.el("COMPU-METHOD", cmk, depth=d))
            # limits as internal (raw) constraints
            dc_ref = ""
            if s["min"] is not None:
                rl = (N.D(s["min"]) - N.D(s["offset"])) / N.D(s["factor"])
                ru = (N.D(s["max"]) - N.D(s["offset"])) / N.D(s["factor"])
                dc_name = "DC_" + isig
                constr_x.append(x.el("DATA-CONSTR", [sn(dc_name, d + 1), x.el("DATA-CONSTR-RULES", [x.el("DATA-CONSTR-RULE", [x.el("INTERNAL-CONSTRS", [
                    x.el("LOWER-LIMIT", text=str(int(rl)), depth=d + 5), x.el("UPPER-LIMIT", text=str(int(ru)), depth=d + 5)], depth=d + 4)], depth=d + 3)], depth=d + 2)], depth=d))
                dc_ref = ref("DATA-CONSTR-REF", "DATA-CONSTR", P + "/Constrs/" + dc_name, d + 4)
            cm_ref = ref("COMPU-METHOD-REF", "COMPU-METHOD", P + "/CompuMethods/" + cm_name, d + 4)
            L.notes[isig] = ["DATA-TYPE-POLICY " + (policy or "left out"), "COMPU-METHOD-REF in " + cm_at] + (["DATA-CONSTR-REF in " + dc_at] if dc_ref else []) + (["UNIT-REF in " + unit_at] if s["unit"] else []) + (
                ["DATA-TYPE-POLICY %s, DATA-CONSTR-REF in %s" % (policy or "left out", dc_at)] if dc_ref else [])
            props = x.el("NETWORK-REPRESENTATION-PROPS", [x.el("SW-DATA-DEF-PROPS-VARIANTS", [x.el("SW-DATA-DEF-PROPS-CONDITIONAL", [
                ref("BASE-TYPE-REF", "SW-BASE-TYPE", base_type(s), d + 4), cm_ref if cm_at != "SYSTEM-SIGNAL" else "", dc_ref if dc_at != "SYSTEM-SIGNAL" else "", unit_ref], depth=d + 3)], depth=d + 2)], depth=d + 1)
            isigs_x.append(x.el("I-SIGNAL", [sn(isig, d + 1), x.el("DATA-TYPE-POLICY", text=policy, depth=d + 1) if policy else "",
                                             x.el("I-SIGNAL-TYPE", text="PRIMITIVE", depth=d + 1) if sig_type else "",
                                             x.el("LENGTH", text=s["size"], depth=d + 1), props,
                                             ref("SYSTEM-SIGNAL-REF", "SYSTEM-SIGNAL", P + "/SystemSignals/" + isig + "_sys", d + 1)], depth=d))
            phys = [cm_ref if cm_at != "I-SIGNAL" else "", dc_ref if dc_at != "I-SIGNAL" else "", sys_unit_ref]
            phys_props = ""
            if any(phys):
                phys_props = x.el("PHYSICAL-PROPS", [x.el("SW-DATA-DEF-PROPS-VARIANTS", [x.el("SW-DATA-DEF-PROPS-CONDITIONAL", phys, depth=d + 3)], depth=d + 2)], depth=d + 1)
            ssigs_x.append(x.el("SYSTEM-SIGNAL", [sn(isig + "_sys", d + 1), desc(s["comment"], d + 1),
                                                  x.el("DYNAMIC-LENGTH", text="false", depth=d + 1) if dyn_len else "", phys_props], depth=d))
        timing = ""
        if f.get("cycle"):
            sec = N.D(f["cycle"]) / 1000
            timing = x.el("I-PDU-TIMING-SPECIFICATIONS", [x.el("I-PDU-TIMING", [x.el("TRANSMISSION-MODE-DECLARATION", [x.el("TRANSMISSION-MODE-TRUE-TIMING", [
                x.el("CYCLIC-TIMING", [x.el("TIME-PERIOD", [x.el("VALUE", text=str(sec), depth=d + 8)], depth=d + 7)], depth=d + 6)], depth=d + 5)], depth=d + 4)], depth=d + 3)], depth=d + 1)
        muxer = next((s for s in f["signals"] if s["mux"] == "M"), None)
        if muxer is None:
            pdus_x.append(x.el("I-SIGNAL-I-PDU", [sn(pdu_name, d + 1), x.el("LENGTH", text=f["size"], depth=d + 1), timing,
                                                  x.el("I-SIGNAL-TO-PDU-MAPPINGS", maps, depth=d + 1)], depth=d))
        else:
            # MULTIPLEXED-I-PDU: selector field + one I-SIGNAL-I-PDU per selector value + one for the static part
            by_part = {}
            for s, m in zip(f["signals"], maps):
                if s["mux"] == "M":
                    continue
                by_part.setdefault(s["mux"], []).append(m)
            alts = []
            for g in sorted(k for k in by_part if k is not None):
                part = "%s_dyn%d" % (pdu_name, g)
                pdus_x.append(x.el("I-SIGNAL-I-PDU", [sn(part, d + 1), x.el("LENGTH", text=f["size"], depth=d + 1),
                                                      x.el("I-SIGNAL-TO-PDU-MAPPINGS", by_part[g], depth=d + 1)], depth=d))
                alts.append(x.el("DYNAMIC-PART-ALTERNATIVE", [ref("I-PDU-REF", "I-SIGNAL-I-PDU", P + "/Pdus/" + part, d + 6),
                                                              x.el("INITIAL-DYNAMIC-PART", text="false", depth=d + 6),
                                                              x.el("SELECTOR-FIELD-CODE", text=g, depth=d + 6)], depth=d + 5))
            static = ""
            if by_part.get(None):
                part = pdu_name + "_static"
                pdus_x.append(x.el("I-SIGNAL-I-PDU", [sn(part, d + 1), x.el("LENGTH", text=f["size"], depth=d + 1),
                                                      x.el("I-SIGNAL-TO-PDU-MAPPINGS", by_part[None], depth=d + 1)], depth=d))
                static = x.el("STATIC-PARTS", [x.el("STATIC-PART", [ref("I-PDU-REF", "I-SIGNAL-I-PDU", P + "/Pdus/" + part, d + 4)], depth=d + 3)], depth=d + 1)
            pdus_x.append(x.el("MULTIPLEXED-I-PDU", [
                sn(pdu_name, d + 1), x.el("LENGTH", text=f["size"], depth=d + 1), timing,
                x.el("DYNAMIC-PARTS", [x.el("DYNAMIC-PART", [x.el("DYNAMIC-PART-ALTERNATIVES", alts, depth=d + 4)], depth=d + 3)], depth=d + 1),
                x.el("SELECTOR-FIELD-BYTE-ORDER", text="MOST-SIGNIFICANT-BYTE-LAST", depth=d + 1),
                x.el("SELECTOR-FIELD-LENGTH", text=muxer["size"], depth=d + 1),
                x.el("SELECTOR-FIELD-START-POSITION", text=start_position(muxer), depth=d + 1), static], depth=d))
        ptk = [sn(pt_name, d + 5)]
        if pports:
            ptk.append(x.el("I-PDU-PORT-REFS", [ref("I-PDU-PORT-REF", "I-PDU-PORT", p, d + 7) for p in pports], depth=d + 6))
        ptk.append(ref("I-PDU-REF", "MULTIPLEXED-I-PDU" if muxer is not None else "I-SIGNAL-I-PDU", P + "/Pdus/" + pdu_name, d + 6))
        if st_refs:
            ptk.append(x.el("I-SIGNAL-TRIGGERINGS", st_refs, depth=d + 6))
        pdu_trigs.append(x.el("PDU-TRIGGERING", ptk, depth=d + 5))
        for c in extra:
            r = c["frames"].get(fname)
            if r is None:
                continue
            cn = c["name"]
            cp = xports[cn]

            def port(e, kind, name, direction):
                cp.setdefault(e, []).append((kind, name, direction))
                return P + "/Ecus/%s/Conn_%s_%s/%s" % (e, e, cn, name)
            # receivers on this cluster: the ECUs with a FRAME-PORT IN ("rx") and, where the cluster states reception per signal, those of
            # its I-SIGNAL-TRIGGERINGs ("receivers": signal name -> ECUs, with "signal_triggerings"; the schema makes them optional)
            rx = sorted(set(r.get("rx", [])) | {e for s in f["signals"] for e in r["receivers"].get(s["name"], [])})
            fp = [port(e, "FRAME-PORT", "fp_%s_%s" % (fname, e), "OUT") for e in r["tx"]] + [port(e, "FRAME-PORT", "fp_%s_%s_rx" % (fname, e), "IN") for e in rx]
            pp = [port(e, "I-PDU-PORT", "pp_%s_%s" % (fname, e), "OUT") for e in r["tx"]] + [port(e, "I-PDU-PORT", "pp_%s_%s_rx" % (fname, e), "IN") for e in rx]
            kids = [sn(ft_name, d + 5)]
            if fp:
                kids.append(x.el("FRAME-PORT-REFS", [ref("FRAME-PORT-REF", "FRAME-PORT", p, d + 7) for p in fp], depth=d + 6))
            kids.append(ref("FRAME-REF", "CAN-FRAME", P + "/Frames/" + fname, d + 6))
            kids.append(x.el("PDU-TRIGGERINGS", [x.el("PDU-TRIGGERING-REF-CONDITIONAL", [ref("PDU-TRIGGERING-REF", "PDU-TRIGGERING", P + "/Cluster/%s/Ch/%s" % (cn, pt_name), d + 8)], depth=d + 7)], depth=d + 6))
            xtrigs[cn]["frame"].append(x.el("CAN-FRAME-TRIGGERING", kids + trig_tail, depth=d + 5))
            refs = []
            for s in f["signals"]:
                if s["mux"] == "M" or not r.get("signal_triggerings"):
                    continue
                sp = [port(e, "I-SIGNAL-PORT", "sp_%s_%s" % (s["name"], e), "IN") for e in r["receivers"].get(s["name"], [])]
                sp += [port(e, "I-SIGNAL-PORT", "sp_%s_%s_tx" % (s["name"], e), "OUT") for e in r["tx"]]
                stk = [sn("ST_" + s["name"], d + 5)]
                if sp:
                    stk.append(x.el("I-SIGNAL-PORT-REFS", [ref("I-SIGNAL-PORT-REF", "I-SIGNAL-PORT", p, d + 7) for p in sp], depth=d + 6))
                stk.append(ref("I-SIGNAL-REF", "I-SIGNAL", P + "/ISignals/" + s["name"], d + 6))
                xtrigs[cn]["sig"].append(x.el("I-SIGNAL-TRIGGERING", stk, depth=d + 5))
                refs.append(x.el("I-SIGNAL-TRIGGERING-REF-CONDITIONAL", [ref("I-SIGNAL-TRIGGERING-REF", "I-SIGNAL-TRIGGERING", P + "/Cluster/%s/Ch/ST_%s" % (cn, s["name"]), d + 8)], depth=d + 7))
            ptk = [sn(pt_name, d + 5)]
            if pp:
                ptk.append(x.el("I-PDU-PORT-REFS", [ref("I-PDU-PORT-REF", "I-PDU-PORT", p, d + 7) for p in pp], depth=d + 6))
            ptk.append(ref("I-PDU-REF", "MULTIPLEXED-I-PDU" if muxer is not None else "I-SIGNAL-I-PDU", P + "/Pdus/" + pdu_name, d + 6))
            if refs:
                ptk.append(x.el("I-SIGNAL-TRIGGERINGS", refs, depth=d + 6))
            xtrigs[cn]["pdu"].append(x.el("PDU-TRIGGERING", ptk, depth=d + 5))
    ecu_x = []
    conn_refs = []
    for e in ecus:
        pk = [x.el(kind, [sn(name, d + 6), x.el("COMMUNICATION-DIRECTION", text=direction, depth=d + 6)], depth=d + 5) for kind, name, direction in ports[e]]
        conn = x.el("CAN-COMMUNICATION-CONNECTOR", [sn("Conn_" + e, d + 3), x.el("ECU-COMM-PORT-INSTANCES", pk, depth=d + 3)], depth=d + 2)
        conns = [conn]
        for c in extra:
            if e in c["ecus"]:       # an ECU has one connector per cluster it is attached to
                pk = [x.el(kind, [sn(name, d + 6), x.el("COMMUNICATION-DIRECTION", text=direction, depth=d + 6)], depth=d + 5) for kind, name, direction in xports[c["name"]].get(e, [])]
                conns.append(x.el("CAN-COMMUNICATION-CONNECTOR", [sn("Conn_%s_%s" % (e, c["name"]), d + 3), x.el("ECU-COMM-PORT-INSTANCES", pk, depth=d + 3)], depth=d + 2))
        ecu_x.append(x.el("ECU-INSTANCE", [sn(e, d + 1), desc(net.get("ecu_comments", {}).get(e), d + 1), x.el("CONNECTORS", conns, depth=d + 1)], depth=d))
        conn_refs.append(x.el("COMMUNICATION-CONNECTOR-REF-CONDITIONAL", [ref("COMMUNICATION-CONNECTOR-REF", "CAN-COMMUNICATION-CONNECTOR", P + "/Ecus/%s/Conn_%s" % (e, e), d + 7)], depth=d + 6))
    channel = x.el("CAN-PHYSICAL-CHANNEL", [sn("Ch", d + 4), x.el("COMM-CONNECTORS", conn_refs, depth=d + 4), x.el("FRAME-TRIGGERINGS", frame_trigs, depth=d + 4),
                                            x.el("I-SIGNAL-TRIGGERINGS", sig_trigs, depth=d + 4), x.el("PDU-TRIGGERINGS", pdu_trigs, depth=d + 4)], depth=d + 3)
    cluster = x.el("CAN-CLUSTER", [sn("Main", d + 1), x.el("CAN-CLUSTER-VARIANTS", [x.el("CAN-CLUSTER-CONDITIONAL", [
        x.el("BAUDRATE", text=500000, depth=d + 3), x.el("PHYSICAL-CHANNELS", [channel], depth=d + 3), x.el("PROTOCOL-NAME", text="CAN", depth=d + 3)], depth=d + 2)], depth=d + 1)], depth=d)

    clusters = [cluster]
    for c in extra:
        crefs = [x.el("COMMUNICATION-CONNECTOR-REF-CONDITIONAL", [ref("COMMUNICATION-CONNECTOR-REF", "CAN-COMMUNICATION-CONNECTOR", P + "/Ecus/%s/Conn_%s_%s" % (e, e, c["name"]), d + 7)], depth=d + 6)
                 for e in ecus if e in c["ecus"]]
        xt = xtrigs[c["name"]]
        ch = x.el("CAN-PHYSICAL-CHANNEL", [sn("Ch", d + 4), x.el("COMM-CONNECTORS", crefs, depth=d + 4), x.el("FRAME-TRIGGERINGS", xt["frame"], depth=d + 4),
                                           x.el("I-SIGNAL-TRIGGERINGS", xt["sig"], depth=d + 4), x.el("PDU-TRIGGERINGS", xt["pdu"], depth=d + 4)], depth=d + 3)
        cl = x.el("CAN-CLUSTER", [sn(c["name"], d + 1), x.el("CAN-CLUSTER-VARIANTS", [x.el("CAN-CLUSTER-CONDITIONAL", [
            x.el("BAUDRATE", text=c.get("baudrate", 250000), depth=d + 3), x.el("PHYSICAL-CHANNELS", [ch], depth=d + 3), x.el("PROTOCOL-NAME", text="CAN", depth=d + 3)], depth=d + 2)], depth=d + 1)], depth=d)
        if c.get("before_main"):
            clusters.insert(0, cl)
        else:
            clusters.append(cl)

    def pkg(name, elements):
        return x.el("AR-PACKAGE", [sn(name, 5), x.el("ELEMENTS", elements, depth=5)], depth=4)
    pkgs = [pkg("Cluster", clusters), pkg("Ecus", ecu_x), pkg("Frames", frames_x), pkg("Pdus", pdus_x), pkg("ISignals", isigs_x), pkg("SystemSignals", ssigs_x),
            pkg("BaseTypes", base_x), pkg("CompuMethods", compu_x), pkg("Units", units_x), pkg("Constrs", constr_x)]
    pkgs = L.order(pkgs)
    root = x.el("AUTOSAR", [x.el("AR-PACKAGES", [x.el("AR-PACKAGE", [sn(ROOT, 3), x.el("AR-PACKAGES", pkgs, depth=3)], depth=2)], depth=1)],
                attrs={"xmlns": "http://autosar.org/schema/r4.0"})
    return ('<?xml version="1.0" encoding="utf-8"?>\n' + root).encode("utf-8")
