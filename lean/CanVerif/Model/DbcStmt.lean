import CanVerif.Model.DbcText
/-!
# Model of further DBC statements (C05, C15): `BO_TX_BU_`, `SIG_VALTYPE_`, `SG_MUL_VAL_`

Writer: formats/dbc.py `dump`
  `"BO_TX_BU_ %d : %s;\n" % (id, ','.join(frame.transmitters))`                       (frames with more than one sender)
  `'SIG_VALTYPE_ %d %s : 2;\n'` / `: 1;`                                                (float signals: 2 above 32 bit)
  `"SG_MUL_VAL_ %d %s %s " + ", ".join("%d-%d" % (a, b) …) + ";\n"`                     (extended multiplexing)
Reader: `load`
  `^BO_TX_BU_ +([0-9]+) *: *(.+) *;`           then `group(2).split(',')`, `frame.add_transmitter` (no duplicates)
  `^SIG_VALTYPE_ +(\S+) +(\S+)\s*\:(.*) *; *`  then `signal.is_float = True` (the type number is not looked at)
  `^SG_MUL_VAL_ +([0-9]+) +([\S\-]+) +([\S\-]+) +(.*) *; *` then `group(4).split(',')`, each `.split("-")` into exactly two `int()`s
The greedy groups `(.+)`/`(.*)` in front of ` *;` reach to the last semicolon of the line; that is how they are modelled.
-/
namespace CanVerif.Dbc
open CanVerif

/-- the text in front of the last `;` of `s` (what a greedy `(.*) *;` captures), `none` without a semicolon -/
def uptoLastSemicolon (s : Str) : Option Str :=
  match s.reverse.dropWhile (· != ';') with
  | ';' :: b => some b.reverse
  | _ => none

/-! ## `BO_TX_BU_` -/

structure TxLine where
  id : Nat
  ecus : List Str
  deriving Repr, DecidableEq, Inhabited

def renderTx (t : TxLine) : Str :=
  "BO_TX_BU_ ".toList ++ natDigits t.id ++ " : ".toList ++ joinComma t.ecus ++ [';']

/-- raw pieces of `split(',')` (nothing stripped: `"a, b".split(',')` gives `"a"` and `" b"`) -/
def splitRaw (sep : Char) (s : Str) : List Str :=
  let rec go (cur : Str) : Str → List Str
    | [] => [cur.reverse]
    | c :: r => if c == sep then cur.reverse :: go [] r else go (c :: cur) r
  go [] s

def parseTx (line : Str) : Option TxLine :=
  if !startsWith line "BO_TX_BU_ ".toList then none else
  match (skipSp (line.drop 9)).span isDigit with
  | ([], _) => none
  | (idS, r1) =>
    match skipSp r1 with
    | ':' :: r2 =>
      match uptoLastSemicolon (skipSp r2) with
      | some body => if body.isEmpty then none else (digitsToNat idS).map fun id => { id, ecus := splitRaw ',' body }
      | none => none
    | _ => none

/-- `frame.add_transmitter` for each name: appended unless already present -/
def addTransmitters (have_ : List Str) (names : List Str) : List Str :=
  names.foldl (fun acc n => if acc.contains n then acc else acc ++ [n]) have_

def wfTx (t : TxLine) : Bool := !t.ecus.isEmpty && t.ecus.all isIdent

/-! ## `SIG_VALTYPE_` -/

structure ValTypeLine where
  id : Nat
  name : Str
  double : Bool        -- `2` (IEEE double) or `1` (IEEE float)
  deriving Repr, DecidableEq, Inhabited

def renderValType (v : ValTypeLine) : Str :=
  "SIG_VALTYPE_ ".toList ++ natDigits v.id ++ ' ' :: v.name ++ " : ".toList ++ [if v.double then '2' else '1', ';']

/-- split at the last colon of a token (`(\S+)\s*\:` after backtracking inside the token) -/
def splitLastColon (tok : Str) : Option (Str × Str) :=
  match tok.reverse.span (· != ':') with
  | (post, ':' :: pre) => if pre.isEmpty then none else some (pre.reverse, post.reverse)
  | _ => none

/-- what the reader takes from the line: the frame and the signal that is a float (the number after the colon is ignored) -/
def parseValType (line : Str) : Option (Nat × Str) :=
  if !startsWith line "SIG_VALTYPE_ ".toList then none else
  match (skipSp (line.drop 12)).span (fun c => !isBlank c) with
  | ([], _) => none
  | (idS, r1) =>
    match r1 with
    | ' ' :: _ =>
      match (skipSp r1).span (fun c => !isBlank c) with
      | ([], _) => none
      | (tok, r2) =>
        let afterName : Option (Str × Str) :=
          match r2.dropWhile isBlank with
          | ':' :: r3 => some (tok, r3)
          | _ => (splitLastColon tok).map fun (pre, post) => (pre, post ++ r2)
        match afterName with
        | some (name, rest) =>
          match uptoLastSemicolon rest with
          | some _ => (digitsToNat idS).map fun id => (id, name)
          | none => none
        | none => none
    | _ => none

def wfValType (v : ValTypeLine) : Bool := isIdent v.name

/-! ## `SG_MUL_VAL_` -/

structure MulLine where
  id : Nat
  sig : Str
  muxer : Str
  ranges : List (Nat × Nat)
  deriving Repr, DecidableEq, Inhabited

/-- `", ".join(...)` -/
def joinCommaBlank : List Str → Str
  | [] => []
  | [a] => a
  | a :: b :: r => a ++ ',' :: ' ' :: joinCommaBlank (b :: r)

def renderMul (m : MulLine) : Str :=
  "SG_MUL_VAL_ ".toList ++ natDigits m.id ++ ' ' :: m.sig ++ ' ' :: m.muxer ++ [' '] ++
  joinCommaBlank (m.ranges.map fun (a, b) => natDigits a ++ '-' :: natDigits b) ++ [';']

/-- `int(text)` of a range bound: blanks around the digits are accepted -/
def parseBound (s : Str) : Option Nat :=
  let t := stripWs s
  if t.isEmpty then none else digitsToNat t

/-- `a, b = piece.split("-")`: exactly two parts -/
def parseRange (piece : Str) : Option (Nat × Nat) :=
  match splitRaw '-' piece with
  | [a, b] => (parseBound a).bind fun x => (parseBound b).map fun y => (x, y)
  | _ => none

def parseMul (line : Str) : Option MulLine :=
  if !startsWith line "SG_MUL_VAL_ ".toList then none else
  match (skipSp (line.drop 11)).span isDigit with
  | ([], _) => none
  | (idS, r1) =>
    match r1 with
    | ' ' :: _ =>
      match (skipSp r1).span (fun c => !isBlank c) with
      | ([], _) => none
      | (sig, r2) =>
        match r2 with
        | ' ' :: _ =>
          match (skipSp r2).span (fun c => !isBlank c) with
          | ([], _) => none
          | (muxer, r3) =>
            match r3 with
            | ' ' :: _ =>
              match uptoLastSemicolon (skipSp r3) with
              | some body =>
                (digitsToNat idS).bind fun id =>
                ((splitRaw ',' body).mapM parseRange).map fun rs => { id, sig, muxer, ranges := rs }
              | none => none
            | _ => none
        | _ => none
    | _ => none

def wfMul (m : MulLine) : Bool := isIdent m.sig && isIdent m.muxer

end CanVerif.Dbc
